#!/usr/bin/env python3
"""C02  INFEASIBLE is only ever reported together with an exact Farkas certificate."""
import sys, os
sys.path.insert(0, os.path.dirname(os.path.abspath(__file__)))
from lib import *
from gen_lp import *
from solve_common import *


def inf_stream(rng, count):
    out = []
    i = 0
    while len(out) < count:
        i += 1
        r = i % 8
        if r in (0, 1):
            out.append(infeasible_margin(rng, rng.choice([1, 5, 30, 60, 120, 400, 1100, 3000]), name="im%d" % i))
        elif r == 2:
            out.append(feasible_margin(rng, rng.choice([1, 5, 30, 60, 120, 400, 1100, 3000]), name="fm%d" % i))
        elif r == 3:
            out.append(face_only(rng, name="fo%d" % i) if i % 16 != 3 else tiny_coef(rng, rng.choice([20, 38, 40, 45, 60, 90, 200]), rng.random() < 0.6, name="tc%d" % i))
        elif r in (4, 5):
            lp = random_lp(rng, name="r%d" % i)
            out.append(lp)
        elif r == 6:
            # infeasible through bounds: row forces x beyond its box
            n = rng.randint(1, 3)
            cols = [(F(rng.randint(-2, 2)), 0, rng.randint(1, 4)) for _ in range(n)]
            rows = [("G", F(100), F(0), [(j, F(1)) for j in range(n)])]
            if rng.random() < 0.5:
                rows.append(("R", F(-3), F(2), [(0, F(1))]))
            out.append(mk("bx%d" % i, rng.random() < 0.5, cols, rows))
        else:
            out.append(planted_lp(rng, name="pl%d" % i))
    return out


def main():
    ck = Check("C02", "proof")
    build_repo()
    pr = ck.proofs()
    nlp = 600 if ck.thorough() else 80
    ncfg = 6 if ck.thorough() else 4
    lps = inf_stream(ck.rng, nlp)
    # margins below the last mpf precision (128 * 1.5^11 bits): the ladder cannot decide these
    lps.append(infeasible_margin(ck.rng, 12500, name="imX"))
    lps.append(feasible_margin(ck.rng, 12500, name="fmX"))
    cases, meta = [], {}
    for li, lp in enumerate(lps):
        for ci, cfg in enumerate(configs(ck.rng, lp, ncfg)):
            if ci >= 2:
                cfg["entry"] = ck.rng.choice(["EXACT P", "EXACT D"])
            cid = "%d.%d" % (li, ci)
            cases.append((cid, case_script(cid, lp, cfg)))
            meta[cid] = (lp, cfg)
    M, outs, crashes = run_cases("h_solve", cases, per_case_timeout=60)
    ck.cov["crashes_seen"] = [dict(case=cid, rc=rc) for cid, rc, err in crashes]
    scripts = dict(cases)
    q, want, stat_hist = ["M " + M], {}, {}
    feasible_proof = {}     # lp index -> cid of a certified OPTIMAL (so the LP has a feasible point)
    reported_inf = {}       # lp index -> [cid]
    for cid, toks in outs.items():
        co = CaseOut(toks)
        if not co.lp_ok or not co.ilp or not co.last():
            continue
        kind, rv, st = co.last()
        key = "%s/%s" % (kind, STATUS.get(st, st) if rv == 0 else "rval!=0")
        stat_hist[key] = stat_hist.get(key, 0) + 1
        li = cid.split(".")[0]
        if kind == "EXACT" and co.traces:
            q.append(trace_query(cid + ".r", co.traces[-1], meta[cid][1]["entry"][-1], False))
            want[cid + ".r"] = ("trace", co)
        if rv == 0 and st == 2:
            reported_inf.setdefault(li, []).append(cid)
            if kind == "EXACT":
                q.append("Q %s.f farkas inf\n%s\nY %s" % (cid, co.ilp_text(), " ".join(co.y)))
                want[cid + ".f"] = ("farkas", co)
        if rv == 0 and st == 1 and all(co.acc.get(k, (1,))[0] == 0 for k in ("x", "slack", "pi", "objval")):
            a = co.acc
            q.append("Q %s.k kkt inf\n%s\nZ %s\nY %s\nV %s" % (cid, co.ilp_text(), " ".join(a["x"][1] + a["slack"][1]), " ".join(a["pi"][1]), a["objval"][1][0]))
            want[cid + ".k"] = ("kkt", co)
    ans = run_model("drv_solve", "\n".join(q) + "\n")
    ninf = ntrace = 0
    exits = {}
    for qid, (kind, co) in want.items():
        cid = qid.rsplit(".", 1)[0]
        lp, cfg = meta[cid]
        r = ans.get(qid)
        if kind == "farkas":
            ninf += 1
            ck.count((repr(lp["cols"]), repr(lp["rows"]), repr(sorted(cfg.items()))))
            if r != ["true"]:
                ck.violation("farkas_%s.txt" % cid, scripts[cid], "status INFEASIBLE from QSexact_solver (cfg %s) but the returned multipliers are no Farkas certificate" % cfg,
                             match=dict(kind="farkas"))
            else:
                ck.sample(dict(lp=lp["name"], cfg=cfg, y=co.y[:6]))
        elif kind == "kkt" and r == ["true"]:
            feasible_proof[cid.split(".")[0]] = cid
        elif kind == "trace":
            tr = co.traces[-1]
            ex = trace_exit(tr)
            _, rv, st = co.last()
            ntrace += 1
            exits[r[2] if r else "?"] = exits.get(r[2] if r else "?", 0) + 1
            model = (int(r[0]), int(r[1])) if r else None
            real = (1 if rv != 0 else 0, st)
            if model is None or ex != real or (model != real and not (model[0] == 1 and real[0] == 1)):
                ck.violation("drvtrace_%s.txt" % cid, scripts[cid] + "\n# trace: %s\n# model: %s\n# real: %s" % (tr, r, real),
                             "correspondence Driver.exact_solver vs QSexact_solver broke: model %s, real %s, exit event %s" % (r, real, ex),
                             no_input=True, match=dict(kind="corr-driver"))
            if r and r[2] == "exhausted" and real[0] == 0 and st == 2:
                ck.violation("exhausted_%s.txt" % cid, scripts[cid], "QSexact_solver returned INFEASIBLE through ladder exhaustion (no certificate)",
                             match=dict(kind="exhausted-definitive"))
    # no LP with a feasible point is ever reported INFEASIBLE (any entry point)
    for li, cids in reported_inf.items():
        if li in feasible_proof:
            for cid in cids:
                ck.violation("feasible_but_inf_%s.txt" % cid, scripts[cid] + "\n# feasible point certified in case %s:\n" % feasible_proof[li] + scripts[feasible_proof[li]],
                             "LP reported INFEASIBLE (%s) although another configuration produced a certified optimum" % (meta[cid][1],),
                             match=dict(kind="feasible-reported-infeasible", entry=meta[cid][1]["entry"]))
    # ---- correspondence: model infeas_test vs QSexact_infeasible_test ----------------------------
    ccases, cq, cmeta = [], ["M " + M], {}
    for cid, toks in outs.items():
        if not cid.endswith(".0"):
            continue
        co = CaseOut(toks)
        if not co.lp_ok or not co.ilp:
            continue
        lp, _ = meta[cid]
        nc, m, ns = co.dims()
        kind, rv, st = co.last()
        vs = []
        if rv == 0 and st == 2 and kind == "EXACT" and co.y:
            vs.append(("true-farkas", list(co.y)))
            for _ in range(4):
                y2 = list(co.y)
                if m:
                    i = ck.rng.randrange(m)
                    y2[i] = perturb_q(ck.rng, y2[i])
                vs.append(("perturbed", y2))
            vs.append(("negated", [str(-F(t)) for t in co.y]))
            vs.append(("scaled", [str(F(t) * 3) for t in co.y]))
        vs.append(("random", [str(ck.rng.randint(-2, 2)) for _ in range(m)]))
        vs.append(("zero", ["0"] * m))
        for vi, (label, ys) in enumerate(vs):
            tid = "t%s.%d" % (cid, vi)
            ccases.append((tid, "CASE %s\n%s\nINFTEST %s\nDUMP\n" % (tid, lp_block(lp), " ".join(ys))))
            cq.append("Q %s inftest\n%s\nY %s" % (tid, co.ilp_text(), " ".join(ys)))
            cq.append("Q %s.f farkas inf\n%s\nY %s" % (tid, co.ilp_text(), " ".join(ys)))
            cmeta[tid] = label
    _, couts, ccr = run_cases("h_solve", ccases, per_case_timeout=20)
    cans = run_model("drv_solve", "\n".join(cq) + "\n")
    ncorr = nacc = 0
    labels = {}
    cscripts = dict(ccases)
    for tid in cscripts:
        v = None
        for t in couts.get(tid, []):
            if t[0] == "INFTEST":
                v = int(t[1])
        r = cans.get(tid)
        if v is None or r is None:
            continue
        ncorr += 1
        labels[cmeta[tid]] = labels.get(cmeta[tid], 0) + 1
        ck.count(("corr", tid, cscripts[tid]))
        if v == 1:
            nacc += 1
        if (v == 1) != (r == ["true"]):
            really_bad = v == 1 and cans.get(tid + ".f") != ["true"]
            ck.violation("corr_inftest_%s.txt" % tid, cscripts[tid] + "\n# model: %s  C: %s  check_farkas: %s" % (r, v, cans.get(tid + ".f")),
                         "correspondence OptTest.infeas_test vs QSexact_infeasible_test broke (variant %s): C %s, model %s%s" % (
                             cmeta[tid], v, r, "; the real test accepted a vector that is no Farkas certificate" if really_bad else ""),
                         no_input=not really_bad, match=dict(kind="corr-inftest"))
    if not pr["ok"]:
        ck.violation("proof.txt", pr["log"], "proof obligation(s) of Properties_C02.v no longer check: %s" % pr["failed"], no_input=not ck.violations)
    ck.cov["rule"] = ("infeasible-by-margin 2^-k (k up to 3000), feasible-by-margin, face-only, bound-infeasible, random and planted LPs x configurations; "
                      "non-trivial = QSexact_solver reported INFEASIBLE and y was judged by extracted check_farkas, or an INFTEST correspondence case; distinct by LP data + configuration")
    ck.cov["status_histogram"] = dict(sorted(stat_hist.items()))
    ck.cov["infeasible_judged"] = ninf
    ck.cov["lps_with_certified_feasible_point"] = len(feasible_proof)
    ck.cov["driver_traces_replayed"] = dict(n=ntrace, exit_labels=exits)
    ck.cov["traces_validated_against_impl"] = ncorr + ntrace
    ck.cov["corr_inftest"] = dict(cases=ncorr, accepted_by_C=nacc, variants=labels, harness_crashes=len(ccr))
    ck.cov["evaluations"] = len(cases) + len(ccases)
    ck.cov["not_covered"] = "soundness on the ladder-exhaustion exit is refuted at model level (C02_driver_infeasible_refuted); it is monitored on every real run"
    ck.assumptions = ["Coq kernel; extraction (ExtrOcamlBasic) + OCaml compiler", "harness h_solve + text protocol", "GMP = exact rational arithmetic",
                      "floating point solvers and rational basis evaluation are oracles (nothing assumed)"]
    ck.finish(trusted_base=["coqc 8.16.1 kernel", "OCaml extraction (ExtrOcamlBasic only)", "harness h_solve.c + checks/C02.py"])


main_guard(main)
