#!/usr/bin/env python3
"""C01  OPTIMAL is only ever reported together with an exact optimality certificate."""
import sys, os
sys.path.insert(0, os.path.dirname(os.path.abspath(__file__)))
from lib import *
from gen_lp import *
from solve_common import *


def main():
    ck = Check("C01", "proof")
    build_repo()
    pr = ck.proofs()
    nlp = 400 if ck.thorough() else 90
    ncfg = 6 if ck.thorough() else 5
    lps = family_stream(ck.rng, nlp, big=ck.thorough())
    cases, meta = [], {}
    import glob as _glob
    for k_, f_ in enumerate(sorted(_glob.glob(os.path.join(VERIF, "corpus", "C01", "*.json")))):
        d_ = json.load(open(f_))
        lp_ = lp_from_json(d_["lp"])
        cid = "corpus%d.1" % k_
        cases.append((cid, case_script(cid, lp_, d_["cfg"])))
        meta[cid] = (lp_, d_["cfg"])
    for li, lp in enumerate(lps):
        for ci, cfg in enumerate(configs(ck.rng, lp, ncfg)):
            cid = "%d.%d" % (li, ci)
            cases.append((cid, case_script(cid, lp, cfg)))
            meta[cid] = (lp, cfg)
    # boxed columns and ranged rows throughout (bound flips in both directions in the dual ratio test), mostly through the direct
    # entry points with scaling off, where nothing re-derives the primal values between bound flips and the final test
    for bi in range(120 if ck.thorough() else 24):
        lp = boxed_ranged(ck.rng, name="bx%d" % bi)
        for ci, (entry, sc) in enumerate((("DUAL", 0), ("PRIMAL", 0), ("DUAL", 1), ("EXACT D", 0))):
            cfg = dict(entry=entry, pp=ck.rng.choice(PPRICE), dp=ck.rng.choice(DPRICE), scale=sc, warm="none")
            cid = "bx%d.%d" % (bi, ci)
            cases.append((cid, case_script(cid, lp, cfg)))
            meta[cid] = (lp, cfg)
    # ---- edit histories: the certificate must hold against the LP *as currently defined through the API* ----
    for li, lp in enumerate(lps[: (300 if ck.thorough() else 45)]):
        n, m = len(lp["cols"]), len(lp["rows"])
        if n == 0 or m == 0:
            continue
        for hi in range(3 if ck.thorough() else 2):
            cid = "h%d.%d" % (li, hi)
            cfg = dict(entry=ck.rng.choice(ENTRIES), warm="none")
            lines = ["CASE %s" % cid, lp_block(lp)]
            if ck.rng.random() < 0.7:
                lines += ["SOLVE %s" % ck.rng.choice(ENTRIES)]
            edits = []
            lo_ = [c[2] for c in lp["cols"]]
            up_ = [c[3] for c in lp["cols"]]
            for _ in range(ck.rng.randint(1, 3)):
                i, j = ck.rng.randrange(m), ck.rng.randrange(n)
                edits.append(ck.rng.choice([
                    "CHG sense %d %s" % (i, ck.rng.choice("LGE")),
                    "CHG coef %d %d %s" % (i, j, qs(rand_q(ck.rng, "small"))),
                    "CHG rhs %d %s" % (i, qs(rand_q(ck.rng, "small"))),
                    "CHG obj %d %s" % (j, qs(rand_q(ck.rng, "small"))),
                    "BOUND",
                    "CHG objsense %s" % ck.rng.choice(["MIN", "MAX"]),
                    "CHG delrow %d" % i if m > 1 else "CHG rhs %d 1" % i,
                    "CHG delcol %d" % j if n > 1 else "CHG obj %d 1" % j,
                ]))
                if edits[-1] == "BOUND":
                    # keep the LP well formed: lower <= upper
                    v = F(ck.rng.randint(-3, 6))
                    if ck.rng.random() < 0.5:
                        if up_[j] != INF and v > F(up_[j]):
                            v = F(up_[j])
                        lo_[j] = v
                        edits[-1] = "CHG bound %d L %s" % (j, qs(v))
                    else:
                        if lo_[j] != NINF and v < F(lo_[j]):
                            v = F(lo_[j])
                        up_[j] = v
                        edits[-1] = "CHG bound %d U %s" % (j, qs(v))
                if edits[-1].startswith("CHG delrow"):
                    m -= 1
                if edits[-1].startswith("CHG delcol"):
                    n -= 1
                    del lo_[j], up_[j]
            if (li + hi) % 4 == 3 and m > 1:
                # the delete call that may keep basis and cache (row with a basic logical), answered by the primal entry point from the cache
                lines = ["CASE %s" % cid, lp_block(lp), "SOLVE %s" % ck.rng.choice(ENTRIES)]
                edits = ["CHG delbasicrow %d" % ck.rng.randrange(4)]
                cfg = dict(entry="PRIMAL", warm="none")
            elif (li + hi) % 5 == 1:
                # a problem that came through a file carries the readers' row-wise copy of the matrix: write, read back, overwrite
                # EXISTING coefficients, solve directly (scaling off, so that the simplex works on this very object)
                ents = [(i_, j_) for i_, r_ in enumerate(lp["rows"]) for (j_, v_) in r_[4]]
                if ents:
                    f_ = "rb_%s.mps" % cid.replace(".", "_")
                    lines = ["CASE %s" % cid, lp_block(lp), "WRITEPROB %s MPS" % f_, "READPROB %s MPS" % f_, "PARAM 7 0"]
                    edits = ["CHG coef %d %d %s" % (i_, j_, qs(F(ck.rng.choice([-5, -4, -3, -2, 2, 3, 4, 5, 7])))) for (i_, j_) in ck.rng.sample(ents, min(len(ents), ck.rng.randint(1, 2)))]
                    cfg = dict(entry=ck.rng.choice(["PRIMAL", "DUAL"]), warm="none")
            lines += edits + ["SOLVE " + cfg["entry"], "ACCESS", "GETBASIS", "DUMP"]
            cases.append((cid, "\n".join(lines) + "\n"))
            meta[cid] = (dict(lp, name=lp["name"] + "+edits", edits=edits), cfg)
    # the same on every LP of the stream with at least 4 rows (the simplex multiplies by the row-wise copy only when its work
    # vector is sparse relative to the number of rows), under both direct entry points
    for li, lp in enumerate(lps):
        ents = [(i_, j_, v_) for i_, r_ in enumerate(lp["rows"]) for (j_, v_) in r_[4]]
        if len(lp["rows"]) < 4 or not ents:
            continue
        for entry in ("PRIMAL", "DUAL"):
            cid = "rb%d.%s" % (li, entry[0])
            f_ = "rb_%d_%s.mps" % (li, entry[0])
            edits = ["CHG coef %d %d %s" % (i_, j_, qs(-v_ * ck.rng.choice([1, 2, 3]) + ck.rng.choice([0, 1]))) for (i_, j_, v_) in ck.rng.sample(ents, min(len(ents), ck.rng.randint(1, 3)))]
            lines = ["CASE %s" % cid, lp_block(lp), "WRITEPROB %s MPS" % f_, "READPROB %s MPS" % f_, "PARAM 7 0"] + edits + ["SOLVE " + entry, "ACCESS", "GETBASIS", "DUMP"]
            cases.append((cid, "\n".join(lines) + "\n"))
            meta[cid] = (dict(lp, name=lp["name"] + "+readback-edits", edits=edits), dict(entry=entry, warm="none"))
    import tempfile as _tf, shutil as _sh
    scratch_ = _tf.mkdtemp(prefix="qsx_c01_", dir="/var/tmp")
    try:
        M, outs, crashes = run_cases("h_solve", cases, per_case_timeout=40, env={"QSX_SCRATCH": scratch_})
    finally:
        _sh.rmtree(scratch_, ignore_errors=True)
    # a crash is not a C01 violation (C01 speaks about solves that succeed); crashes are C17's business and only counted here
    ck.cov["crashes_seen"] = [dict(case=cid, rc=rc) for cid, rc, err in crashes]
    # oracle queries
    q = ["M " + M]
    want = {}
    stat_hist = {}
    for cid, toks in outs.items():
        co = CaseOut(toks)
        if not co.lp_ok or not co.ilp or not co.last():
            continue
        kind, rv, st = co.last()
        stat_hist[(kind, STATUS.get(st, st) if rv == 0 else "rval!=0")] = stat_hist.get((kind, STATUS.get(st, st) if rv == 0 else "rval!=0"), 0) + 1
        if kind == "EXACT" and co.traces:
            q.append(trace_query(cid + ".r", co.traces[-1], meta[cid][1]["entry"][-1], False))
            want[cid + ".r"] = ("trace", co)
        q.append("Q %s.t toint\n%s\n%s" % (cid, co.ilp_text(), co.ulp_text()))
        want[cid + ".t"] = ("toint", co)
        if rv == 0 and st == 1:
            a = co.acc
            ok_acc = all(a.get(k, (1, []))[0] == 0 for k in ("objval", "x", "pi", "rc", "slack", "solution"))
            if not ok_acc:
                ck.violation("acc_%s.txt" % cid, dict(cases)[cid], "OPTIMAL but a solution accessor failed: %s" % {k: v[0] for k, v in a.items()},
                             match=dict(kind="accessor-fails", entry=kind))
                continue
            z = a["x"][1] + a["slack"][1]
            q.append("Q %s.k kkt inf\n%s\nZ %s\nY %s\nV %s" % (cid, co.ilp_text(), " ".join(z), " ".join(a["pi"][1]), a["objval"][1][0]))
            want[cid + ".k"] = ("kkt", co)
            q.append("Q %s.l kkt lit\n%s\nZ %s\nY %s\nV %s" % (cid, co.ilp_text(), " ".join(z), " ".join(a["pi"][1]), a["objval"][1][0]))
            q.append("Q %s.d dz\n%s\nY %s" % (cid, co.ilp_text(), " ".join(a["pi"][1])))
            want[cid + ".d"] = ("dz", co)
            # sign handling of ILLlib_solution (model LP/LibSolution.v): internal simplex values -> accessor values
            if kind in ("PRIMAL", "DUAL") and co.intsol and co.intsol[0] == "1" and len(co.solves) == 1:   # values straight from the rational simplex
                parts = " ".join(co.intsol[1:]).split("|")
                if len(parts) == 3:
                    mx = co.ilp[0][1]
                    q.append("Q %s.s libsol %s %s %d %s %s" % (cid, mx, parts[0].strip(), len(parts[1].split()), parts[1].strip(), parts[2].strip()))
                    want[cid + ".s"] = ("libsol", co)
            # solver out-params equal accessor values (EXACT)
            if kind == "EXACT" and (co.x != a["x"][1] or co.y != a["pi"][1]):
                ck.violation("outparam_%s.txt" % cid, dict(cases)[cid], "x/y handed back by QSexact_solver differ from accessor values",
                             match=dict(kind="outparam-mismatch"))
            sol = " ".join(a["solution"][1]).split("|")
            exp = [a["objval"][1], a["x"][1], a["pi"][1], a["slack"][1], a["rc"][1]]
            if [s.split() for s in sol] != exp:
                ck.violation("solacc_%s.txt" % cid, dict(cases)[cid], "QSget_solution differs from the individual accessors", match=dict(kind="solution-acc"))
    ans = run_model("drv_solve", "\n".join(q) + "\n")
    nopt = ntrace = maxlevel = nsign = 0
    exits = {}
    for qid, (kind, co) in want.items():
        cid = qid.rsplit(".", 1)[0]
        lp, cfg = meta[cid]
        r = ans.get(qid)
        if kind == "toint":
            if r != ["true"]:
                ck.violation("toint_%s.txt" % cid, dict(cases)[cid], "internal form differs from to_internal(query-API view): %s" % r,
                             match=dict(kind="toint"))
        elif kind == "kkt":
            nopt += 1
            ck.count((lp["name"], repr(lp["cols"]), repr(lp["rows"]), repr(sorted(cfg.items()))))
            if r != ["true"]:
                lit = ans.get(cid + ".l") == ["true"]
                ck.violation("kkt_%s.txt" % cid, dict(cases)[cid],
                             "status OPTIMAL (%s, cfg %s) but accessor values fail the exact optimality certificate check%s" % (
                                 co.last()[0], cfg, " (certificate holds only if the sentinel 1e150 is read as a finite bound)" if lit else ""),
                             match=dict(kind="kkt-sentinel" if lit else "kkt", entry=co.last()[0]))
            else:
                ck.sample(dict(lp=lp["name"], cfg={k: v for k, v in cfg.items()}, objval=co.acc["objval"][1][0]))
        elif kind == "trace":
            tr = co.traces[-1]
            ex = trace_exit(tr)
            _, rv, st = co.last()
            ntrace += 1
            exits[r[2] if r else "?"] = exits.get(r[2] if r else "?", 0) + 1
            maxlevel = max(maxlevel, trace_levels(tr))
            model = (int(r[0]), int(r[1])) if r else None
            real = (1 if rv != 0 else 0, st)
            if model is None or ex != real or (model != real and not (model[0] == 1 and real[0] == 1)):
                ck.violation("drvtrace_%s.txt" % cid, dict(cases)[cid] + "\n# trace: %s\n# model: %s\n# real: %s" % (tr, r, real),
                             "correspondence Driver.exact_solver vs QSexact_solver broke: model %s, real (rval,status) %s, exit event %s" % (r, real, ex),
                             no_input=True, match=dict(kind="corr-driver"))
            if r and r[2] == "exhausted" and real[0] == 0 and st in (1, 2):
                ck.violation("exhausted_%s.txt" % cid, dict(cases)[cid], "QSexact_solver returned status %d through ladder exhaustion (no certificate)" % st,
                             match=dict(kind="exhausted-definitive"))
        elif kind == "libsol":
            nsign += 1
            Mq = F(M)
            nrm = lambda l: [Mq if t_ == "inf" else (-Mq if t_ == "-inf" else F(t_)) for t_ in l]
            got = [nrm(p_.split()) for p_ in " ".join(r or []).split("|")]
            exp = [nrm(co.acc["objval"][1]), nrm(co.acc["pi"][1]), nrm(co.acc["rc"][1])]
            if got != exp:
                ck.violation("libsol_%s.txt" % cid, dict(cases)[cid] + "\n# internal: %s\n# model lib_solution: %s\n# accessors: %s" % (co.intsol, r, [co.acc[k_][1] for k_ in ("objval", "pi", "rc")]),
                             "correspondence LibSolution.lib_solution vs ILLlib_solution broke: accessor objval/pi/rc differ from the model applied to the simplex's internal values",
                             no_input=True, match=dict(kind="corr-libsol"))
        elif kind == "dz":
            n = co.dims()[2]
            if r is None or r[:n] != co.acc["rc"][1]:
                ck.violation("rc_%s.txt" % cid, dict(cases)[cid], "reduced costs returned differ from c - A^T pi", match=dict(kind="rc"))
    # ---- correspondence: model opt_test vs QSexact_optimal_test -------------------------------
    solved = [(cid, CaseOut(outs[cid])) for cid in outs if cid.endswith(".0") and not cid.startswith("h")]
    solved = [(cid, co) for cid, co in solved if co.lp_ok and co.ilp]
    ccases, cq, cmeta, cargs = [], ["M " + M], {}, {}
    for cid, co in solved:
        lp, _ = meta[cid]
        kind, rv, st = co.last()
        nc, m, ns = co.dims()
        if rv == 0 and st == 1 and all(co.acc.get(k, (1,))[0] == 0 for k in ("x", "slack", "pi")):
            vs = opttest_variants(ck.rng, co, 8 if ck.thorough() else 5)
        else:
            xs = [str(ck.rng.randint(-3, 3)) for _ in range(nc)]
            ys = [str(ck.rng.randint(-2, 2)) for _ in range(m)]
            vs = [("random", "".join(ck.rng.choice("012") for _ in range(ns)), "".join(ck.rng.choice("012") for _ in range(m)), xs, ys)]
        for vi, (label, cs, rs, xs, ys) in enumerate(vs):
            tid = "t%s.%d" % (cid, vi)
            ccases.append((tid, opttest_script(tid, lp, cs, rs, xs, ys)))
            cargs[tid] = (cs, rs, xs, ys)
            cmeta[tid] = (label, lp)
        # probes aimed at single conditions of the test: all-logical basis, duals zero, so that only the
        # bound tests of the logicals (primal probe) resp. the complementary slackness products and the
        # objective equality (dual probe) decide
        if ns and m:
            for pi_ in range(4 if ck.thorough() else 2):
                def st_of(j):
                    lo, up = lp["cols"][j][2], lp["cols"][j][3]
                    opts = ([] if lo == NINF else ["0"]) + ([] if up == INF else ["2"])
                    return ck.rng.choice(opts) if opts else "3"
                cs_ = "".join(st_of(j) for j in range(ns))
                rs_ = "1" * m
                xs = [str(ck.rng.randint(-2, 3)) for _ in range(nc)]
                ys = ["0"] * m
                tid = "t%s.p%d" % (cid, pi_)
                pre = "".join("CHG obj %d 0\n" % j for j in range(ns)) if pi_ % 2 == 0 else ""
                scr = "CASE %s\n%s\n%sOPTTEST %s %s %s %s\nDUMP\n" % (tid, lp_block(lp), pre, cs_, rs_, " ".join(xs), " ".join(ys))
                ccases.append((tid, scr))
                cargs[tid] = (cs_, rs_, xs, ys)
                cmeta[tid] = ("probe-primal" if pre else "probe-dual", lp)
    _, couts, ccr = run_cases("h_solve", ccases, per_case_timeout=20)
    for tid, _scr in ccases:
        if tid in couts:
            co_t = CaseOut(couts[tid])
            if co_t.ilp:
                cq.append(opttest_query(tid, co_t, *cargs[tid]))
    cans = run_model("drv_solve", "\n".join(cq) + "\n")
    ncorr = nacc = 0
    labels = {}
    for tid, _scr in ccases:
        if tid not in couts:
            continue
        v, acc = parse_opttest_out(couts[tid])
        r = cans.get(tid)
        if v is None or r is None:
            continue
        ncorr += 1
        labels[cmeta[tid][0]] = labels.get(cmeta[tid][0], 0) + 1
        model_some = r[0] == "some"
        agree = (v == 1) == model_some
        if agree and model_some:
            nacc += 1
            Mq = F(M)
            nrm = lambda l: [Mq if t_ == "inf" else (-Mq if t_ == "-inf" else F(t_)) for t_ in l]
            parts = [nrm(p_.split()) for p_ in " ".join(r[1:]).split("|")]
            exp = [nrm(acc.get("objval", (1, []))[1]), nrm(acc.get("x", (1, []))[1]), nrm(acc.get("pi", (1, []))[1]), nrm(acc.get("slack", (1, []))[1]), nrm(acc.get("rc", (1, []))[1])]
            agree = parts == exp
        ck.count(("corr", tid, repr(cmeta[tid][1]["rows"])), nontrivial=True)
        if not agree:
            # correspondence break: the property-level question is whether the real test accepted a non-certificate
            scr = dict(ccases)[tid]
            ck.violation("corr_opttest_%s.txt" % tid, scr + "\n# model answer: " + " ".join(r) + "\n# C verdict: %s cache %s" % (v, acc),
                         "correspondence OptTest.opt_test vs QSexact_optimal_test broke (variant %s): C verdict %s, model %s" % (cmeta[tid][0], v, r[0]),
                         no_input=not (v == 1 and not model_some), match=dict(kind="corr-opttest"))
    ck.cov["traces_validated_against_impl"] = ncorr
    ck.cov["corr_opttest"] = dict(cases=ncorr, accepted_by_both=nacc, variants=labels, harness_crashes=len(ccr), crash_samples=[(c_, r_, e_[-200:]) for c_, r_, e_ in ccr[:3]])
    # proof obligations
    if not pr["ok"]:
        ck.violation("proof.txt", pr["log"], "proof obligation(s) of Properties_C01.v no longer check: %s" % pr["failed"],
                     no_input=not ck.violations)
    ck.cov["rule"] = ("LP families (random, planted optimum, infeasible/feasible by margin, face-only, degenerate, unbounded, near-parallel, Beale, empty rows/cols) "
                      "x configurations (entry point x pricing x scaling x warm start x iteration limit); a case is non-trivial when the library "
                      "reported OPTIMAL and the certificate was judged by extracted check_kkt; distinct by (LP data, configuration)")
    ck.cov["status_histogram"] = {"%s/%s" % k: v for k, v in sorted(stat_hist.items())}
    ck.cov["optimal_judged"] = nopt
    ck.cov["lib_solution_corr"] = nsign
    ck.cov["driver_traces_replayed"] = dict(n=ntrace, exit_labels=exits, max_level_reached=maxlevel)
    ck.cov["evaluations"] = len(cases)
    ck.assumptions = ["Coq kernel + vm_compute; extraction (ExtrOcamlBasic) and OCaml compiler for the oracle",
                      "h_solve harness and text protocol", "GMP arithmetic = exact rational arithmetic"]
    ck.finish(trusted_base=["coqc 8.16.1 kernel", "OCaml extraction (ExtrOcamlBasic only)", "harness h_solve.c + checks/C01.py"])


main_guard(main)
