#!/usr/bin/env python3
"""C18  Everything allocated is released: create/free cycles do not leak (fault enumeration, partial)."""
import sys, os, re, tempfile, shutil
sys.path.insert(0, os.path.dirname(os.path.abspath(__file__)))
from lib import *
from gen_lp import *
from solve_common import *

LPTXT = "Maximize\n obj: 3 x + 2 y + 4 z\nSubject To\n c1: 3 x + 2 y + z <= 12\n c2: 5 y + 3 z <= 10\n c4: 5 y + 3 z >= -1\n c3: x - y >= -2\nBounds\n x <= 5\n -1 <= y <= 4\n z free\nInteger\n x\nEnd\n"
MPSTXT = ("NAME t\nOBJSENSE\n MAX\nROWS\n N obj\n L c1\n G c2\n E c3\nCOLUMNS\n x obj 1 c1 1\n x c2 1\n y obj 2 c1 1\n y c3 1\n"
          "RHS\n rhs c1 4 c2 1\n rhs c3 2\nRANGES\n rng c1 3\nBOUNDS\n UP bnd x 3\n MI bnd y\nENDATA\n")


from store_common import Gen


def leak_sites(err):
    """allocation sites (first library frame) of every leak record"""
    out = []
    for blk in re.split(r"\n(?=(?:Direct|Indirect) leak of)", err):
        if not blk.startswith(("Direct", "Indirect")):
            continue
        fr = re.findall(r"in (\w+) (?:/\S*/)?qsopt_ex/(\w+\.c):(\d+)", blk)
        # the allocation wrappers are not the site: the first frame above them is
        fr2 = [f for f in fr if f[0] not in ("ILLutil_allocrus", "ILLutil_reallocrus", "ILLutil_reallocrus_scale", "ILLutil_reallocrus_count", "__EGlpNumAllocArray")]
        m = (fr2 or fr or [None])[0]
        kind = blk.split()[0]
        out.append((kind, m[0] if m else "?", m[1] if m else "?"))
    return out


def mkfile(name, txt):
    return "MKFILE %s %s\n" % (name, txt.encode("latin-1", "replace").hex() or "-")


def main():
    ck = Check("C18", "fault_enumeration")
    build_repo()
    tmp = tempfile.mkdtemp(prefix="qsx_c18_", dir="/var/tmp")
    try:
        cases = []
        kinds = {}

        def add(cid, scr, kind):
            cases.append((cid, scr))
            kinds[cid] = kind
        # 1. parse-error positions: truncations and token mutations of small files
        for name, txt, ty in (("a.lp", LPTXT, "LP"), ("a.mps", MPSTXT, "MPS")):
            step = 1 if ck.thorough() else 7
            for cut in range(0, len(txt) + 1, step):
                f = "t%d_%s" % (cut, name)
                add("tr_%s_%d" % (ty, cut), "CASE tr_%s_%d\n%sREADPROB %s %s\nSOLVE EXACT P\nACCESS\n" % (ty, cut, mkfile(f, txt[:cut]), f, ty), "truncation")
            toks = txt.split(" ")
            for k in range(0, len(toks), 1 if ck.thorough() else 3):
                for rep in ("", "@@", "1e", "<=", "free"):
                    t2 = toks[:k] + [rep] + toks[k + 1:]
                    f = "m%d_%s_%s" % (k, len(rep), name)
                    add("mu_%s_%d_%d" % (ty, k, len(rep)), "CASE " + "mu_%s_%d_%d" % (ty, k, len(rep)) + "\n%sREADPROB %s %s\nSOLVE EXACT D\nGETBASIS\n" % (mkfile(f, " ".join(t2)), f, ty), "token-mutation")
                    if not ck.thorough():
                        break
        # 1b. the same files through the line reader + error memory interface (mpq_QSget_prob): every stored error owns two strings
        k_ = 0
        for (cid, scr) in list(cases):
            k_ += 1
            if "READPROB " in scr and (ck.thorough() or k_ % 2 == 0):
                add(cid + "_m", scr.replace("CASE " + cid, "CASE " + cid + "_m").replace("READPROB ", "READPROBM "), kinds[cid] + "+error-memory")
        # 1c. files that parse without error but are rejected (or repaired with warnings) when the raw problem is converted
        SEM = {
            "crossed.lp": "Minimize\n obj: x + z\nSubject To\n c1: x + z >= 1\nBounds\n 10 <= z <= 1\nEnd\n",
            "nocons.lp": "Maximize\n obj: x\nSubject To\nEnd\n",
            "novars.lp": "Minimize\n obj: 0 x\nSubject To\n c1: 0 x >= 1\nEnd\n",
            "onlyobj.mps": "NAME t\nROWS\n N obj\nCOLUMNS\n x obj 1\nENDATA\n",
            "nocols.mps": "NAME t\nROWS\n N obj\n L c1\nCOLUMNS\nRHS\n rhs c1 1\nENDATA\n",
            "crossed.mps": "NAME t\nROWS\n N obj\n L c1\nCOLUMNS\n x obj 1 c1 1\nBOUNDS\n LO bnd x 5\n UP bnd x 1\nENDATA\n",
            "sos_refrow.mps": "NAME t\nROWS\n N obj\n L c1\nCOLUMNS\n x obj 1 c1 1\n y obj 1 c1 2\nRHS\n rhs c1 4\nSOS\n S1 SOS s1 5\n x 1\n y 2\nENDATA\n",
            "sos_badref.mps": "NAME t\nREFROW\n nosuch\nROWS\n N obj\n L c1\nCOLUMNS\n MARKER MARKER SOSORG\n x obj 1 c1 1\n y obj 1 c1 2\n MARKER MARKER SOSEND\nRHS\n rhs c1 4\nENDATA\n",
            "sos_ref.mps": "NAME t\nREFROW\n c1\nROWS\n N obj\n L c1\nCOLUMNS\n S1 SOS1 MARKER SOSORG\n x obj 1 c1 1\n y obj 1 c1 2\n MARKER MARKER SOSEND\nRHS\n rhs c1 4\nENDATA\n",
            "objname_row.mps": "NAME t\nOBJNAME\n c1\nROWS\n N obj\n L c1\n G c2\nCOLUMNS\n x obj 1 c1 1\n x c2 1\nRHS\n rhs c1 4 c2 1\nRANGES\n rng c1 2\nENDATA\n",
            "range_on_n.mps": "NAME t\nROWS\n N obj\n L c1\nCOLUMNS\n x obj 1 c1 1\nRHS\n rhs c1 4\nRANGES\n rng obj 2\nENDATA\n",
            "intmarker.mps": "NAME t\nROWS\n N obj\n L c1\nCOLUMNS\n MARKER MARKER INTORG\n x obj 1 c1 1\n MARKER MARKER INTEND\n y obj 1 c1 1\nRHS\n rhs c1 4\nBOUNDS\n UI bnd x 0\n BV bnd y\nENDATA\n",
            "dup_rows.lp": "Minimize\n obj: x\nSubject To\n c1: x >= 1\n c1: x <= 4\nEnd\n",
            "unknown_in_bounds.lp": "Minimize\n obj: x\nSubject To\n c1: x >= 1\nBounds\n q <= 3\nEnd\n",
        }
        for fn, txt in SEM.items():
            ty = "MPS" if fn.endswith(".mps") else "LP"
            for rd in ("READPROB", "READPROBM"):
                cid = "sem_%s_%s" % (fn.replace(".", "_"), rd[-1])
                add(cid, "CASE %s\n%s%s %s %s\nSOLVE EXACT P\nACCESS\nWRITEPROB o_%s LP\n" % (cid, mkfile(fn, txt), rd, fn, ty, fn), "semantic-reject")
        # 1d. QSexact_verify (with and without the floating point pre-step) on the problem's own and on a given basis
        for vi, pre in enumerate((0, 1, 1, 0)):
            cid = "ver%d" % vi
            add(cid, "CASE %s\n%sREADPROB v.lp LP\nSOLVE EXACT D\nVERIFY %d\nVERIFY %d %s\nSOLVE DUAL\nVERIFY %d\n" % (
                cid, mkfile("v.lp", LPTXT), pre, pre, ("121 0011" if vi % 2 else "011 1101"), 1 - pre), "verify")
        # 2. every non-OPTIMAL outcome of the driver and rejected edits / basis loads
        lps = family_stream(ck.rng, 300 if ck.thorough() else 50)
        for li, lp in enumerate(lps):
            n, m = len(lp["cols"]), len(lp["rows"])
            for ci, cfg in enumerate(configs(ck.rng, lp, 3 if ck.thorough() else 2)):
                cid = "s%d.%d" % (li, ci)
                if ck.rng.random() < 0.3:
                    cfg["maxit"] = ck.rng.randint(1, 4)
                scr = case_script(cid, lp, cfg)
                extra = ["LOADBASIS %s %s" % ("1" * n or "-", "1" * m or "-"), "LOADBASIS %s %s" % ("0" * n or "-", "1" * m or "-"),
                         "KEEPBASIS", "SOLVE EXACT P KEPT", "INFEASARR", "CHG sense 0 Q" if m else "DUMP", "CHG bound 0 X 1" if n else "DUMP",
                         "WRITEPROB /nonexistent_dir/x.lp LP", "WRITEPROB w%s.mps MPS" % cid, "SOLVE DUAL", "SOLVE PRIMAL",
                         "CHG delrow 0" if m else "DUMP", "CHG delcol 0" if n else "DUMP", mkfile("r%s.lp" % cid, LPTXT[:7 * ck.rng.randint(0, 20)]) + "READPROB r%s.lp LP" % cid]
                ck.rng.shuffle(extra)
                add(cid, scr + "\n".join(extra[:6]) + "\nSOLVE EXACT P\nACCESS\n", "driver-outcomes+rejected")
        # 3. long primal phase I: an equality LP with more rows than the eta file holds updates (100), so the basis is
        #    refactored while phase I is still running (work vectors of the phase are re-created on that path)
        for bi, m_ in enumerate((240, 280, 320, 360, 420, 500) if ck.thorough() else (260, 300, 360)):
            n_ = 2 * m_
            x0 = [ck.rng.randint(1, 3) for _ in range(n_)]
            rows_ = []
            for i in range(m_):
                js = sorted(set([i, (i * 7 + 3) % n_, m_ + i % (n_ - m_)] + [ck.rng.randrange(n_) for _ in range(2)]))
                ent = [(j, F(ck.rng.choice([1, 2, 3, -1, -2]))) for j in js]
                rows_.append(("E", sum(v * x0[j] for j, v in ent), F(0), ent))
            big = mk("big%d" % bi, False, [(F(ck.rng.randint(0, 3)), F(0), INF) for _ in range(n_)], rows_)
            for algo in "PD":
                cid = "big%d%s" % (bi, algo)
                add(cid, "CASE %s\n%s\nSOLVE EXACT %s\nACCESS\n" % (cid, lp_block(big), algo), "long-phase1")
        scripts = dict(cases)
        env = {"ASAN_OPTIONS": "detect_leaks=1:exitcode=99:abort_on_error=0", "QSX_SCRATCH": tmp}
        M, outs, crashes = run_cases("h_solve", cases, asan=True, per_case_timeout=120, env=env)
        # 4. edit histories on API-built problems (harness h_store: every handle is freed at the end, then QSexactClear): random
        #    histories of the C05/C06 generator, and histories that delete ALL rows / ALL columns and then add again (the name
        #    tables are re-created on that path), each with solves in between
        hcases = []
        for hi in range(120 if ck.thorough() else 24):
            g = Gen(ck.rng, "h0", tag="k%d_" % hi)
            ops = g.load(ck.rng.randint(1, 5), ck.rng.randint(1, 5)) if hi % 2 else ["CREATE h0 p %s" % ck.rng.choice(["MIN", "MAX"])]
            for t in range(ck.rng.randint(8, 30)):
                ops += g.op()
                if ck.rng.random() < 0.1:
                    ops.append("SOLVE h0 %s" % ck.rng.choice(["PRIMAL", "DUAL"]))
            hcases.append(("hist%d" % hi, "CASE hist%d\nRESET\n" % hi + "\n".join(ops) + "\n"))
            kinds["hist%d" % hi] = "edit-history"
        for di in range(16 if ck.thorough() else 8):
            nr, nc = ck.rng.randint(1, 4), ck.rng.randint(1, 4)
            ops = ["CREATE h0 p MIN"] + ["NEWCOL h0 %d 0 %s -" % (ck.rng.randint(-3, 3), ck.rng.choice(["inf", "5"])) for _ in range(nc)]
            row = lambda k: "ADDROW h0 %d %s - %d%s" % (ck.rng.randint(1, 6), ck.rng.choice("LGE"), k, "".join(" %d %d" % (j, ck.rng.randint(1, 3)) for j in range(k)))
            ops += [row(nc) for _ in range(nr)] + ["SOLVE h0 DUAL"]
            if di % 2 == 0:
                ops += ["DELROWS h0 %d %s" % (nr, " ".join(map(str, range(nr))))] if di % 4 == 0 else ["DELROW h0 0"] * nr
                ops += [row(nc), row(nc), "SOLVE h0 PRIMAL", "Q h0 rownames"]
            else:
                ops += ["DELCOLS h0 %d %s" % (nc, " ".join(map(str, range(nc))))] if di % 4 == 1 else ["DELCOL h0 0"] * nc
                ops += ["NEWCOL h0 1 0 4 -", "ADDCOL h0 2 0 3 - %d%s" % (nr, "".join(" %d 1" % i for i in range(nr))), "SOLVE h0 PRIMAL", "Q h0 colnames"]
            ops += ["DELROW h0 0", "NEWROW h0 1 G -", "SOLVE h0 DUAL"]
            hcases.append(("dall%d" % di, "CASE dall%d\nRESET\n" % di + "\n".join(ops) + "\n"))
            kinds["dall%d" % di] = "delete-all-then-add"
        cases += hcases
        scripts.update(dict(hcases))
        _, houts, hcr = run_cases("h_store", hcases, asan=True, per_case_timeout=120, env=env)
        outs.update({c: 1 for c, _ in hcases})
        crashes = crashes + hcr
        harness_of = {c: "h_store" for c, _ in hcases}
        # leaking cases are grouped by their (truncated) fast stacks; up to `cap` representatives per group are
        # re-run alone with full unwinding so that the allocation site is a library frame
        env2 = {"ASAN_OPTIONS": "detect_leaks=1:exitcode=99:abort_on_error=0:fast_unwind_on_malloc=0", "QSX_SCRATCH": tmp}
        groups = {}
        for cid, rc, err in crashes:
            if "LeakSanitizer" in err or "byte(s) leaked" in err or re.search(r"(?:Direct|Indirect) leak of", err):
                sig = (kinds[cid], tuple(sorted(set(leak_sites(err)))), tuple(sorted(set(re.findall(r"leak of (\d+) byte", err)))))
                groups.setdefault(sig, []).append(cid)
        cap = 3 if ck.thorough() else 1
        reps = [c for g in groups.values() for c in g[:cap]]
        from concurrent.futures import ThreadPoolExecutor
        with ThreadPoolExecutor(max_workers=16) as ex:
            rer = list(ex.map(lambda c: run_harness(harness_of.get(c, "h_solve"), scripts[c], timeout=300, asan=True, env=env2), reps))
        nleak = sum(len(g) for g in groups.values())
        ncrash = sum(1 for cid, rc, err in crashes if not ("LeakSanitizer" in err or "byte(s) leaked" in err or re.search(r"(?:Direct|Indirect) leak of", err)))
        ck.cov["crash_samples"] = [(cid, rc, re.sub(r"\s+", " ", err[:1500])) for cid, rc, err in crashes if not ("LeakSanitizer" in err or "byte(s) leaked" in err or re.search(r"(?:Direct|Indirect) leak of", err))][:4]
        # crashes are C17's subject; their scripts are kept so that they can be replayed / moved to corpus/C17
        for cid, rc, err in crashes:
            if not ("LeakSanitizer" in err or "byte(s) leaked" in err or re.search(r"(?:Direct|Indirect) leak of", err)):
                open(ck.replay_path("crash_%s.txt" % cid), "w").write(scripts[cid] + "\n# " + err[-2500:].replace("\n", "\n# ") + "\n")
        seen_sites = {}
        for cid, (rc2, out2, err2) in zip(reps, rer):
            sites = sorted(set(leak_sites(err2)))
            for kind_, fn, fl in sites:
                if kind_ != "Direct" and any(k2 == "Direct" for k2, _, _ in sites):
                    continue
                seen_sites.setdefault((fn, fl), cid)
        for (fn, fl), cid in sorted(seen_sites.items()):
            ck.violation("leak_%s_%s.txt" % (fn, cid), scripts[cid] + "\n# allocation site %s (%s)\n" % (fn, fl),
                         "memory allocated in %s (%s) is still allocated after every object was freed and the library shut down (case %s, %s)" % (fn, fl, cid, kinds[cid]),
                         match=dict(kind="leak", site=fn))
        ck.cov["leak_sites"] = ["%s (%s)" % k for k in sorted(seen_sites)]
        ck.cov["leak_groups"] = len(groups)
        hist = {}
        for cid in outs:
            ck.count((kinds[cid], scripts[cid][:300]))
            hist[kinds[cid]] = hist.get(kinds[cid], 0) + 1
        ck.sample(dict(case=cases[0][0], script=cases[0][1][:200]))
        ck.sample(dict(case=cases[-1][0], script=cases[-1][1][:400]))
    finally:
        shutil.rmtree(tmp, ignore_errors=True)
    ck.cov["rule"] = ("enumerated early-exit paths: every truncation position (quick: every 7th) and token mutation of a small LP and a small MPS file; LP families x "
                      "configurations with iteration limits (non-OPTIMAL exits of the exact driver at every level), rejected edits, invalid basis loads, unwritable targets, "
                      "deletes, re-reads; an equality LP whose primal phase I outlasts the eta file (refactorization inside phase I); edit histories on API-built problems "
                      "(random, and delete-all-rows / delete-all-columns then add again) with solves in between; each script ends with freeing every object and QSexactClear under LeakSanitizer (GMP on malloc); non-trivial = executed case; "
                      "distinct by (path kind, script)")
    ck.cov["evaluations"] = len(cases)
    ck.cov["path_kinds"] = hist
    ck.cov["cases_with_leak"] = nleak
    ck.cov["cases_crashed_not_judged_here"] = ncrash
    ck.cov["not_covered"] = "leaks inside paths not enumerated; the ownership ledger model of DESIGN 5/C18 is not built: level is fault enumeration only"
    ck.assumptions = ["LeakSanitizer as detector", "harness frees every object it creates"]
    ck.finish()


main_guard(main)
