"""Independent exact reference solver (Fractions, bounded-variable two-phase primal simplex with
Bland's rule) on the internal form  A z = b, l <= z <= u.  It is NOT trusted: every answer comes with
a certificate (optimal: z, y, value; infeasible: Farkas y; unbounded: z0 + ray d) and is accepted only
when the Coq-extracted, proved-sound checker accepts that certificate."""
from fractions import Fraction as F


class ILP:
    def __init__(self, mx, cols, rhs):
        # cols: list of (obj, lo, up, [(row, val)]) with lo/up Fraction or None (=infinite)
        self.mx, self.cols, self.rhs = mx, cols, rhs
        self.n, self.m = len(cols), len(rhs)


def parse_ilp(lines, M=None):
    """lines: token lists of an ILP block (ILP/C/B) as dumped by the harness"""
    h = lines[0]
    mx = h[1] == "1"
    cols = []
    rhs = []
    for t in lines[1:]:
        if t[0] == "C":
            lo = None if t[2] == "-inf" else (None if t[2] == "inf" else F(t[2]))
            up = None if t[3] == "inf" else (None if t[3] == "-inf" else F(t[3]))
            # a lower bound of +inf or upper bound of -inf makes the column infeasible; keep literal via big value is wrong,
            # such LPs are skipped by the caller
            bad = t[2] == "inf" or t[3] == "-inf"
            k = int(t[4])
            ent = [(int(t[5 + 2 * i]), F(t[6 + 2 * i])) for i in range(k)]
            cols.append((F(t[1]), lo, up, ent, bad))
        elif t[0] == "B":
            rhs = [F(x) for x in t[1:]]
    if any(c[4] for c in cols):
        return None
    return ILP(mx, [c[:4] for c in cols], rhs)


def solve_dense(Bm, rhs_list):
    """solve B x = r for several r (Gauss-Jordan with Fractions); returns None if singular"""
    m = len(Bm)
    k = len(rhs_list)
    A = [list(Bm[i]) + [r[i] for r in rhs_list] for i in range(m)]
    for c in range(m):
        p = None
        for r in range(c, m):
            if A[r][c] != 0:
                p = r
                break
        if p is None:
            return None
        A[c], A[p] = A[p], A[c]
        inv = 1 / A[c][c]
        A[c] = [v * inv for v in A[c]]
        for r in range(m):
            if r != c and A[r][c] != 0:
                f = A[r][c]
                A[r] = [a - f * b for a, b in zip(A[r], A[c])]
    return [[A[i][m + j] for i in range(m)] for j in range(k)]


def _simplex(cols, rhs, cost, basis, at, fuel=20000):
    """bounded simplex, minimise cost.  cols: (lo, up, dense column).  basis: list of column ids (len m).
    at: dict nonbasic col -> value.  Returns (status, basis, at, zB, y, ray_info)"""
    m = len(rhs)
    n = len(cols)
    while fuel > 0:
        fuel -= 1
        Bm = [[cols[j][2][i] for j in basis] for i in range(m)]
        # rhs - N z_N
        r = list(rhs)
        for j, v in at.items():
            if v != 0:
                cj = cols[j][2]
                for i in range(m):
                    if cj[i] != 0:
                        r[i] -= cj[i] * v
        sol = solve_dense(Bm, [r])
        if sol is None:
            return ("singular", basis, at, None, None, None)
        zB = sol[0]
        # duals: B^T y = c_B
        BT = [[Bm[i][k] for i in range(m)] for k in range(m)]
        ysol = solve_dense(BT, [[cost[j] for j in basis]])
        y = ysol[0]
        # entering (Bland: lowest index)
        enter, direction = None, 0
        for j in range(n):
            if j in at:
                d = cost[j] - sum(cols[j][2][i] * y[i] for i in range(m) if cols[j][2][i] != 0)
                lo, up = cols[j][0], cols[j][1]
                v = at[j]
                can_inc = up is None or v < up
                can_dec = lo is None or v > lo
                if d < 0 and can_inc:
                    enter, direction = j, 1
                    break
                if d > 0 and can_dec:
                    enter, direction = j, -1
                    break
        if enter is None:
            return ("optimal", basis, at, zB, y, None)
        # direction of basics: zB += -t * direction * B^-1 A_q
        w = solve_dense(Bm, [[cols[enter][2][i] for i in range(m)]])[0]
        cands = []          # (t, variable index, position in basis or -1, value it goes to)
        lo, up = cols[enter][0], cols[enter][1]
        if direction == 1 and up is not None:
            cands.append((up - at[enter], enter, -1, up))
        if direction == -1 and lo is not None:
            cands.append((at[enter] - lo, enter, -1, lo))
        for k in range(m):
            delta = -direction * w[k]          # rate of change of basic k
            if delta == 0:
                continue
            bj = basis[k]
            blo, bup = cols[bj][0], cols[bj][1]
            if delta < 0 and blo is not None:
                t, to = (zB[k] - blo) / (-delta), blo
            elif delta > 0 and bup is not None:
                t, to = (bup - zB[k]) / delta, bup
            else:
                continue
            cands.append((max(t, F(0)), bj, k, to))
        best_t = None
        if cands:
            best_t, _, leave, leave_to = min(cands, key=lambda c: (c[0], c[1]))
        if best_t is None:
            return ("unbounded", basis, at, zB, y, (enter, direction, w))
        if leave == -1:
            at[enter] = leave_to
        else:
            out = basis[leave]
            del at[enter]
            at[out] = leave_to
            basis[leave] = enter
            # value of the entering variable is determined by the system on the next pass
    return ("fuel", basis, at, None, None, None)


def solve(P, fuel=20000):
    """returns ('optimal', z, y, val) | ('infeasible', y) | ('unbounded', z0, d) | ('unknown', why)"""
    m, n = P.m, P.n
    dense = []
    for (o, lo, up, ent) in P.cols:
        c = [F(0)] * m
        for i, v in ent:
            c[i] += v
        if lo is not None and up is not None and lo > up:
            return ("unknown", "empty bound interval")      # handled by caller as trivially infeasible
        dense.append((lo, up, c))
    # nonbasic start values
    at = {}
    for j, (lo, up, c) in enumerate(dense):
        at[j] = lo if lo is not None else (up if up is not None else F(0))
    r = list(P.rhs)
    for j, v in at.items():
        if v != 0:
            for i in range(m):
                r[i] -= dense[j][2][i] * v
    cols1 = list(dense)
    for i in range(m):
        c = [F(0)] * m
        c[i] = F(1) if r[i] >= 0 else F(-1)
        cols1.append((F(0), None, c))
    basis = [n + i for i in range(m)]
    cost1 = [F(0)] * n + [F(1)] * m
    st, basis, at, zB, y, ray = _simplex(cols1, P.rhs, cost1, basis, at, fuel)
    if st != "optimal":
        return ("unknown", "phase1 " + st)
    w = sum((zB[k] for k in range(m) if basis[k] >= n), F(0)) + sum((v for j, v in at.items() if j >= n), F(0))
    if w > 0:
        return ("infeasible", y)
    # drive artificials out of the basis / fix them at zero: give them bounds [0,0]
    cols2 = list(dense) + [(F(0), F(0), cols1[n + i][2]) for i in range(m)]
    for j in list(at):
        if j >= n:
            at[j] = F(0)
    sgn = -1 if P.mx else 1
    cost2 = [sgn * c[0] for c in P.cols] + [F(0)] * m
    st, basis, at, zB, y, ray = _simplex(cols2, P.rhs, cost2, basis, at, fuel)
    z = [F(0)] * n
    if zB is not None:
        for k in range(m):
            if basis[k] < n:
                z[basis[k]] = zB[k]
        for j, v in at.items():
            if j < n:
                z[j] = v
    if st == "optimal":
        yy = [sgn * v for v in y]
        val = sum((P.cols[j][0] * z[j] for j in range(n)), F(0))
        return ("optimal", z, yy, val)
    if st == "unbounded":
        enter, direction, wv = ray
        if enter >= n:
            return ("unknown", "ray on artificial")
        d = [F(0)] * n
        d[enter] = F(direction)
        for k in range(m):
            if basis[k] < n:
                d[basis[k]] = -direction * wv[k]
            elif wv[k] != 0:
                return ("unknown", "ray moves artificial")
        return ("unbounded", z, d)
    return ("unknown", "phase2 " + st)


def qstr(x):
    x = F(x)
    return str(x.numerator) if x.denominator == 1 else "%d/%d" % (x.numerator, x.denominator)
