#!/usr/bin/env python3
"""C20  With a log handler installed the library writes nothing to stdout or stderr."""
import sys, os, re, json, tempfile, shutil
sys.path.insert(0, os.path.dirname(os.path.abspath(__file__)))
from lib import *
from gen_lp import *
from solve_common import *

BAD_FILES = {
    "empty.lp": "",
    "garbage.lp": "this is not an lp file\n\x01\x02 ::: <= >=\n",
    "trunc.lp": "Minimize\n obj: x + 2 y\nSubject To\n c1: x + y >= \n",
    "dupcol.mps": "NAME t\nROWS\n N obj\n L c1\nCOLUMNS\n x obj 1 c1 1\n x c1 2\nRHS\n rhs c1 4\nENDATA\n",
    "badnum.lp": "Maximize\n obj: 3 x + 2 y\nSubject To\n c1: x + y <= 1e\nEnd\n",
    "ok.lp": "Maximize\n obj: 3 x + 2 y\nSubject To\n c1: x + y <= 4\n c2: x <= 3\nEnd\n",
    "nosect.mps": "ROWS\n N obj\nENDATA\n",
}


def offending_static():
    """the same rule as Log/LogModel.v evaluated on out/sites.json, for the report only"""
    try:
        sites = json.load(open(os.path.join(VERIF, "out", "sites.json")))       # written there by tools/gen_sites.py
        src = open(os.path.join(COQ, "Log", "LogModel.v")).read()
        ex = set(re.findall(r'\("([^"]+)",\s*"([^"]+)",\s*\w+\)', src))
        return [s for s in sites if not s["stream"].startswith("handle:") and not s["noreturn"] and (s.get("base", s["func"]), s["callee"]) not in ex]
    except Exception as e:
        return [dict(error=str(e))]


def mkfile(name, txt):
    return "MKFILE %s %s\n" % (name, txt.encode("latin-1", "replace").hex() or "-")


def main():
    ck = Check("C20", "proof")
    b = build_repo()
    pr = ck.proofs()
    tmp = tempfile.mkdtemp(prefix="qsx_c20_", dir="/var/tmp")
    try:
        lps = family_stream(ck.rng, 120 if ck.thorough() else 30)
        cases = []
        meta = {}
        for li, lp in enumerate(lps):
            for ci, cfg in enumerate(configs(ck.rng, lp, 4 if ck.thorough() else 2)):
                cid = "s%d.%d" % (li, ci)
                disp = ck.rng.choice([0, 1, 1])
                scr = case_script(cid, lp, cfg).replace("\nSOLVE", "\nPARAM 4 %d\nSOLVE" % disp, 1)
                n, m = len(lp["cols"]), len(lp["rows"])
                extra = ["INFEASARR", "INFEASARR NULL", "CHG coef %d 0 1" % (m + 3), "CHG bound %d U 1" % (n + 5), "CHG sense 0 Q",
                         "LOADBASIS %s %s" % ("1" * n or "-", "1" * m or "-"), "WRITEPROB /nonexistent_dir/x.lp LP",
                         "WRITEPROB w_%s.lp LP" % cid, "WRITEPROB w_%s.mps MPS" % cid,
                         "GETBASIS", "ACCESS", "BOPT %s %s" % ("0" * n or "-", "1" * m or "-")]
                ck.rng.shuffle(extra)
                scr += "\n".join(extra[:5]) + "\n"
                cases.append((cid, scr))
                meta[cid] = "solve+errors"
        # a second library session in the same process (QSexactClear / QSexactStart): the host registered its handler once,
        # at start-up, and it must still be the one that receives everything
        for li, lp in enumerate(lps[:10 if ck.thorough() else 4]):
            cfg = configs(ck.rng, lp, 1)[0]
            cid = "r%d" % li
            n, m = len(lp["cols"]), len(lp["rows"])
            scr = case_script(cid, lp, cfg).replace("\nSOLVE", "\nPARAM 4 1\nSOLVE", 1)
            body = scr.split("\n", 1)[1]
            scr = ("CASE %s\nRESTART\n" % cid) + body + "CHG coef %d 0 1\nCHG sense 0 Q\nREADPROB missing_%s LP\nWRITEPROB /nonexistent_dir/x.lp LP\nRESTART\n" % (m + 3, cid) + body
            cases.append((cid, scr))
            meta[cid] = "second-session"
        for n in BAD_FILES:
            for ty in ("LP", "MPS"):
                cid = "f_%s_%s" % (n, ty)
                cases.append((cid, "CASE %s\n%sREADPROB in_%s %s\nREADPROB missing_%s %s\n" % (cid, mkfile("in_" + cid, BAD_FILES[n]), cid, ty, cid, ty)))
                meta[cid] = "files"
        # run in a few chunks, each with its own capture prefix
        nchunks = 8
        results = []
        from concurrent.futures import ThreadPoolExecutor

        def run_chunk(k):
            ch = cases[k::nchunks]
            pre = os.path.join(tmp, "cap%d" % k)
            rc, out, err = run_harness("h_solve", "".join(s for _, s in ch) + "CASE end\n", timeout=1200, env={"QSX_CAPTURE": pre, "QSX_SCRATCH": tmp})
            c1 = open(pre + ".1", "rb").read() if os.path.exists(pre + ".1") else b""
            c2 = open(pre + ".2", "rb").read() if os.path.exists(pre + ".2") else b""
            return ch, rc, out, c1, c2
        with ThreadPoolExecutor(max_workers=nchunks) as ex:
            results = list(ex.map(run_chunk, range(nchunks)))
        total_bytes = 0
        ncases = 0
        for ch, rc, out, c1, c2 in results:
            # CAP a b lines precede each CASE marker: bytes written during the previous case
            caps, order = [], []
            for line in out.splitlines():
                t = line.split()
                if t and t[0] == "CAP":
                    caps.append((int(t[1]), int(t[2])))
                elif t and t[0] == "CASE":
                    order.append(t[1])
            scripts = dict(ch)
            for idx, cid in enumerate(order):
                if cid == "end" or idx + 1 >= len(caps):
                    continue
                a0, b0 = caps[idx]
                a1, b1 = caps[idx + 1]
                ncases += 1
                ck.count((cid, scripts.get(cid, "")[:200]))
                if a1 > a0 or b1 > b0:
                    total_bytes += (a1 - a0) + (b1 - b0)
                    txt1 = c1[a0:a1].decode(errors="replace")
                    txt2 = c2[b0:b1].decode(errors="replace")
                    first = (txt2 or txt1).strip().splitlines()[0][:120] if (txt2 or txt1).strip() else ""
                    kind = "perror-open" if "No such file or directory" in first or "Permission denied" in first else \
                           "ill-error" if ("NULL pi vector" in first or "pricing info not available" in first or "problem with matrix" in first or "called with a NULL pointer" in first) else \
                           "sanitizer" if "Sanitizer" in txt2 or "runtime error" in txt2 else "other"
                    ck.violation("std_%s.txt" % cid, scripts.get(cid, "") + "\n# fd1: %r\n# fd2: %r\n" % (txt1[:500], txt2[:500]),
                                 "bytes on the standard streams with a log handler installed (case %s): fd1=%d fd2=%d: %r" % (cid, a1 - a0, b1 - b0, first),
                                 match=dict(kind=kind))
                elif len(ck.cov["samples"]) < 4:
                    ck.sample(dict(case=cid, kind=meta.get(cid), script_head=scripts.get(cid, "")[:160]))
            if rc != 0:
                ck.cov.setdefault("harness_nonzero_exit", []).append(rc)
    finally:
        shutil.rmtree(tmp, ignore_errors=True)
    if not pr["ok"]:
        off = offending_static()
        ck.violation("proof.txt", "theorem C20_no_site_can_write_std (Log/LogModel.v over the regenerated Gen/Sites.v) no longer checks.\nsites that may write to a standard stream:\n"
                     + "\n".join(json.dumps(o) for o in off) + "\n\n" + pr["log"][-1500:],
                     "static output-site theorem broken: %d site(s) may write to stdout/stderr: %s" % (len(off), [(o.get("func"), o.get("callee"), o.get("file"), o.get("line")) for o in off][:8]),
                     no_input=not ck.violations, match=dict(kind="static-sites"))
    ck.cov["rule"] = ("solve scripts over LP families x configurations with display on/off followed by rejected edits, accessor calls without solution, "
                      "NULL arguments, unwritable targets, plus reads of missing / malformed LP and MPS files, plus the same after QSexactClear / QSexactStart in the same process (handler registered once); all with a log handler installed and fd 1 / fd 2 "
                      "redirected to files; bytes are attributed to cases through size probes; non-trivial = one executed case; any byte is a violation")
    ck.cov["evaluations"] = ncases
    ck.cov["bytes_on_std_streams"] = total_bytes
    try:
        ck.cov["static_sites"] = len(json.load(open(os.path.join(VERIF, "out", "sites.json"))))
    except Exception:
        pass
    ck.assumptions = ["translator tools/gen_sites.py (gcc -E + token scan) lists every stdio output call and every mention of stdout/stderr in the compiled library",
                      "exemption list in Log/LogModel.v (one reason per line)", "dynamic capture validates the translator"]
    ck.finish(trusted_base=["coqc 8.16.1 kernel (vm_compute over the finite site list)", "tools/gen_sites.py", "harness capture in harness/common.h"])


main_guard(main)
