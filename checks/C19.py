#!/usr/bin/env python3
"""C19  The esolver program reports exactly what the library computed."""
import sys, os, gzip, bz2, subprocess, shutil
sys.path.insert(0, os.path.dirname(os.path.abspath(__file__)))
from io_common import *
import io_gen as G
import ref_simplex as RS
from concurrent.futures import ThreadPoolExecutor, ProcessPoolExecutor

TRUTH_NAME = {"optimal": "OPTIMAL", "infeasible": "INFEASIBLE", "unbounded": "UNBOUNDED"}


def ref_job(args):
    key, ilp_lines = args
    P = RS.parse_ilp(ilp_lines)
    if P is None:
        return key, ("unknown", "sentinel on the wrong side")
    try:
        return key, RS.solve(P)
    except Exception as e:
        return key, ("unknown", "exception %s" % e)


def read_sol(path):
    if not os.path.exists(path):
        return None
    raw = open(path, "rb").read()
    try:
        if path.endswith(".gz"):
            raw = gzip.decompress(raw)
        elif path.endswith(".bz2"):
            raw = bz2.decompress(raw)
    except Exception:
        return None
    return raw.decode("latin-1")


def run_esolver(exe, args, cwd):
    try:
        r = subprocess.run([exe] + args, cwd=cwd, stdout=subprocess.PIPE, stderr=subprocess.PIPE, timeout=120)
        return r.returncode, r.stderr.decode("latin-1", "replace")[-400:]
    except subprocess.TimeoutExpired:
        return "timeout", ""


def part_option_model(ck, exe, d, files, lib, truth, M):
    """tie of IO/Esolver.v (option parsing, format choice by -L / extension, first line of the solution file, basis file, exit code)
    to the real program: the same text offered under many file names x argument lists; the extracted model is given what the
    library does with each file name in each format (measured through the harness) and the certified status of the LP"""
    rng = ck.rng
    STAT = {"optimal": 1, "infeasible": 2, "unbounded": 3}
    od = os.path.join(d, "opt")
    os.makedirs(os.path.join(od, "d.lp"), exist_ok=True)
    bases = []
    seen = set()
    for want in ("LP", "MPS"):
        for k, (fn, fmt, needL) in enumerate(files):
            if fmt == want and k in lib and k in truth and not fn.endswith((".gz", ".bz2")) and fn != "big.lp" and (want, truth[k][0]) not in seen:
                seen.add((want, truth[k][0]))
                bases.append(k)
    named = []          # (name, base k, content format)
    for bi, k in enumerate(bases):
        raw = open(os.path.join(d, files[k][0]), "rb").read()
        fmt = files[k][1]
        if fmt == "LP":
            names = ["n%d.lp", "n%d.LP", "n%d.Lp", "n%d.b.lp", "n%d.lp.x", "n%d.txt", "n%d", "n%d..lp", "n%d.lp.", "n%d.mps", "d.lp/n%d", "n %d.lp",
                     "n%d.lp.gz", "n%d.lp.bz2", "n%d.gz", "n%d.lp.GZ", "a." * 100 + "d%d/" + "a." * 40 + "lp", "n%d.lp.gz.gz"]
        else:
            names = ["m%d.mps", "m%d.txt", "m%d.lp", "m%d.MPS.gz", "m%d"]
        if bi > 1 and not ck.thorough():
            names = names[:4]
        for nm in names:
            nm = nm % bi
            data = raw
            if nm.endswith(".gz.gz"):
                data = gzip.compress(gzip.compress(raw))
            elif nm.endswith(".gz"):
                data = gzip.compress(raw)
            elif nm.endswith(".bz2"):
                data = bz2.compress(raw)
            os.makedirs(os.path.dirname(os.path.join(od, nm)), exist_ok=True)
            open(os.path.join(od, nm), "wb").write(data)
            named.append((nm, k, fmt))
    open(os.path.join(od, "lp"), "wb").write(open(os.path.join(d, files[bases[0]][0]), "rb").read() if bases else b"")
    if bases:
        named.append(("lp", bases[0], files[bases[0]][1]))
    # what mpq_QSread_prob does with each name in each format
    sc = []
    for i, (nm, k, fmt) in enumerate(named):
        pn = nm
        if " " in nm:       # the harness splits its script at blanks: probe a copy under a name without the blank (same content, same suffix)
            pn = nm.replace(" ", "_")
            shutil.copyfile(os.path.join(od, nm), os.path.join(od, pn))
        sc.append("CASE o%d\nREADP h0 %s LP\nREADP h1 %s MPS\n" % (i, pn, pn))
    rc, out, err = run_io("".join(sc), scratch=od, timeout=600)
    Mx, cs = split_cases(out)
    reads = {}
    for i, (nm, k, fmt) in enumerate(named):
        rp = [o[0] for o in split_ops(cs.get("o%d" % i, [])) if o[0][0] == "READP"]
        if len(rp) == 2:
            reads[nm] = (rp[0][1] == "OK", rp[1][1] == "OK")
    POOL = [[], ["-L"], ["-O", "@S"], ["-L", "-O", "@S"], ["-O@S"], ["-SL", "-O", "@S"], ["-S", "-p", "2", "-O", "@S"], ["-p4", "-O", "@S"], ["-d", "9", "-O", "@S"],
            ["-p", "9", "-O", "@S"], ["-d", "1"], ["-p", "x"], ["-b", "@B"], ["-b", "@B", "-O", "@S"], ["-L", "-b@B", "-O@S"], ["-E"], ["-I"], ["-h"], ["-x"], ["--"], ["-"],
            ["-v"], ["-O"], ["-B", "nosuch.bas", "-O", "@S"], ["-LSv", "-O", "@S"], ["-P", "64", "-O", "@S"], ["-d7", "-p3", "-O", "@S"], ["-:"], ["-Lx"], ["-O", "@S", "-O", "@T"]]
    runs = []
    for i, (nm, k, fmt) in enumerate(named):
        if nm not in reads:
            continue
        pick = [POOL[0], POOL[2], POOL[3]] + rng.sample(POOL, 4 if not ck.thorough() else 12)
        for j, o in enumerate(pick):
            a = [x.replace("@S", "s%d_%d.sol" % (i, j)).replace("@T", "t%d_%d.sol" % (i, j)).replace("@B", "b%d_%d.bas" % (i, j)) for x in o]
            shape = rng.choice(["opts-file"] * 8 + ["file-opts", "two-files", "no-file", "dashdash"])
            if shape == "opts-file":
                av = a + [nm]
            elif shape == "file-opts":
                av = [nm] + a
            elif shape == "two-files":
                av = a + [nm, nm]
            elif shape == "dashdash":
                av = a + ["--", nm]
            else:
                av = a
            # every run works on a private copy of its problem file (directory r<i>/ without a dot, so the tokens get_ftype sees are the
            # same): `esolver -O f f` and `esolver f -O` followed by f make esolver write its solution file OVER f, which must not
            # change what the other (concurrent) runs read
            rdir = "r%d" % len(runs)
            os.makedirs(os.path.dirname(os.path.join(od, rdir, nm)), exist_ok=True)
            shutil.copyfile(os.path.join(od, nm), os.path.join(od, rdir, nm))
            av = [(rdir + "/" + x) if x == nm else x for x in av]
            runs.append(dict(nm=nm, k=k, av=av))
    for av in ([], ["-v"], ["."], [".."], [""], [" x.lp"], ["-L", "."], ["-O", "z.sol", "...."]):
        runs.append(dict(nm=None, k=None, av=av))
    with ThreadPoolExecutor(max_workers=12) as ex:
        res = list(ex.map(lambda r: run_esolver(exe, r["av"], od), runs))
    q = ["M " + M]
    for i, r in enumerate(runs):
        rl, rm = reads.get(r["nm"], (False, False)) if r["nm"] else (False, False)
        st = STAT[truth[r["k"]][0]] if r["k"] is not None else 1
        q.append("Q e%d esolver %d %d 1 0 %d 0 0 %s" % (i, 1 if rl else 0, 1 if rm else 0, st, " ".join(enc(a) for a in r["av"])))
    ans = run_model_par("drv_io", q)
    hist, bad, nfault = {}, [], 0
    for i, (r, (rc_, er)) in enumerate(zip(runs, res)):
        a = ans.get("e%d" % i)
        cmd = "esolver " + " ".join(repr(x) if (" " in x or x == "") else x for x in r["av"])
        ck.count(("opt", tuple(r["av"])))
        if a is None:
            bad.append((cmd, "model gave no answer", rc_))
            continue
        hist[a[0]] = hist.get(a[0], 0) + 1
        crashed = rc_ == "timeout" or (isinstance(rc_, int) and rc_ < 0)
        if a[0] == "FAULT":
            nfault += 1
            if crashed:
                ck.violation("ftype_%d.txt" % i, "# command (cwd holds no special file): %s\n# exit: %s\n" % (cmd, rc_),
                             "%s ends with signal %s: get_ftype reads argv[-1] for a file name without any token (IO/Esolver.get_ftype = FFault)" % (cmd, rc_),
                             match=dict(kind="esolver-ftype-no-token"))
            elif rc_ == 0:
                bad.append((cmd, a, rc_))
            continue
        if crashed:
            bad.append((cmd, a, rc_))
            continue
        if a[0] == "USAGE":
            ok = rc_ == 1
        elif a[0] == "VERSION":
            ok = rc_ == 0
        else:
            _, ft, ex_, line, bas, sol, wb = a
            want_rc = int(ex_)
            ok = (rc_ == want_rc) if "nosuch.bas" not in r["av"] else ((rc_ == 0) == (want_rc == 0))
            if sol != "-" and r["nm"] and dec(sol).endswith("/" + r["nm"]) and line == "-":
                # `-O f f`: the solution file IS the problem file, and no solution is written (the run fails): the file must still
                # hold the problem, byte for byte
                ok = ok and open(os.path.join(od, dec(sol)), "rb").read() == open(os.path.join(od, r["nm"]), "rb").read()
            elif sol != "-":
                text = read_sol(os.path.join(od, dec(sol)))
                got = text.split("\n")[0] if text else None
                ok = ok and (got == (dec(line) if line != "-" else None))
            if wb != "-":
                ok = ok and (os.path.exists(os.path.join(od, dec(wb))) and os.path.getsize(os.path.join(od, dec(wb))) > 0) == (bas == "1")
        if not ok:
            bad.append((cmd, a, rc_))
    ck.cov["option_model_correspondence"] = dict(runs=len(runs), file_names=len(named), model_outcomes=hist, no_token_names=nfault, disagreements=len(bad),
                                                 note="exit code, first line of the solution file (or its absence), existence of the -b basis file compared with "
                                                      "the extracted IO/Esolver.esolver given what mpq_QSread_prob does with the file name in each format and the certified status")
    for (cmd, a, rc_) in bad[:3]:
        ck.violation("optmodel.txt", "# command: %s\n# real exit: %s\n# model: %s\n" % (cmd, rc_, a),
                     "esolver and its model IO/Esolver.v disagree on %s: real exit %s, model %s" % (cmd, rc_, a), no_input=True, match=dict(kind="corr-esolver"))
    return len(runs)


def main():
    ck = Check("C19", "exploration")
    b = build_repo()
    pr = ck.proofs()
    rng = ck.rng
    exe = os.path.join(b, "esolver")
    d = new_scratch("C19")
    nprob = 300 if ck.thorough() else 22
    # ---- files: written by the library (plain / .gz / .bz2) and rendered independently
    script, files = ["CASE prep"], []
    probs = {}
    for i in range(nprob):
        if i % 3 == 2:
            K = G.gen_known(rng, "LP", big=False)
            K = dict(K, cols=[c[:4] + (False,) for c in K["cols"]])
            if i % 2 == 0:
                t, fl = G.render_lp(rng, K)
                fn = "r%d.lp" % i
            else:
                K, spec = G.gen_known_mps(rng, big=False)
                K = dict(K, cols=[c[:4] + (False,) for c in K["cols"]])
                spec["int_via"] = {}
                t, fl = G.render_mps(rng, K, spec)
                fn = "r%d.mps" % i
            if fl.get("int_kw") == "INT" or re.search(r"[A-Za-z0-9_!\"#$%&(),;.?@`'{}|~/]\\", t):
                t = None            # would only re-hit the reader findings of C10
            if t is not None:
                open(os.path.join(d, fn), "w", encoding="latin-1").write(t)
                files.append((fn, "LP" if fn.endswith(".lp") else "MPS", False))
            continue
        P = G.feasible_problem(rng, name="e%d" % i) if i % 4 != 1 else G.small_problem(rng, name="e%d" % i)
        probs[i] = P
        script.append(load_block(0, P))
        ext = ["", ".gz", ".bz2"][i % 3] if i % 2 else ""
        for fmt, e in (("LP", "lp"), ("MPS", "mps")):
            fn = "p%d.%s%s" % (i, e, ext)
            script.append("WRITE h0 %s %s" % (fn, fmt))
            files.append((fn, fmt, False))
        if i % 5 == 0:      # LP text under a name without extension: needs -L
            script.append("WRITE h0 q%d.txt LP" % i)
            files.append(("q%d.txt" % i, "LP", True))
    # one problem whose optimal value needs more than 4095 characters (solution lines are not bounded by the library's I/O buffer)
    pnum = rng.randrange(10 ** 2099, 10 ** 2100) | 1
    pden = rng.randrange(10 ** 2099, 10 ** 2100) | 1
    open(os.path.join(d, "big.lp"), "w").write("max\n obj: %d/%d x\nst\n c1: x <= 1\nend\n" % (pnum, pden))
    files.append(("big.lp", "LP", False))
    rc, out, err = run_io("\n".join(script) + "\n", scratch=d)
    if rc != 0:
        raise Fail("preparing files failed: rc=%s %s %s" % (rc, out[-300:], err[-300:]))
    # ---- what the library itself computes on each file (through the harness): internal form, solution, printed solution
    script = []
    for k, (fn, fmt, needL) in enumerate(files):
        script.append("CASE f%d\nREADP h0 %s %s\nDUMPILP h0\nDUMPO h0\nSOLVE h0\nSOLUTION h0\nPRINTSOL h0 hs%d.sol\nCAT hs%d.sol\n" % (k, fn, fmt, k, k))
    rc, out, err = run_io("".join(script), scratch=d, timeout=1200)
    M, cs = split_cases(out)
    lib = {}
    for k, (fn, fmt, needL) in enumerate(files):
        ops = split_ops(cs.get("f%d" % k, []))
        dd = {}
        for o in ops:
            dd.setdefault(o[0][0], o)
        if "READP" not in dd or dd["READP"][0][1] != "OK" or "ILP" not in dd:
            continue
        ilp = [dd["ILP"][0]] + [t for t in dd["ILP"][1] if t[0] in ("C", "B")]
        P = dump_of(dd["P"])
        sol = dd.get("SOLUTION")
        arr = {t[0]: t for t in (sol[1] if sol else [])}
        lib[k] = dict(ilp=ilp, P=P, solve=dd["SOLVE"][0], sol=sol[0] if sol else None, arr=arr, printed=cat_bytes(dd.get("CAT")))
    # ---- correspondence: Sol.print_section vs QSexact_print_sol on the library's own values
    q = ["M " + M]
    for k, L in lib.items():
        if L["sol"] and L["sol"][2] == "1" and all(L["arr"].get(s, ["", "1"])[1] == "0" for s in ("SX", "SRC", "SPI", "SSLACK")):
            cn = [c[0] for c in L["P"]["cols"]]
            rn = [r[0] for r in L["P"]["rows"]]
            for sec, names in (("SX", cn), ("SRC", cn), ("SPI", rn), ("SSLACK", rn)):
                vals = L["arr"][sec][2:]
                q.append("Q c%d.%s section %s" % (k, sec, " ".join("%s %s" % (enc(n), v) for n, v in zip(names, vals))))
    ans = run_model_par("drv_io", q)
    ncorr = 0
    for k, L in lib.items():
        if "c%d.SX" % k not in ans:
            continue
        ncorr += 1
        text = "status OPTIMAL\n\tValue = %s\n" % L["sol"][3]
        for sec, title in (("SX", "VARS"), ("SRC", "REDUCED COST"), ("SPI", "PI"), ("SSLACK", "SLACK")):
            a = ans["c%d.%s" % (k, sec)]
            text += title + ":\n" + "".join(dec(x) + "\n" for x in a if x != "EMPTY")
        if L["printed"] is None or L["printed"].decode("latin-1") != text:
            longline = any(len(x) > 4094 for x in text.split("\n"))
            ck.violation("printsol_%d.txt" % k, "file %s\n# model:\n%s\n# QSexact_print_sol:\n%s\n" % (files[k][0], text[:3000], (L["printed"] or b"").decode("latin-1")[:3000]),
                         "QSexact_print_sol output differs from Sol.print_section on %s" % files[k][0], no_input=not longline, match=dict(kind="line-truncated" if longline else "corr-sol"))
    # ---- ground truth per file: reference simplex + verified certificate check
    with ProcessPoolExecutor(max_workers=16) as ex:
        refs = dict(ex.map(ref_job, [(k, L["ilp"]) for k, L in lib.items()], chunksize=4))
    q = ["M " + M]
    for k, r in refs.items():
        it = "\n".join(" ".join(t) for t in lib[k]["ilp"])
        if r[0] == "optimal":
            q.append("Q t%d kkt inf\n%s\nZ %s\nY %s\nV %s" % (k, it, " ".join(map(RS.qstr, r[1])), " ".join(map(RS.qstr, r[2])), RS.qstr(r[3])))
        elif r[0] == "infeasible":
            q.append("Q t%d farkas inf\n%s\nY %s" % (k, it, " ".join(map(RS.qstr, r[1]))))
        elif r[0] == "unbounded":
            q.append("Q t%d ray inf\n%s\nZ %s\nD %s" % (k, it, " ".join(map(RS.qstr, r[1])), " ".join(map(RS.qstr, r[2]))))
    tans = run_model("drv_solve", "\n".join(q) + "\n")
    truth = {k: (r[0], r[3] if r[0] == "optimal" else None) for k, r in refs.items() if r[0] in TRUTH_NAME and tans.get("t%d" % k) == ["true"]}
    # ---- the option / format / exit-code model against the real program
    part_option_model(ck, exe, d, files, lib, truth, M)
    # ---- run the binary over files x options
    runs = []
    OPTS = [[], ["-p", "1"], ["-p", "2"], ["-p", "3"], ["-p", "4"], ["-d", "6"], ["-d", "7"], ["-d", "9"], ["-d", "8"], ["-S"], ["-P", "64"], ["-P", "256"], ["-S", "-d", "7", "-P", "192"]]
    for k, (fn, fmt, needL) in enumerate(files):
        if k not in lib:
            continue
        pick = [OPTS[0]] + rng.sample(OPTS[1:], 3 if not ck.thorough() else 6)
        for j, o in enumerate(pick):
            solx = ["", ".gz", ".bz2"][(k + j) % 3]
            sol = "s%d_%d.sol%s" % (k, j, solx)
            args = (["-L"] if needL else []) + o + ["-O", sol]
            wb = (j == 0)
            if wb:
                args += ["-b", "b%d.bas" % k]
            runs.append(dict(k=k, j=j, args=args + [fn], sol=sol, wb=wb, bas="b%d.bas" % k))
    with ThreadPoolExecutor(max_workers=12) as ex:
        res = list(ex.map(lambda r: run_esolver(exe, r["args"], d), runs))
    # second pass: -B with the basis written by the first run of each file
    runs2 = []
    for r, (rc_, er) in zip(runs, res):
        if r["wb"] and os.path.exists(os.path.join(d, r["bas"])) and os.path.getsize(os.path.join(d, r["bas"])) > 0:
            fn, fmt, needL = files[r["k"]]
            runs2.append(dict(k=r["k"], j=99, args=(["-L"] if needL else []) + ["-B", r["bas"], "-O", "s%d_B.sol" % r["k"], fn], sol="s%d_B.sol" % r["k"], wb=False, bas=r["bas"]))
    with ThreadPoolExecutor(max_workers=12) as ex:
        res2 = list(ex.map(lambda r: run_esolver(exe, r["args"], d), runs2))
    # ---- judge
    pq, pending = [], []
    stat_hist = {}
    for r, (rc_, er) in list(zip(runs, res)) + list(zip(runs2, res2)):
        k = r["k"]
        fn = files[k][0]
        cmd = "esolver " + " ".join(r["args"])
        rid = "%d_%d" % (k, r["j"])
        ck.count((fn, tuple(r["args"])))
        p4 = "-p 4" in " ".join(r["args"])
        if rc_ == "timeout" or (isinstance(rc_, int) and rc_ < 0):
            ck.violation("signal_%s.txt" % rid, "# file %s:\n%s\n# command: %s\n%s\n" % (fn, read_sol(os.path.join(d, fn)), cmd, er),
                         "%s ended with %s on a readable file" % (cmd, "a timeout (120 s)" if rc_ == "timeout" else "signal %d" % -rc_),
                         match=dict(kind="solver-pmultpartial" if p4 else "esolver-crash"))
            continue
        text = read_sol(os.path.join(d, r["sol"]))
        t = truth.get(k)
        first = text.split("\n")[0] if text else None
        stat_hist[first] = stat_hist.get(first, 0) + 1
        replay = "# file %s:\n%s\n# command: %s\n# exit %s\n# solution file:\n%s\n" % (fn, read_sol(os.path.join(d, fn)) if True else "", cmd, rc_, text)
        if t is not None and first != "status = " + TRUTH_NAME[t[0]]:
            ck.violation("status_%s.txt" % rid, replay, "%s: solution file says %r, the LP is %s%s" % (cmd, first, TRUTH_NAME[t[0]], "" if t[1] is None else " with value %s" % t[1]),
                         match=dict(kind="solver-pmultpartial" if p4 else "status"))
            continue
        if rc_ != 0:
            nonopt = t is not None and t[0] != "optimal"
            ck.violation("exit_%s.txt" % rid, replay, "%s exits %d on a readable %s file although the solution file is correct (%s)" % (cmd, rc_, files[k][1], first),
                         match=dict(kind="esolver-b-nonoptimal" if (r["wb"] and nonopt) else "exit-status"))
            continue
        if t is not None and t[0] == "optimal":
            pending.append((r, rid, text, t, replay, cmd))
            lines = text.split("\n")
            for li, l in enumerate(lines):
                if " = " in l and li >= 3:
                    pq.append("Q %s.%d parseline 0 %s" % (rid, li, enc(l)))
    pans = run_model_par("drv_io", pq) if pq else {}
    kq = ["M " + M]
    chk = {}
    for (r, rid, text, t, replay, cmd) in pending:
        k = r["k"]
        L = lib[k]
        cn = [c[0] for c in L["P"]["cols"]]
        rn = [x[0] for x in L["P"]["rows"]]
        lines = text.split("\n")
        bad = None
        if len(lines) < 3 or lines[1] != "status OPTIMAL" or not lines[2].startswith("\tValue = "):
            bad = "malformed header %r" % lines[:3]
        sec, vals = None, {"VARS:": {}, "REDUCED COST:": {}, "PI:": {}, "SLACK:": {}}
        order = []
        for li, l in enumerate(lines[3:], 3):
            if bad:
                break
            if l in vals:
                sec = l
                order.append(l)
            elif l == "":
                continue
            else:
                a = pans.get("%s.%d" % (rid, li))
                if sec is None or a is None or a[0] == "NONE":
                    bad = "line %d %r is not 'name = number' (extracted Sol.parse_line)" % (li + 1, l)
                    break
                nm, v = dec(a[0]), F(a[1])
                names = cn if sec in ("VARS:", "REDUCED COST:") else rn
                if nm not in names or nm in vals[sec] or v == 0:
                    bad = "section %s lists %r = %s (unknown name, repeated name or zero value)" % (sec, nm, v)
                    break
                vals[sec][nm] = v
        if not bad and order != ["VARS:", "REDUCED COST:", "PI:", "SLACK:"]:
            bad = "sections %s" % order
        if bad:
            longline = any(len(x) >= 4094 for x in lines) or len(RS.qstr(t[1])) > 4000
            ck.violation("solfile_%s.txt" % rid, replay[:3000], "%s: solution file not of the documented form: %s" % (cmd, bad[:300]),
                         match=dict(kind="line-truncated" if longline else "solfile-form"))
            continue
        val = F(lines[2][len("\tValue = "):])
        x = [vals["VARS:"].get(n, F(0)) for n in cn]
        rcv = [vals["REDUCED COST:"].get(n, F(0)) for n in cn]
        pi = [vals["PI:"].get(n, F(0)) for n in rn]
        sl = [vals["SLACK:"].get(n, F(0)) for n in rn]
        if val != t[1]:
            ck.violation("value_%s.txt" % rid, replay, "%s: Value = %s but the optimum is %s" % (cmd, val, t[1]), match=dict(kind="value"))
            continue
        # reduced costs: c - A^T pi on the structural columns (exact arithmetic on the dumped internal form)
        cols = [tt for tt in L["ilp"] if tt[0] == "C"][:len(cn)]
        okrc = True
        for j, tt in enumerate(cols):
            kk = int(tt[4])
            red = F(tt[1]) - sum((F(tt[6 + 2 * i]) * pi[int(tt[5 + 2 * i])] for i in range(kk)), F(0))
            if red != rcv[j]:
                okrc = False
                ck.violation("rc_%s.txt" % rid, replay, "%s: reduced cost of %s listed as %s, c - A^T pi = %s" % (cmd, cn[j], rcv[j], red), match=dict(kind="reduced-cost"))
                break
        if not okrc:
            continue
        kq.append("Q %s kkt inf\n%s\nZ %s\nY %s\nV %s" % (rid, "\n".join(" ".join(tt) for tt in L["ilp"]), " ".join(map(RS.qstr, x + sl)), " ".join(map(RS.qstr, pi)), RS.qstr(val)))
        chk[rid] = (replay, cmd)
    kans = run_model("drv_solve", "\n".join(kq) + "\n") if len(kq) > 1 else {}
    ncert = 0
    for rid, (replay, cmd) in chk.items():
        if kans.get(rid) != ["true"]:
            ck.violation("cert_%s.txt" % rid, replay, "%s: the listed x / pi / slack / value are not an optimality certificate of the problem (check_kkt = %s)" % (cmd, kans.get(rid)),
                         match=dict(kind="certificate"))
        else:
            ncert += 1
            if len(ck.cov["samples"]) < 3:
                ck.sample(dict(command=cmd, solution_file=replay.split("# solution file:\n")[1][:500]))
    # ---- a basis written with -b is accepted as optimal by the exact test
    bs = ["CASE bas"]
    bk = []
    for r, (rc_, er) in zip(runs, res):
        k = r["k"]
        if r["wb"] and truth.get(k, ("",))[0] == "optimal" and os.path.exists(os.path.join(d, r["bas"])) and os.path.getsize(os.path.join(d, r["bas"])) > 0:
            bs.append("READP h0 %s %s\nREADBASIS h0 %s" % (files[k][0], files[k][1], r["bas"]))
            bk.append(k)
    rc, out, err = run_io("\n".join(bs) + "\n", scratch=d)
    rb = [l.split() for l in out.splitlines() if l.startswith("READBASIS")]
    bs2 = ["CASE bas2"]
    for k, t in zip(bk, rb):
        if t[1] == "OK":
            bs2.append("READP h0 %s %s\nBOPT h0 %s %s" % (files[k][0], files[k][1], t[2], t[3]))
        else:
            ck.violation("basis_%d.txt" % k, "esolver -b b.bas %s ; basis file:\n%s" % (files[k][0], read_sol(os.path.join(d, "b%d.bas" % k))),
                         "the basis file written by esolver -b for %s is rejected by mpq_QSread_basis" % files[k][0], match=dict(kind="basis-file"))
    rc, out, err = run_io("\n".join(bs2) + "\n", scratch=d)
    bo = [l.split() for l in out.splitlines() if l.startswith("BOPT")]
    nbas = 0
    for k, t in zip([k for k, tt in zip(bk, rb) if tt[1] == "OK"], bo):
        nbas += 1
        if t[1] != "0" or t[2] != "1":
            ck.violation("basisopt_%d.txt" % k, "esolver -b b.bas %s ; basis file:\n%s" % (files[k][0], read_sol(os.path.join(d, "b%d.bas" % k))),
                         "the basis written by esolver -b for %s is not accepted as optimal by QSexact_basis_optimalstatus (%s)" % (files[k][0], t[1:]), match=dict(kind="basis-not-optimal"))
    # ---- transport invariance: the same text offered plain / .gz / .bz2, with and without a final newline, is the same problem
    #      (the library reads all of them through EGio line by line): esolver must report the same status and value
    base_res = {}
    for r, (rc_, er) in zip(runs, res):
        if r["j"] == 0 and rc_ == 0:
            tx = read_sol(os.path.join(d, r["sol"])) or ""
            base_res[r["k"]] = [l for l in tx.split("\n")[:3] if l.startswith("status") or "Value" in l]
    vruns = []
    cand = [k for k, (fn, fmt, needL) in enumerate(files) if k in base_res and not needL and not fn.endswith((".gz", ".bz2")) and fn != "big.lp"]
    rng.shuffle(cand)
    for k in cand[:(40 if ck.thorough() else 10)]:
        fn, fmt, _ = files[k]
        raw = open(os.path.join(d, fn), "rb").read()
        stripped = raw.rstrip(b"\r\n \t")
        e = "lp" if fmt == "LP" else "mps"
        for tag, data, ext in (("nonl", stripped, ""), ("nonl", gzip.compress(stripped), ".gz"), ("nonl", bz2.compress(stripped), ".bz2"),
                               ("same", gzip.compress(raw), ".gz"), ("same", bz2.compress(raw), ".bz2")):
            vfn = "v%d_%s.%s%s" % (k, tag, e, ext)
            open(os.path.join(d, vfn), "wb").write(data)
            vruns.append(dict(k=k, vfn=vfn, sol="v%d_%s%s.sol" % (k, tag, ext.replace(".", "_")), tag=tag + ext))
    with ThreadPoolExecutor(max_workers=12) as ex:
        vres = list(ex.map(lambda r: run_esolver(exe, ["-O", r["sol"], r["vfn"]], d), vruns))
    nvar = 0
    for r, (rc_, er) in zip(vruns, vres):
        nvar += 1
        ck.count(("variant", files[r["k"]][0], r["tag"]))
        tx = read_sol(os.path.join(d, r["sol"])) if rc_ == 0 else None
        got = [l for l in (tx or "").split("\n")[:3] if l.startswith("status") or "Value" in l]
        if rc_ != 0 or got != base_res[r["k"]]:
            ck.violation("transport_%d_%s.txt" % (r["k"], r["tag"].replace(".", "_")),
                         "# file %s (offered as %s: %s):\n%s\n# esolver on the original: %s\n# esolver on the variant: exit %s %s\n" % (
                             files[r["k"]][0], r["vfn"], r["tag"], read_sol(os.path.join(d, files[r["k"]][0])), base_res[r["k"]], rc_, got),
                         "the same text offered as %s (%s) is not read as the same problem: esolver exit %s, %s instead of %s" % (r["vfn"], r["tag"], rc_, got, base_res[r["k"]]),
                         match=dict(kind="transport-variant", tag=r["tag"]))
    ck.cov["transport_variant_runs"] = nvar
    # ---- unreadable / malformed input: non-zero exit, no signal
    badfiles = {"empty.lp": b"", "garbage.mps": bytes(rng.randrange(256) for _ in range(300)), "trunc.lp": b"max\n obj: x +", "truncated.lp.gz": gzip.compress(b"max\n x\nst\n x <= 1\nend\n")[:14], "damaged.lp.bz2": bz2.compress(b"max\n x\nst\n x <= 1\nend\n")[:30] + b"xxxxxxxx",
                "nocons.lp": b"max\n x\nend\n", "badsec.mps": b"NAME x\nROWS\n Q r1\nENDATA\n", "wrongtype.mps": b"max\n x\nst\n x <= 1\nend\n"}
    for n_, data in badfiles.items():
        open(os.path.join(d, n_), "wb").write(data)
    os.makedirs(os.path.join(d, "adir.lp"), exist_ok=True)
    nbad = 0
    for n_ in list(badfiles) + ["missing.lp", "adir.lp"]:
        for extra in ([], ["-O", "bad.sol"], ["-b", "bad.bas"], ["-B", "missing.bas"]):
            rc_, er = run_esolver(exe, extra + [n_], d)
            nbad += 1
            ck.count(("bad", n_, tuple(extra)))
            if rc_ == "timeout" or rc_ < 0:
                ck.violation("badsig_%s.txt" % n_, "esolver %s %s" % (" ".join(extra), n_), "esolver %s %s on an unreadable/malformed file ended with %s" % (" ".join(extra), n_, rc_), match=dict(kind="esolver-crash"))
            elif rc_ == 0:
                ck.violation("badzero_%s.txt" % n_, "esolver %s %s" % (" ".join(extra), n_), "esolver %s %s exits 0 on an unreadable/malformed file" % (" ".join(extra), n_), match=dict(kind="exit-zero-on-bad-file"))
    # a usable basis with -B on a good file, and a missing basis file
    if not pr["ok"]:
        ck.violation("proof.txt", pr["log"], "proof obligation(s) of Properties_C19.v no longer check: %s" % pr["failed"], no_input=not ck.violations)
    ck.cov["files"] = len(files)
    ck.cov["files_with_ground_truth"] = len(truth)
    ck.cov["truth_histogram"] = {s: sum(1 for t in truth.values() if t[0] == s) for s in TRUTH_NAME}
    ck.cov["esolver_runs"] = len(runs) + len(runs2)
    ck.cov["first_lines_of_solution_files"] = {str(k): v for k, v in stat_hist.items()}
    ck.cov["optimal_solutions_certified"] = ncert
    ck.cov["bases_written_and_accepted"] = nbas
    ck.cov["print_sol_correspondence_cases"] = ncorr
    ck.cov["bad_input_runs"] = nbad
    ck.cov["rule"] = ("LP and MPS files written by the library (plain, .gz, .bz2; LP under a .txt name for -L) or rendered independently (C10 renderers), each x "
                      "{default, three of -p 1..4 / -d 6..9 / -S / -P 64|256 / combinations} with -O name[.gz|.bz2], -b on the first run and -B with that basis "
                      "afterwards: exit status 0; first line of the solution file = truth (Python reference simplex, certificate accepted by the extracted "
                      "checkers); for OPTIMAL every line parsed by the extracted Sol.parse_line, names known, no zero values, Value = optimum, reduced costs = "
                      "c - A^T pi, (x, slack, pi, value) accepted by check_kkt on the internal form dumped from the same file; -b basis read back and accepted by "
                      "QSexact_basis_optimalstatus; unreadable/malformed files: non-zero exit without signal; non-trivial = every run; distinct by file + options"
                      "; option model: the same LP / MPS text under ~20 file names (extensions lp LP Lp, double extensions, .gz .bz2 .GZ, no extension, a directory with a dot, a blank "
                      "in the name, 130 dots) x argument lists from a pool of 30 option sets (bundled flags, attached values, invalid pricing values, -E -I -h -x -- - -v, missing "
                      "values, repeated -O) in 5 shapes (options first, file first, two files, no file, after --): exit code, first line, basis file = extracted IO/Esolver.esolver")
    ck.cov["not_covered"] = ("IO/Esolver.v models option parsing, get_ftype, the first line and the exit code with the library calls as parameters (read result per format, basis load, "
                             "solver return value and status, print_sol / write_basis return values): the theorems are about that model, its agreement with the program is checked on generated "
                             "argument lists, not proved; -R and -m (resource limits) are parsed by the model but never exercised; -P only with 64..256")
    ck.assumptions = ["reference simplex untrusted (certificates re-checked)", "Coq kernel; extraction; OCaml", "harness h_io.c for the internal form of each file"]
    cleanup_scratch()
    ck.finish(trusted_base=["coqc 8.16.1 kernel", "OCaml extraction", "harness/h_io.c + checks/io_common.py + checks/C19.py"])


main_guard(main)
