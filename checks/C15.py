#!/usr/bin/env python3
"""C15  Equivalent formulations of an LP receive equivalent answers."""
import sys, os
sys.path.insert(0, os.path.dirname(os.path.abspath(__file__)))
from lib import *
from gen_lp import *
from solve_common import *


# ---- generators of larger sparse LPs ---------------------------------------------------------
def transport(rng, s, t, name):
    supply = [rng.randint(5, 30) for _ in range(s)]
    tot = sum(supply)
    dem = [max(1, tot // t - rng.randint(0, 3)) for _ in range(t)]
    cols = [(F(rng.randint(1, 20)), 0, INF if rng.random() < 0.8 else rng.randint(5, 40)) for _ in range(s * t)]
    rows = []
    for i in range(s):
        rows.append(("L", F(supply[i]), F(0), [(i * t + j, F(1)) for j in range(t)]))
    for j in range(t):
        rows.append(("G" if rng.random() < 0.7 else "E", F(dem[j]), F(0), [(i * t + j, F(1)) for i in range(s)]))
    return mk(name, False, cols, rows)


def staircase(rng, blocks, k, name):
    n = blocks * k
    cols = [(F(rng.randint(-5, 9)), 0, rng.choice([INF, 10, 20])) for _ in range(n)]
    rows = []
    for b in range(blocks):
        for r in range(k):
            ent = [(b * k + j, F(rng.randint(1, 4))) for j in range(k) if rng.random() < 0.6]
            if b + 1 < blocks:
                ent += [((b + 1) * k + j, F(-rng.randint(1, 3))) for j in range(k) if rng.random() < 0.3]
            if ent:
                s = rng.choice("LLGR")
                rows.append((s, F(rng.randint(5, 40)) if s != "G" else F(-rng.randint(0, 10)), F(rng.randint(1, 9)) if s == "R" else F(0), ent))
    return mk(name, rng.random() < 0.5, cols, rows)


def sparse_planted(rng, m, n, name):
    lp = planted_lp(rng, m=m, n=n, kind="small", name=name)
    # thin the rows out
    rows = []
    for (nm, s, r, g, ent) in lp["rows"]:
        keep = [e for e in ent if rng.random() < max(0.05, 6.0 / n)]
        rows.append((nm, s, r, g, keep if keep else ent[:1]))
    lp["rows"] = rows
    return lp


def assignment(rng, n, name):
    cols = [(F(rng.randint(1, 9)), 0, 1) for _ in range(n * n)]
    rows = []
    for i in range(n):
        rows.append(("E", F(1), F(0), [(i * n + j, F(1)) for j in range(n)]))
    for j in range(n):
        rows.append(("E", F(1), F(0), [(i * n + j, F(1)) for i in range(n)]))
    return mk(name, False, cols, rows)


def big_stream(rng, count, scale):
    out = []
    for i in range(count):
        r = i % 5
        if r == 0:
            out.append(transport(rng, rng.randint(4, 6) * scale, rng.randint(5, 8) * scale, "tr%d" % i))
        elif r == 1:
            out.append(staircase(rng, rng.randint(4, 8) * scale, rng.randint(4, 6), "st%d" % i))
        elif r == 2:
            out.append(sparse_planted(rng, rng.randint(30, 50) * scale, rng.randint(30, 60) * scale, "sp%d" % i))
        elif r == 3:
            out.append(assignment(rng, rng.randint(5, 7) + 2 * scale, "as%d" % i))
        else:
            lp = sparse_planted(rng, rng.randint(20, 30) * scale, rng.randint(20, 40) * scale, "ix%d" % i)
            # make it infeasible or unbounded sometimes
            if rng.random() < 0.5:
                lp["rows"].append(("c_bad", "G", F(10 ** 6), F(0), [(0, F(1))]))
                lp["cols"][0] = (lp["cols"][0][0], lp["cols"][0][1], lp["cols"][0][2], 50)
            out.append(lp)
    return out


def ulp_text(lp):
    out = ["ULP %d %d %d" % (1 if lp["max"] else 0, len(lp["cols"]), len(lp["rows"]))]
    for (n, o, l, u) in lp["cols"]:
        out.append("UC %s %s %s %s 0" % (n, qs(o), qs(l), qs(u)))
    for (n, s, r, g, ent) in lp["rows"]:
        out.append("UR %s %s %s %s %d %s" % (n, s, qs(r), qs(g), len(ent), " ".join("%d %s" % (j, qs(v)) for j, v in ent)))
    return "\n".join(out)


def parse_lp_block(lines):
    """LP/COL/ROW lines (token lists) -> lp dict"""
    h = lines[0]
    cols, rows = [], []
    for t in lines[1:]:
        if t[0] == "COL":
            cols.append((t[1], F(t[2]), t[3] if t[3] in (INF, NINF) else F(t[3]), t[4] if t[4] in (INF, NINF) else F(t[4])))
        elif t[0] == "ROW":
            k = int(t[5])
            rows.append((t[1], t[2], F(t[3]), t[4] if t[4] in (INF, NINF) else F(t[4]), [(int(t[6 + 2 * i]), F(t[7 + 2 * i])) for i in range(k)]))
    return dict(name=h[1], max=h[2] == "MAX", cols=cols, rows=rows)


def pick_xform(rng, lp):
    n, m = len(lp["cols"]), len(lp["rows"])
    k = rng.choice(["negobj", "scalerow", "scalerow", "duprow", "redundant", "spliteq", "permrows", "permcols", "subst", "subst", "boundrow", "boundrow", "addslack", "addslack"])
    if k == "addslack":
        ineq = [i for i, r in enumerate(lp["rows"]) if r[1] in "LG"]
        if ineq:
            return ["addslack", str(rng.choice(ineq))]
        k = "negobj"
    if k == "boundrow":
        # a finite bound of a column becomes an explicit row (None from the model when that bound is infinite)
        fin = [(j, "U") for j, c in enumerate(lp["cols"]) if c[3] not in (INF, NINF)] + [(j, "L") for j, c in enumerate(lp["cols"]) if c[2] not in (INF, NINF)]
        if fin:
            j, lu = rng.choice(fin)
            return ["boundrow", lu, str(j)]
        k = "negobj"
    if k == "negobj" or m == 0:
        return ["negobj"] if k == "negobj" or m == 0 else None
    if k == "scalerow":
        return ["scalerow", str(rng.randrange(m)), qs(F(rng.choice([-7, -3, -1, 2, 5]), rng.choice([1, 2, 3])))]
    if k == "duprow":
        return ["duprow", str(rng.randrange(m))]
    if k == "redundant":
        return ["redundant", str(rng.randrange(m)), qs(F(rng.randint(0, 9), 2))]
    if k == "spliteq":
        eq = [i for i, r in enumerate(lp["rows"]) if r[1] == "E"]
        return ["spliteq", str(rng.choice(eq) if eq else rng.randrange(m))]
    if k == "permcols":
        p = list(range(n))
        rng.shuffle(p)
        return ["permcols"] + [str(i) for i in p]
    if k == "permrows":
        p = list(range(m))
        rng.shuffle(p)
        return ["permrows"] + [str(i) for i in p]
    # affine substitution x_j = a_j x'_j + t_j on a random subset
    args = []
    for j in range(n):
        if rng.random() < 0.3:
            a = F(rng.choice([-3, -1, 2, 5]), rng.choice([1, 2]))
            t = F(rng.randint(-4, 4), rng.choice([1, 3]))
        else:
            a, t = F(1), F(0)
        args += [qs(a), qs(t)]
    return ["subst"] + args


def run_xforms(M, jobs):
    """jobs: {id: (args list, lp)} -> {id: (neg, b, lp') or None}"""
    q = ["M " + M]
    for jid, (args, lp) in jobs.items():
        q.append("Q %s xform %s\n%s" % (jid, " ".join(args), ulp_text(lp)))
    build_model()
    r = sh([os.path.join(VERIF, "ocaml", "gen", "drv_solve")], timeout=1800, input="\n".join(q) + "\n")
    if r.returncode != 0:
        raise Fail("drv_solve xform failed: " + r.stderr[-1000:])
    res, cur, blk = {}, None, []
    for line in r.stdout.splitlines():
        t = line.split()
        if not t:
            continue
        if t[0] == "A":
            if t[2] == "ok":
                cur = (t[1], int(t[3]), F(t[4]))
                blk = []
            else:
                res[t[1]] = None
                cur = None
        elif t[0] == "END" and cur:
            res[cur[0]] = (cur[1], cur[2], parse_lp_block(blk))
            cur = None
        elif cur:
            blk.append(t)
    return res


def main():
    ck = Check("C15", "proof")
    build_repo()
    pr = ck.proofs()
    nlp = 80 if ck.thorough() else 30
    scale = 4 if ck.thorough() else 3
    chain_len = 4 if ck.thorough() else 3
    lps = big_stream(ck.rng, nlp, scale) + family_stream(ck.rng, 30 if ck.thorough() else 12) + [boxed_ranged(ck.rng, name="bx%d" % i) for i in range(80 if ck.thorough() else 24)]
    rcc, out0, _ = run_harness("h_solve", "CASE 0\n"), None, None
    M = rcc[1].split()[1]
    chains = {}
    cur = {str(i): lp for i, lp in enumerate(lps)}
    vmaps = {k: [] for k in cur}
    kinds = {}
    for step in range(chain_len):
        jobs = {}
        for k, lp in cur.items():
            a = pick_xform(ck.rng, lp)
            if step == 0 and lp.get("name", "").startswith("bx") and any(c[2] == NINF for c in lp["cols"]):
                # the columns without lower bound are replaced by their negatives first (x_j = -x'_j): what entered the basis decreasing
                # now enters increasing, through the other branches of the ratio tests
                a = ["subst"] + [w for c in lp["cols"] for w in ((qs(F(-1)), qs(F(0))) if c[2] == NINF else (qs(F(1)), qs(F(0))))]
            if a:
                jobs[k] = (a, lp)
        res = run_xforms(M, jobs)
        for k, (a, lp) in jobs.items():
            r = res.get(k)
            if r is None:
                continue           # transformation declined (e.g. sentinel collision): keep the LP as it is
            neg, b, lp2 = r
            lp2["name"] = lp["name"]
            cur[k] = lp2
            vmaps[k].append((neg, b, a[0]))
            kinds[a[0]] = kinds.get(a[0], 0) + 1
    cases, meta = [], {}
    for k in cur:
        for tag, lp in (("o", lps[int(k)]), ("t", cur[k])):
            cid = "%s%s" % (tag, k)
            cases.append((cid, "CASE %s\n%s\nSOLVE EXACT P\nACCESS\n" % (cid, lp_block(lp))))
            meta[cid] = lp
    _, outs, crashes = run_cases("h_solve", cases, per_case_timeout=300)
    ck.cov["crashes_seen"] = len(crashes)

    def answer(cid):
        rv = st = val = None
        for t in outs.get(cid, []):
            if t[0] == "SOLVE":
                rv, st = int(t[2]), int(t[3])
            elif t[0] == "ACC" and t[1] == "objval" and t[2] == "0":
                val = F(t[3]) if t[3] not in ("inf", "-inf") else t[3]
        return rv, st, val
    hist = {}
    sizes = []
    for k in cur:
        ro, so, vo = answer("o" + k)
        rt, stt, vt = answer("t" + k)
        if ro is None or rt is None:
            continue
        lp = lps[int(k)]
        sizes.append((len(lp["rows"]), len(lp["cols"])))
        if not vmaps[k]:
            continue
        ck.count((k, repr(vmaps[k])))
        def_o = ro == 0 and so in (1, 2, 3)
        def_t = rt == 0 and stt in (1, 2, 3)
        hist[STATUS.get(so, so)] = hist.get(STATUS.get(so, so), 0) + 1
        chain_txt = " ; ".join(x[2] for x in vmaps[k])
        replay = "# original\n%s# transformed by [%s]\n%s" % (dict(cases)["o" + k], chain_txt, dict(cases)["t" + k])
        if def_o != def_t or (def_o and so != stt):
            ck.violation("status_%s.txt" % k, replay, "LP %s (%dx%d): status %s, after the proved-equivalent reformulation [%s]: %s" % (
                lp["name"], len(lp["rows"]), len(lp["cols"]), (ro, STATUS.get(so, so)), chain_txt, (rt, STATUS.get(stt, stt))),
                match=dict(kind="status", a=STATUS.get(so, str(so)), b=STATUS.get(stt, str(stt)), numbers=lp.get("numbers", "small"),
                           one_side="UNSOLVED" if (ro == 0 and rt == 0 and sorted([so == 6, stt == 6]) == [False, True]) else "-"))
        elif def_o and so == 1:
            exp = vo
            for neg, b, _ in vmaps[k]:
                exp = (-exp if neg else exp) + b
            if exp != vt:
                ck.violation("value_%s.txt" % k, replay, "LP %s: optimal value %s should map to %s under [%s] but the reformulated LP gives %s" % (lp["name"], vo, exp, chain_txt, vt),
                             match=dict(kind="value"))
            else:
                ck.sample(dict(lp=lp["name"], size=[len(lp["rows"]), len(lp["cols"])], chain=chain_txt, value=str(vo), mapped=str(vt)))
    if not pr["ok"]:
        ck.violation("proof.txt", pr["log"], "proof obligation(s) of Properties_C15.v no longer check: %s" % pr["failed"], no_input=not ck.violations)
    ck.cov["rule"] = ("sparse generators (transportation, staircase, planted, assignment, infeasible/unbounded variants) of %d..%d rows plus small families; "
                      "each LP is pushed through a chain of %d Coq-extracted, proved-equivalent reformulations (row permutation, row scaling of either sign, duplicate row, "
                      "redundant row, equality split, objective negation, column permutation, affine variable substitution, bound written as a row, inequality written with a slack column); both LPs solved by QSexact_solver; non-trivial = a chain of "
                      ">= 1 applied reformulation with both answers compared; distinct by (LP, chain)" % (min(s[0] for s in sizes) if sizes else 0, max(s[0] for s in sizes) if sizes else 0, chain_len))
    ck.cov["evaluations"] = len(cases)
    ck.cov["reformulations_applied"] = kinds
    ck.cov["original_status_histogram"] = hist
    ck.cov["sizes_rows_cols"] = sorted(sizes)[-5:]
    ck.cov["not_covered"] = "UNBOUNDED answers are compared but uncertified"
    ck.assumptions = ["Coq kernel; extraction + OCaml (transformations are the extracted verified functions)", "harness h_solve"]
    ck.finish(trusted_base=["coqc 8.16.1 kernel", "OCaml extraction (ExtrOcamlBasic + ExtrOcamlString)", "harness h_solve.c + checks/C15.py"])


main_guard(main)
