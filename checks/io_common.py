"""Shared machinery of the I/O-domain checks (C08 C09 C10 C11 C14 C19): text protocol of harness/h_io.c
and ocaml/drv_io.ml, problems by name, parallel case running with a scratch directory per chunk."""
import os, re, shutil, sys, tempfile
from fractions import Fraction as F
sys.path.insert(0, os.path.dirname(os.path.abspath(__file__)))
from lib import *

INF, NINF = "inf", "-inf"
SCRATCH_ROOT = "/tmp/io"
STATUS = {1: "OPTIMAL", 2: "INFEASIBLE", 3: "UNBOUNDED", 6: "UNSOLVED"}


# ----------------------------------------------------------------------------- encoding

def enc(s):
    if isinstance(s, str):
        s = s.encode("latin-1")
    if len(s) == 0:
        return "%"
    return "".join(chr(c) if 0x21 <= c <= 0x7e and c != 0x25 else "%%%02X" % c for c in s)


def dec(t):
    if t == "%":
        return ""
    return re.sub(r"%([0-9A-Fa-f]{2})", lambda m: chr(int(m.group(1), 16)), t)


def decb(t):
    return dec(t).encode("latin-1")


def qs(x):
    if isinstance(x, str):
        return x
    x = F(x)
    return str(x.numerator) if x.denominator == 1 else "%d/%d" % (x.numerator, x.denominator)


def qv(t):
    """token -> Fraction or the strings inf/-inf"""
    return t if t in (INF, NINF) else F(t)


# ----------------------------------------------------------------------------- problems by name
# P = dict(name, max, cols=[(name, obj, lo, up, isint)], rows=[(name, sense, rhs, range, [(colname, coef)])])

def load_block(h, P):
    """LOAD op of h_io: rows refer to columns by index"""
    idx = {c[0]: j for j, c in enumerate(P["cols"])}
    out = ["LOAD h%d" % h, "LP %s %s %d %d" % (enc(P.get("name", "p")), "MAX" if P["max"] else "MIN", len(P["cols"]), len(P["rows"]))]
    for (n, o, l, u, it) in P["cols"]:
        out.append("COL %s %s %s %s %d" % (enc(n), qs(o), qs(l), qs(u), 1 if it else 0))
    for (n, s, r, g, ent) in P["rows"]:
        out.append("ROW %s %s %s %s %d %s" % (enc(n) if n is not None else "-", s, qs(r), qs(g), len(ent),
                                              " ".join("%d %s" % (idx[c], qs(v)) for c, v in ent)))
    return "\n".join(out)


def parse_dump(lines):
    """token lines of one DUMP/DUMPO -> P (names decoded); None if 'P ERR'"""
    if not lines or lines[0][0] != "P" or lines[0][1] == "ERR":
        return None
    h = lines[0]
    P = dict(max=h[1] == "MAX", name=dec(h[4]) if len(h) > 4 and h[4] != "-" else None, cols=[], rows=[])
    for t in lines[1:]:
        if t[0] == "C":
            P["cols"].append((dec(t[1]), qv(t[2]), qv(t[3]), qv(t[4]), t[5] == "1"))
        elif t[0] == "R":
            k = int(t[5])
            ent = [(dec(t[6 + 2 * i]), qv(t[7 + 2 * i])) for i in range(k)]
            P["rows"].append((dec(t[1]), t[2], qv(t[3]), qv(t[4]), ent))
    return P


def split_ops(toks):
    """group the token lines of a case by leading op line: returns list of (head tokens, following detail lines)"""
    heads = {"NUM", "GETVAL", "PRINTNUM", "LOAD", "PUT", "CAT", "TRYREAD", "READ", "READP", "WRITE", "P", "TRYBASIS", "SOLVE", "OPT",
             "BASIS", "LOADBASIS", "WRITEBASIS", "READBASIS", "READLOADBASIS", "BOPT", "PRINTSOL", "FREE", "NOPROB", "UNKNOWN"}
    out = []
    for t in toks:
        if t[0] in heads:
            out.append((t, []))
        elif out:
            out[-1][1].append(t)
    return out


def dump_of(op):
    head, det = op
    return parse_dump([head] + det)


def cat_bytes(op):
    head, det = op
    if head[1] != "0":
        return None
    return b"".join(decb(t[1]) for t in det if t[0] == "L")


def model_block(P):
    """by-name problem for drv_io (names interned by the caller's table)"""
    raise NotImplementedError


# ----------------------------------------------------------------------------- running h_io

_scratch_made = []


def new_scratch(tag):
    os.makedirs(SCRATCH_ROOT, exist_ok=True)
    d = tempfile.mkdtemp(prefix="%s-" % tag, dir=SCRATCH_ROOT)
    _scratch_made.append(d)
    return d


def cleanup_scratch():
    for d in _scratch_made:
        shutil.rmtree(d, ignore_errors=True)
    del _scratch_made[:]


def run_io(script, asan=False, scratch=None, timeout=600):
    scratch = scratch or new_scratch("one")
    rc, out, err = run_harness("h_io", script, timeout=timeout, asan=asan, args=[scratch])
    return rc, out, err


def run_io_cases(cases, asan=False, per_case_timeout=60, jobs=16, tag="c", keep=False):
    """cases: [(cid, script)].  Each chunk of cases runs in one process with its own scratch directory
    (file names in scripts are relative to it).  Returns (M, {cid: token lines}, crashes, {cid: scratch dir})."""
    from concurrent.futures import ThreadPoolExecutor
    if not cases:
        return None, {}, [], {}
    nchunks = max(1, min(len(cases), jobs * 2))
    chunks = [cases[i::nchunks] for i in range(nchunks)]
    where = {}

    def run_chunk(ch):
        d = new_scratch(tag)
        for c in ch:
            where[c[0]] = d
        rc, out, err = run_io("".join(s for _, s in ch), asan=asan, scratch=d, timeout=per_case_timeout * len(ch) + 30)
        if rc == 0:
            return [(out, None)]
        if len(ch) == 1:
            return [(out, (ch[0][0], rc, err[-3000:]))]
        res = []
        for c in ch:
            rc1, out1, err1 = run_io(c[1], asan=asan, scratch=d, timeout=per_case_timeout + 30)
            res.append((out1, None if rc1 == 0 else (c[0], rc1, err1[-3000:])))
        return res

    M, allc, crashes = None, {}, []
    with ThreadPoolExecutor(max_workers=jobs) as ex:
        for res in ex.map(run_chunk, chunks):
            for out, crash in res:
                m, cs = split_cases(out)
                M = M or m
                allc.update(cs)
                if crash:
                    crashes.append(crash)
    if not keep:
        cleanup_scratch()
    return M, allc, crashes, where


def sentinel(M):
    return F(M)


# ----------------------------------------------------------------------------- internal-form text for the kkt oracle (drv_solve)

def ilp_text(P, M):
    """internal LP text (as harness/common.h qsx_dump_ilp prints it) built from a by-name problem:
    structurals in P's column order, then one logical per row (E: [0,0] +1, L: [0,inf] +1, G: [0,inf] -1, R: [0,range] -1)."""
    cols, rows = P["cols"], P["rows"]
    idx = {c[0]: j for j, c in enumerate(cols)}
    n, m = len(cols), len(rows)
    ent = [[] for _ in range(n)]
    for i, (rn, s, rhs, rg, es) in enumerate(rows):
        acc = {}
        for c, v in es:
            acc[c] = acc.get(c, F(0)) + F(v)
        for c, v in acc.items():
            if v != 0:
                ent[idx[c]].append((i, v))
    out = ["ILP %d %d %d %d" % (1 if P["max"] else 0, n + m, m, n)]
    for j, (cn, o, l, u, it) in enumerate(cols):
        out.append("C %s %s %s %d %s" % (qs(o), qs(l), qs(u), len(ent[j]), " ".join("%d %s" % (i, qs(v)) for i, v in ent[j])))
    for i, (rn, s, rhs, rg, es) in enumerate(rows):
        up = {"E": "0", "L": INF, "G": INF, "R": qs(rg)}[s]
        co = {"E": "1", "L": "1", "G": "-1", "R": "-1"}[s]
        out.append("C 0 0 %s 1 %d %s" % (up, i, co))
    out.append("B " + " ".join(qs(r[2]) for r in rows))
    return "\n".join(out)
