"""Shared machinery of the I/O-domain checks (C08 C09 C10 C11 C14 C19): text protocol of harness/h_io.c
and ocaml/drv_io.ml, problems by name, parallel case running with a scratch directory per chunk."""
import os, re, shutil, sys, tempfile
from fractions import Fraction as F
sys.path.insert(0, os.path.dirname(os.path.abspath(__file__)))
from lib import *

INF, NINF = "inf", "-inf"
SCRATCH_ROOT = "/tmp/io"
STATUS = {1: "OPTIMAL", 2: "INFEASIBLE", 3: "UNBOUNDED", 6: "UNSOLVED"}


# ----------------------------------------------------------------------------- encoding

def enc(s):
    if isinstance(s, str):
        s = s.encode("latin-1")
    if len(s) == 0:
        return "%"
    return "".join(chr(c) if 0x21 <= c <= 0x7e and c != 0x25 else "%%%02X" % c for c in s)


def dec(t):
    if t == "%":
        return ""
    return re.sub(r"%([0-9A-Fa-f]{2})", lambda m: chr(int(m.group(1), 16)), t)


def decb(t):
    return dec(t).encode("latin-1")


def qs(x):
    if isinstance(x, str):
        return x
    x = F(x)
    return str(x.numerator) if x.denominator == 1 else "%d/%d" % (x.numerator, x.denominator)


def qv(t):
    """token -> Fraction or the strings inf/-inf"""
    return t if t in (INF, NINF) else F(t)


# ----------------------------------------------------------------------------- problems by name
# P = dict(name, max, cols=[(name, obj, lo, up, isint)], rows=[(name, sense, rhs, range, [(colname, coef)])])

def load_block(h, P, mix=None):
    """LOAD op of h_io: rows refer to columns by index; mix = k: LOADMIX (rows are added after the first k columns)"""
    idx = {c[0]: j for j, c in enumerate(P["cols"])}
    out = ["LOAD h%d" % h if mix is None else "LOADMIX h%d %d" % (h, mix), "LP %s %s %d %d" % (enc(P.get("name", "p")), "MAX" if P["max"] else "MIN", len(P["cols"]), len(P["rows"]))]
    for (n, o, l, u, it) in P["cols"]:
        out.append("COL %s %s %s %s %d" % (enc(n), qs(o), qs(l), qs(u), 1 if it else 0))
    for (n, s, r, g, ent) in P["rows"]:
        out.append("ROW %s %s %s %s %d %s" % (enc(n) if n is not None else "-", s, qs(r), qs(g), len(ent),
                                              " ".join("%d %s" % (idx[c], qs(v)) for c, v in ent)))
    return "\n".join(out)


def parse_dump(lines):
    """token lines of one DUMP/DUMPO -> P (names decoded); None if 'P ERR'"""
    if not lines or lines[0][0] != "P" or lines[0][1] == "ERR":
        return None
    h = lines[0]
    P = dict(max=h[1] == "MAX", name=dec(h[4]) if len(h) > 4 and h[4] != "-" else None, cols=[], rows=[])
    if len(h) > 6:
        P["objname"] = dec(h[5]) if h[5] != "-" else None      # lp->objname (NULL: the writers invent one)
        P["intmarker"] = h[6] == "1"                           # lp->intmarker != NULL
    for t in lines[1:]:
        if t[0] == "C":
            P["cols"].append((dec(t[1]), qv(t[2]), qv(t[3]), qv(t[4]), t[5] == "1"))
        elif t[0] == "R":
            k = int(t[5])
            ent = [(dec(t[6 + 2 * i]), qv(t[7 + 2 * i])) for i in range(k)]
            P["rows"].append((dec(t[1]), t[2], qv(t[3]), qv(t[4]), ent))
    return P


def split_ops(toks):
    """group the token lines of a case by leading op line: returns list of (head tokens, following detail lines)"""
    heads = {"SOLUTION", "ILP", "NUM", "GETVAL", "PRINTNUM", "LOAD", "PUT", "CAT", "TRYREAD", "READ", "READP", "WRITE", "P", "TRYBASIS", "SOLVE", "OPT",
             "PC", "BASIS", "LOADBASIS", "WRITEBASIS", "READBASIS", "READLOADBASIS", "BOPT", "PRINTSOL", "FREE", "NOPROB", "UNKNOWN", "EDIT"}
    out = []
    for t in toks:
        if t[0] in heads:
            out.append((t, []))
        elif out:
            out[-1][1].append(t)
    return out


def dump_of(op):
    if op is None or op[0][0] != "P":
        return None
    head, det = op
    return parse_dump([head] + det)


def cat_bytes(op):
    if op is None or op[0][0] != "CAT":
        return None
    head, det = op
    if head[1] != "0":
        return None
    return b"".join(decb(t[1]) for t in det if t[0] == "L")


def model_block(P):
    """by-name problem for drv_io (names interned by the caller's table)"""
    raise NotImplementedError


# ----------------------------------------------------------------------------- running h_io

_scratch_made = []


def new_scratch(tag):
    os.makedirs(SCRATCH_ROOT, exist_ok=True)
    d = tempfile.mkdtemp(prefix="%s-" % tag, dir=SCRATCH_ROOT)
    _scratch_made.append(d)
    return d


def cleanup_scratch():
    if os.environ.get("QSX_KEEP_SCRATCH"):
        return
    for d in _scratch_made:
        shutil.rmtree(d, ignore_errors=True)
    del _scratch_made[:]


def run_io(script, asan=False, scratch=None, timeout=600):
    scratch = scratch or new_scratch("one")
    rc, out, err = run_harness("h_io", script, timeout=timeout, asan=asan, args=[scratch])
    return rc, out, err


def run_io_cases(cases, asan=False, per_case_timeout=60, jobs=16, tag="c", keep=False):
    """cases: [(cid, script)].  Each chunk of cases runs in one process with its own scratch directory
    (file names in scripts are relative to it).  Returns (M, {cid: token lines}, crashes, {cid: scratch dir})."""
    from concurrent.futures import ThreadPoolExecutor
    if not cases:
        return None, {}, [], {}
    nchunks = max(1, min(len(cases), jobs * 2))
    chunks = [cases[i::nchunks] for i in range(nchunks)]
    where = {}

    def run_chunk(ch):
        d = new_scratch(tag)
        for c in ch:
            where[c[0]] = d
        rc, out, err = run_io("".join(s for _, s in ch), asan=asan, scratch=d, timeout=per_case_timeout * len(ch) + 30)
        if rc == 0:
            return [(out, None)]
        if len(ch) == 1:
            return [(out, (ch[0][0], rc, err[-3000:]))]
        res = []
        for c in ch:
            rc1, out1, err1 = run_io(c[1], asan=asan, scratch=d, timeout=per_case_timeout + 30)
            res.append((out1, None if rc1 == 0 else (c[0], rc1, err1[-3000:])))
        return res

    M, allc, crashes = None, {}, []
    with ThreadPoolExecutor(max_workers=jobs) as ex:
        for res in ex.map(run_chunk, chunks):
            for out, crash in res:
                m, cs = split_cases(out)
                M = M or m
                allc.update(cs)
                if crash:
                    crashes.append(crash)
    if not keep:
        cleanup_scratch()
    return M, allc, crashes, where


def run_model_par(drv, queries, jobs=16):
    """queries: list of query strings (each may span lines); a leading 'M ...' entry is repeated for every worker"""
    from concurrent.futures import ThreadPoolExecutor
    build_model()          # once, before the workers start
    head = [x for x in queries if x.startswith("M ")]
    body = [x for x in queries if not x.startswith("M ")]
    if not body:
        return {}
    k = max(1, min(jobs, len(body) // 4 or 1))
    # interleave so that expensive neighbours are spread
    chunks = [body[i::k] for i in range(k)]
    ans = {}
    with ThreadPoolExecutor(max_workers=k) as ex:
        for a in ex.map(lambda ch: run_model(drv, "\n".join(head + ch) + "\n"), chunks):
            ans.update(a)
    return ans


def sentinel(M):
    return F(M)


# ----------------------------------------------------------------------------- internal-form text for the kkt oracle (drv_solve)

def ilp_text(P, M):
    """internal LP text (as harness/common.h qsx_dump_ilp prints it) built from a by-name problem:
    structurals in P's column order, then one logical per row (E: [0,0] +1, L: [0,inf] +1, G: [0,inf] -1, R: [0,range] -1)."""
    cols, rows = P["cols"], P["rows"]
    idx = {c[0]: j for j, c in enumerate(cols)}
    n, m = len(cols), len(rows)
    ent = [[] for _ in range(n)]
    for i, (rn, s, rhs, rg, es) in enumerate(rows):
        acc = {}
        for c, v in es:
            acc[c] = acc.get(c, F(0)) + F(v)
        for c, v in acc.items():
            if v != 0:
                ent[idx[c]].append((i, v))
    out = ["ILP %d %d %d %d" % (1 if P["max"] else 0, n + m, m, n)]
    for j, (cn, o, l, u, it) in enumerate(cols):
        out.append("C %s %s %s %d %s" % (qs(o), qs(l), qs(u), len(ent[j]), " ".join("%d %s" % (i, qs(v)) for i, v in ent[j])))
    for i, (rn, s, rhs, rg, es) in enumerate(rows):
        up = {"E": "0", "L": INF, "G": INF, "R": qs(rg)}[s]
        co = {"E": "1", "L": "1", "G": "-1", "R": "-1"}[s]
        out.append("C 0 0 %s 1 %d %s" % (up, i, co))
    out.append("B " + " ".join(qs(r[2]) for r in rows))
    return "\n".join(out)


# ----------------------------------------------------------------------------- by-name blocks for the model (names interned)

class Intern:
    def __init__(self):
        self.t = {}

    def __call__(self, name):
        if name not in self.t:
            self.t[name] = len(self.t) + 1
        return self.t[name]


def nlp_block(P, intern):
    out = ["NLP %d %d %d" % (1 if P["max"] else 0, len(P["cols"]), len(P["rows"]))]
    for (n, o, l, u, it) in P["cols"]:
        out.append("NC %d %s %s %s %d" % (intern(n), qs(o), qs(l), qs(u), 1 if it else 0))
    for (n, s, r, g, ent) in P["rows"]:
        out.append("NR %d %s %s %s %d %s" % (intern(n), s, qs(r), qs(g), len(ent), " ".join("%d %s" % (intern(c), qs(v)) for c, v in ent)))
    return "\n".join(out)


def slp_block(P, objname=None, intmarker=None):
    """by-name problem with the names themselves (%-encoded) for the lpwrite / lpread queries of drv_io"""
    on = objname if objname is not None else (P.get("objname") or "obj")
    im = intmarker if intmarker is not None else P.get("intmarker", any(c[4] for c in P["cols"]))
    out = ["SLP %d %s %s %d %d %d" % (1 if P["max"] else 0, enc(P["name"]) if P.get("name") is not None else "-", enc(on), 1 if im else 0,
                                      len(P["cols"]), len(P["rows"]))]
    for (n, o, l, u, it) in P["cols"]:
        out.append("SC %s %s %s %s %d" % (enc(n), qs(o), qs(l), qs(u), 1 if it else 0))
    for (n, s, r, g, ent) in P["rows"]:
        out.append("SR %s %s %s %s %d %s" % (enc(n), s, qs(r), qs(g), len(ent), " ".join("%s %s" % (enc(c), qs(v)) for c, v in ent)))
    return "\n".join(out)


def parse_dumpc(lines):
    """token lines of one DUMPC -> column-wise problem dict(name, max, objname, intmarker, rangeval, cols=[(name, obj, lo, up, int, [(row, coef)])],
    rows=[(name, sense, rhs, range)]); None if 'PC ERR'"""
    if not lines or lines[0][0] != "PC" or lines[0][1] == "ERR":
        return None
    h = lines[0]
    C = dict(max=h[1] == "MAX", name=dec(h[4]) if h[4] != "-" else None, objname=dec(h[5]) if h[5] != "-" else None,
             intmarker=h[6] == "1", rangeval=h[7] == "1", cols=[], rows=[])
    for t in lines[1:]:
        if t[0] == "CC":
            k = int(t[6])
            C["cols"].append((dec(t[1]), qv(t[2]), qv(t[3]), qv(t[4]), t[5] == "1", [(dec(t[7 + 2 * i]), qv(t[8 + 2 * i])) for i in range(k)]))
        elif t[0] == "RR":
            C["rows"].append((dec(t[1]), t[2], qv(t[3]), qv(t[4])))
    return C


def mlp_block(C, objname):
    out = ["MLP %d %s %s %d %d %d %d" % (1 if C["max"] else 0, enc(C["name"] or ""), enc(objname), 1 if C["intmarker"] else 0, 1 if C["rangeval"] else 0,
                                         len(C["cols"]), len(C["rows"]))]
    for (n, o, l, u, it, ent) in C["cols"]:
        out.append("MC %s %s %s %s %d %d %s" % (enc(n), qs(o), qs(l), qs(u), 1 if it else 0, len(ent), " ".join("%s %s" % (enc(r), qs(v)) for r, v in ent)))
    for (n, s_, r, g) in C["rows"]:
        out.append("MR %s %s %s %s" % (enc(n), s_, qs(r), qs(g)))
    return "\n".join(out)


def lp_objname(P):
    """the objective name ILLwrite_lp starts from: lp->objname, or "obj" made unique against the row names (ILLsymboltab_uname
    with prefix "" : obj, obj_0, obj_1, ...)"""
    if P.get("objname") is not None:
        return P["objname"]
    rn = set(r[0] for r in P["rows"])
    if "obj" not in rn:
        return "obj"
    k = 0
    while "obj_%d" % k in rn:
        k += 1
    return "obj_%d" % k


def equiv_query(qid, P, P2):
    it = Intern()
    return "Q %s equiv\n%s\n%s" % (qid, nlp_block(P, it), nlp_block(P2, it))


def rename_problem(P, ren):
    f = lambda n: ren.get(n, n)
    return dict(name=P.get("name"), max=P["max"], cols=[(f(c[0]),) + tuple(c[1:]) for c in P["cols"]],
                rows=[(f(r[0]), r[1], r[2], r[3], [(f(c), v) for c, v in r[4]]) for r in P["rows"]])


RENAME_RE = re.compile(r'"(.*)" is not a valid name in LP format; renaiming to "(.*)"\.', re.S)


def renames_of(write_op):
    """rename map announced by the LP writer (log messages captured by h_io)"""
    head, det = write_op
    ren = {}
    for t in det:
        if t[0] == "W":
            m = RENAME_RE.search(dec(t[1]))
            if m:
                ren[m.group(1)] = m.group(2)
    return ren


def ops_by_kind(toks):
    ops = split_ops(toks)
    d = {}
    for o in ops:
        d.setdefault(o[0][0], []).append(o)
    return ops, d


def solve_result(op):
    """('SOLVE', rv, status, value) -> (rv, status, value or None)"""
    h = op[0]
    return int(h[1]), int(h[2]), (None if h[3] == "-" else F(h[3]))


def problem_text(P):
    return "\n".join(["max=%s" % P["max"]] + ["C %s %s %s %s %s" % (enc(c[0]), qs(c[1]), qs(c[2]), qs(c[3]), int(c[4])) for c in P["cols"]] +
                     ["R %s %s %s %s %s" % (enc(r[0]), r[1], qs(r[2]), qs(r[3]), " ".join("%s %s" % (enc(c), qs(v)) for c, v in r[4])) for r in P["rows"]])


# ----------------------------------------------------------------------------- round-trip checks (C08 / C09)

def all_names(P):
    return [c[0] for c in P["cols"]] + [r[0] for r in P["rows"]]


def numeric_like(n):
    """would the number scanner consume a prefix of this name?  (cheap syntactic test; the model decides in the check)"""
    return bool(re.match(r"[+-]?(\d|\.\d|/\d)", n)) or n[:1] in "+-." and len(n) > 1 and n[1].isdigit()


def features(P, fmt, texts=()):
    """defect families a problem can run into (used only to label a failure that has already been observed)"""
    f = set()
    cn = [c[0] for c in P["cols"]]
    rn = [r[0] for r in P["rows"]]
    if any(len(l) >= 4095 for t in texts for l in t.split(b"\n")):
        f.add("line-truncated")
    if any(n.lower() in ("inf", "infinity", "free") for n in cn):
        f.add("lp-name-inf-free")
    if any(n.lower().startswith("free") and len(n) > 4 for n in cn):
        f.add("lp-free-prefix")
    if any(n == "obj" for n in rn):
        f.add("lp-objname-clash")
        if len(rn) == 1:
            f.add("uname-single-entry")
    if any(n.startswith("/") for n in cn):
        f.add("leading-slash-name")
    if any(len(n) > 150 for n in cn + rn):
        f.add("msg-buffer-overflow")
    if ("BOUND" in cn and any(numeric_like(n) for n in cn)) or (("RHS" in rn or "RANGE" in rn) and any(numeric_like(n) for n in rn)):
        f.add("mps-setname-clash")
    if any(r[1] == "R" and r[3] == 0 for r in P["rows"]):
        f.add("mps-zero-range")
    return f


FAMILY_ORDER = ["line-truncated", "leading-slash-name", "msg-buffer-overflow", "uname-single-entry", "lp-objname-clash", "lp-name-inf-free",
                "lp-free-prefix", "mps-setname-clash", "mps-zero-range"]
FAMILY_FMT = {"lp-objname-clash": "LP", "lp-name-inf-free": "LP", "lp-free-prefix": "LP", "mps-setname-clash": "MPS", "mps-zero-range": "MPS",
              "uname-single-entry": "MPS"}


def label_failure(P, fmts, texts, what=""):
    """known family whose trigger is present in the problem AND whose symptom matches what was observed; None = unexplained"""
    fs = features(P, None, texts)
    died = "process died" in what
    rejected = "reader rejected" in what
    differs = "not the problem written" in what or "differ" in what
    symptom = {
        "line-truncated": rejected or differs or "target" in what,
        "leading-slash-name": died or rejected or differs,
        "msg-buffer-overflow": died,
        "uname-single-entry": died,
        "lp-objname-clash": rejected and "Repeated row name" in what,
        "lp-name-inf-free": rejected or differs,
        "lp-free-prefix": rejected,
        "mps-setname-clash": rejected or differs,
        "mps-zero-range": differs,
    }
    for k in FAMILY_ORDER:
        if k in fs and symptom[k] and (k not in FAMILY_FMT or FAMILY_FMT[k] in fmts):
            return k
    return None


def parse_lp_bounds(text):
    """Bounds section of an LP file written by the library -> {name: statement string as drv_io prints it}; names contain no blanks"""
    out, on = {}, False
    for line in text.decode("latin-1").split("\n"):
        w = line.split()
        if not w:
            continue
        if not line[0].isspace():
            on = (w[0].lower() in ("bounds", "bound"))
            continue
        if not on:
            continue
        w = [("inf" if t == "inf" else "-inf" if t == "-inf" else t) for t in w]
        if len(w) == 3 and w[1] == "=":
            out[w[0]] = "FIX " + w[2]
        elif len(w) == 2 and w[1] == "free":
            out[w[0]] = "FREE"
        elif len(w) == 5 and w[1] == "<=" and w[3] == "<=":
            out[w[2]] = "LOUP %s %s" % (w[0], w[4])
        elif len(w) == 3 and w[1] == "<=" and (w[0] in ("inf", "-inf") or re.match(r"^-?\d", w[0])):
            out[w[2]] = "LO " + w[0]
        elif len(w) == 3 and w[1] == "<=":
            out[w[0]] = "UP " + w[2]
        else:
            out["?" + line] = "UNPARSED"
    return out


def parse_mps_bounds(text):
    """BOUNDS section of an MPS file written by the library -> {name: statement string}"""
    out, on = {}, False
    acc = {}
    for line in text.decode("latin-1").split("\n"):
        w = line.split()
        if not w:
            continue
        if not line[0].isspace():
            on = (w[0] == "BOUNDS")
            continue
        if on and len(w) >= 3:
            acc.setdefault(w[2], []).append((w[0], w[3] if len(w) > 3 else None))
    for n, l in acc.items():
        d = dict(l)
        if "FX" in d:
            out[n] = "FIX " + d["FX"]
        elif "FR" in d:
            out[n] = "FREE"
        else:
            lo = "-inf" if "MI" in d else d.get("LO")
            up = "inf" if "PL" in d else d.get("UP")
            out[n] = ("LOUP %s %s" % (lo, up)) if lo is not None and up is not None else ("LO " + lo) if lo is not None else ("UP " + up)
    return out


def norm_stmt(s):
    """canonical rationals inside a statement string"""
    w = s.split()
    return " ".join([w[0]] + [qs(qv(t)) for t in w[1:]])


def gen_edits(rng, P):
    """a few edits through the public API applied after LOAD: the problem that is written has an edit history
    (stale range values, deleted rows/columns, changed senses) - the comparison uses the dump taken afterwards.
    The edits keep the precondition of C08/C09: bounds stay ordered, every column keeps a non-zero coefficient
    in the objective or a row, a non-empty row remains."""
    cols = [list(c) for c in P["cols"]]
    rows = [[n, s_, r, g, [(c, v) for c, v in ent if v != 0]] for (n, s_, r, g, ent) in P["rows"]]
    out = []

    def fin(x):
        return not isinstance(x, str)

    def ok(cols_, rows_):
        if not any(r[4] for r in rows_):
            return False
        used = set(c for r in rows_ for c, v in r[4])
        return all(c[1] != 0 or c[0] in used for c in cols_)
    for _ in range(rng.randint(1, 3)):
        k = rng.choice(["chgsense", "chgsense", "chgsense", "chgrange", "chgrhs", "chgbnd", "chgobj", "delrow", "delcol", "objsense"])
        n, m = len(cols), len(rows)
        if k == "chgsense" and m:
            i = rng.randrange(m)
            rows[i][1] = rng.choice("LGER")
            out.append("chgsense %d %s" % (i, rows[i][1]))
        elif k == "chgrange" and m:
            i = rng.randrange(m)
            out.append("chgrange %d %d" % (i, rng.randint(0, 9)))          # fails on a non-ranged row: harmless
        elif k == "chgrhs" and m:
            out.append("chgrhs %d %d/%d" % (rng.randrange(m), rng.randint(-9, 9), rng.randint(1, 4)))
        elif k == "chgbnd" and n:
            j = rng.randrange(n)
            lo, up = cols[j][2], cols[j][3]
            v = rng.randint(-5, 9)
            if rng.random() < 0.5:
                if not fin(up) or v <= up:
                    cols[j][2] = v
                    out.append("chgbnd %d L %d" % (j, v))
            elif not fin(lo) or v >= lo:
                cols[j][3] = v
                out.append("chgbnd %d U %d" % (j, v))
        elif k == "chgobj" and n:
            j = rng.randrange(n)
            v = rng.choice([-3, -2, -1, 1, 2, 3])
            cols[j][1] = v
            out.append("chgobj %d %d" % (j, v))
        elif k == "delrow" and m > 1:
            i = rng.randrange(m)
            r2 = rows[:i] + rows[i + 1:]
            if ok(cols, r2):
                rows = r2
                out.append("delrow %d" % i)
        elif k == "delcol" and n > 1:
            j = rng.randrange(n)
            nm = cols[j][0]
            c2 = cols[:j] + cols[j + 1:]
            r2 = [[a_, b_, c_, d_, [(c, v) for c, v in e_ if c != nm]] for a_, b_, c_, d_, e_ in rows]
            if ok(c2, r2):
                cols, rows = c2, r2
                out.append("delcol %d" % j)
        elif k == "objsense":
            out.append("objsense %s" % rng.choice(["MIN", "MAX"]))
    return out


def rt_script(cid, P, fmt, with_solve, with_z, edits=(), mix=None):
    e = "lp" if fmt == "LP" else "mps"
    fp = cid + "_"          # cases of one chunk share a scratch directory: file names carry the case id

    def wr(h, f, ff):
        """write op; an MPS write is preceded by the column-wise dump the MPS writer model needs"""
        return (["DUMPC h%d" % h] if ff == "MPS" else []) + ["WRITE h%d %s %s" % (h, f, ff)]
    L = ["CASE %s" % cid, load_block(0, P, mix)] + ["EDIT h0 %s" % x for x in edits] + ["DUMPO h0"] + \
        wr(0, fp + "a.%s" % e, fmt) + ["CAT " + fp + "a.%s" % e, "READ h1 " + fp + "a.%s %s" % (e, fmt), "DUMPO h1"] + \
        wr(1, fp + "b.%s" % e, fmt) + ["CAT " + fp + "b.%s" % e, "READ h2 " + fp + "b.%s %s" % (e, fmt), "DUMPO h2"]
    if fmt == "MPS":
        # LP rendering of the same problem; MPS -> LP -> MPS and LP -> MPS -> LP
        L += ["WRITE h0 " + fp + "c.lp LP", "CAT " + fp + "c.lp", "READ h3 " + fp + "c.lp LP", "DUMPO h3",            # h3 = read_lp(write_lp P)
              "WRITE h1 " + fp + "d.lp LP", "CAT " + fp + "d.lp", "READ h4 " + fp + "d.lp LP", "DUMPO h4"] + \
             wr(4, fp + "e.mps", "MPS") + ["CAT " + fp + "e.mps", "READ h5 " + fp + "e.mps MPS", "DUMPO h5"] + \
             wr(3, fp + "f.mps", "MPS") + ["CAT " + fp + "f.mps", "READ h6 " + fp + "f.mps MPS", "DUMPO h6",
              "WRITE h6 " + fp + "g.lp LP", "CAT " + fp + "g.lp", "READ h7 " + fp + "g.lp LP", "DUMPO h7"]            # LP -> MPS -> LP
    if with_solve:
        L += ["SOLVE h0", "SOLVE h1"]
    if with_z:
        L += wr(0, fp + "z.%s.gz" % e, fmt) + ["CAT " + fp + "z.%s.gz" % e, "READ h8 " + fp + "z.%s.gz %s" % (e, fmt), "DUMPO h8"] + \
             wr(0, fp + "z.%s.bz2" % e, fmt) + ["CAT " + fp + "z.%s.bz2" % e, "READ h9 " + fp + "z.%s.bz2 %s" % (e, fmt), "DUMPO h9"]
    return "\n".join(L) + "\n"


class RtOut:
    """ops of one round-trip case in script order"""
    def __init__(self, toks):
        self.ops = split_ops(toks)
        self.i = 0

    def next(self, kind):
        """every script op prints exactly one head line (NOPROB <op> when its handle is empty): strictly sequential"""
        if self.i >= len(self.ops):
            return None
        o = self.ops[self.i]
        self.i += 1
        return o


def run_roundtrip_check(ck, fmt, pr, gen):
    """shared body of C08 (fmt LP) and C09 (fmt MPS)"""
    pid = ck.pid
    n = (2500 if ck.thorough() else 140)
    probs = {}
    corp = os.path.join(VERIF, "corpus", pid)
    cases = []
    mixes = {}
    fam = {}
    for i in range(n):
        cid = "g%d" % i
        if i % 10 == 3:
            P = gen.gen_problem_wrap(ck.rng, fmt)               # long objective / rows: several wrap points, signs vary
            fam[cid] = "wrap"
        elif i % 10 in (7, 9):
            P = gen.gen_problem_kwbounds(ck.rng, fmt)           # columns named like keywords with free / one-sided bounds
            fam[cid] = "keyword-bounds"
        else:
            P = gen.gen_problem(ck.rng, fmt, big=(i % 2 == 0))
            fam[cid] = "general"
        probs[cid] = P
        # rows added before some of the columns: structmap is not the identity
        nc = len(P["cols"])
        mixes[cid] = (ck.rng.randrange(0, max(1, nc // 2 + 1)) if fam[cid] == "wrap" else ck.rng.randrange(0, nc + 1)) if (i % 2 == 1 or fam[cid] == "wrap") else None
    mps_variant = 0
    if fmt == "MPS":
        # the witnesses of C09_mps_setname_clash_refuted / _rhs_refuted (IO/MpsWf.v) replayed on the library
        W0 = dict(name="clash", max=True, cols=[("BOUND", F(1), F(0), INF, False), ("2", F(1), F(0), F(4), False)],
                  rows=[("r", "L", F(10), F(0), [("BOUND", F(1)), ("2", F(1))])])
        W1 = dict(name="clash", max=False, cols=[("x", F(1), F(0), INF, False)],
                  rows=[("RHS", "L", F(10), F(0), [("x", F(1))]), ("1", "G", F(5), F(0), [("x", F(1))])])
        for wid, W in (("w0", W0), ("w1", W1)):
            probs[wid], fam[wid], mixes[wid] = W, "setname-clash witness", None
        # which writer does the library have: as found (set names RHS / RANGE / BOUND) or with mps_setname_clash.diff (names made unique)
        rc, out, err = run_io("CASE probe\n" + load_block(0, W1) + "\nWRITE h0 probe.mps MPS\nCAT probe.mps\n")
        pt = cat_bytes(next((o for o in split_ops(split_cases(out)[1].get("probe", [])) if o[0][0] == "CAT"), None)) or b""
        mps_variant = 1 if b" RHS_0 " in pt else 0
        ck.cov["mps_writer_variant"] = "set names made unique (mps_setname_clash.diff)" if mps_variant else "as found (RHS / RANGE / BOUND)"
    k = 0
    edits = {}
    for cid, P in probs.items():
        k += 1
        edits[cid] = gen_edits(ck.rng, P) if (k % 3 == 0 and not cid.startswith("w")) else []
        cases.append((cid, rt_script(cid, P, fmt, gen.magnitude_ok(P), k % 5 == 0, edits[cid], mixes[cid])))
    ck.cov["cases_with_edit_history"] = sum(1 for v in edits.values() if v)
    ck.cov["cases_rows_before_columns"] = sum(1 for v in mixes.values() if v is not None)
    ck.cov["case_families"] = {f: sum(1 for v in fam.values() if v == f) for f in set(fam.values())}
    scripts = dict(cases)
    M, outs, crashes, where = run_io_cases(cases, per_case_timeout=120, tag=pid, keep=True)
    crashed = {c[0]: c for c in crashes}
    ck.cov["crashes_seen"] = [dict(case=c[0], rc=c[1]) for c in crashes]
    # ---- collect comparisons
    q = ["M " + M]
    want = {}       # qid -> (cid, description)
    fails = []      # (cid, what, fmts involved, texts)
    info = {}
    numbers = set()
    bq = {}
    wq = {}         # writer correspondence: query id -> (case, label, text written by the library)
    mq = {}         # the same for MPS files
    tq = {}         # statement of C08_lp_roundtrip evaluated by the extracted code on the generated problem
    rq = {}         # statement of C09_mps_roundtrip evaluated by the extracted code on the problem as dumped before the first MPS write
    nq = {}         # name repair: model fix_names vs announced renames
    e = "lp" if fmt == "LP" else "mps"
    for cid, P in probs.items():
        toks = outs.get(cid)
        if cid in crashed or toks is None:
            fails.append((cid, "the harness process died (rc %s) during the round trip" % (crashed.get(cid, ("", "?"))[1],), {fmt} | ({"LP"} if fmt == "MPS" else set()), []))
            continue
        o = RtOut(toks)
        load = o.next("LOAD")
        if load is None or load[0][1] != "OK":
            raise Fail("harness could not build generated problem %s" % cid)
        for _ in edits[cid]:
            o.next("EDIT")            # edits may fail (e.g. range on a non-ranged row): the dump below is what counts
        P0 = dump_of(o.next("P"))
        texts = []
        lpw = []         # (source problem as dumped, announced renames, text) of every successful LP write
        mpw = []         # (column-wise dump, text) of every successful MPS write

        def step(src_handle_problem, f, label):
            """consume [DUMPC] WRITE (+CAT) READ DUMPO; returns (problem or None, renames, text)"""
            pc = o.next("PC") if f == "MPS" else None
            w = o.next("WRITE")
            text = None
            text = cat_bytes(o.next("CAT"))
            if text is not None:
                texts.append(text)
            r = o.next("READ")
            d = o.next("P")
            Pn = dump_of(d) if d is not None and d[0][0] == "P" else None
            ok = w is not None and w[0][0] == "WRITE" and w[0][1] == "0" and r is not None and r[0][0] == "READ" and r[0][1] == "OK" and Pn is not None
            why = None
            if not ok:
                why = "write rv=%s" % (w[0][1:3] if w else None,) if not (w and w[0][0] == "WRITE" and w[0][1] == "0") else \
                    "reader rejected the written file: %s" % [dec(t[3]).strip() for t in (r[1] if r else []) if t[0] == "E" and t[1] not in ("1", "3", "5")][:3]
            if f == "LP" and w is not None and w[0][0] == "WRITE" and w[0][1] == "0" and text is not None and src_handle_problem is not None:
                lpw.append((src_handle_problem, renames_of(w), text, label))
            if f == "MPS" and w is not None and w[0][0] == "WRITE" and w[0][1] == "0" and text is not None and pc is not None and pc[0][0] == "PC":
                C = parse_dumpc([pc[0]] + pc[1])
                if C is not None:
                    mpw.append((C, text, label))
            return Pn, (renames_of(w) if w and f == "LP" else {}), text, why

        chain = []   # (label, source problem, result, renames, fmt of file, why)
        P1, ren1, t1, why = step(P0, fmt, "a")
        chain.append(("write %s / read" % fmt, P0, P1, ren1, {fmt}, why))
        P2, ren2, t2, why = step(P1, fmt, "b")
        if P1 is not None:
            chain.append(("second generation %s" % fmt, P1, P2, ren2, {fmt}, why))
        if fmt == "MPS":
            P3, ren3, _, why = step(P0, "LP", "c")
            chain.append(("LP rendering of the same problem", P0, P3, ren3, {"LP"}, why))
            P4, ren4, _, why = step(P1, "LP", "d")
            if P1 is not None:
                chain.append(("MPS -> LP", P1, P4, ren4, {"MPS", "LP"}, why))
            P5, _, _, why = step(P4, "MPS", "e")
            if P4 is not None:
                chain.append(("MPS -> LP -> MPS", P4, P5, {}, {"MPS", "LP"}, why))
            P6, _, _, why = step(P3, "MPS", "f")
            if P3 is not None:
                chain.append(("LP -> MPS", P3, P6, {}, {"MPS", "LP"}, why))
            P7, ren7, _, why = step(P6, "LP", "g")
            if P6 is not None:
                chain.append(("LP -> MPS -> LP", P6, P7, ren7, {"MPS", "LP"}, why))
            if P1 is not None and P3 is not None:
                chain.append(("lp_mps_agree: read_mps(write_mps P) ~ read_lp(write_lp P)", P1, P3, ren3, {"MPS", "LP"}, None))
        sols = []
        if gen.magnitude_ok(P):
            for _ in range(2):
                s = o.next("SOLVE")
                sols.append(solve_result(s) if s and s[0][0] == "SOLVE" else None)
        zs = []
        if "_z.%s.gz" % e in scripts[cid]:
            for lab in ("z1", "z2"):
                Pz, _, tz, why = step(P0, fmt, lab)
                zs.append((Pz, tz, why))
        info[cid] = dict(P0=P0, chain=chain, sols=sols, zs=zs, texts=texts, t1=t1, ren1=ren1, lpw=lpw)
        for j, (A, ren, text, lab) in enumerate(lpw):
            if "objname" in A and len(text) < 400000:
                on = lp_objname(A)
                Ar = rename_problem(A, ren)
                Ar["objname"], Ar["intmarker"] = ren.get(on, on), A["intmarker"]
                wq["%s.w%d" % (cid, j)] = (cid, lab, text)
                q.append("Q %s.w%d lpwrite\n%s" % (cid, j, slp_block(Ar)))
                # name repair: the model's fix_names on the original names vs the renames the writer announced
                cn = [c[0] for c in A["cols"]]
                rn = [r[0] for r in A["rows"]]
                if all(n != "" or True for n in cn + rn):
                    nq["%s.n%d" % (cid, j)] = (cid, lab, cn, rn, on, ren, A.get("objname") is None)
                    q.append("Q %s.n%dc fixnames x %s" % (cid, j, " ".join(enc(n) for n in cn)))
                    q.append("Q %s.n%dr fixnames c %s" % (cid, j, " ".join(enc(n) for n in rn + [on])))
                    if A.get("objname") is None:
                        q.append("Q %s.n%do defobj %s" % (cid, j, " ".join(enc(n) for n in rn)))
                if fmt == "LP" and j == 0:
                    tq["%s.t" % cid] = cid
                    q.append("Q %s.t lprt\n%s" % (cid, slp_block(Ar)))
        for j, (C, text, lab) in enumerate(mpw):
            if len(text) < 400000 and C["name"] is not None:
                on = C["objname"] if C["objname"] is not None else lp_objname(dict(objname=None, rows=[(r[0],) for r in C["rows"]]))
                mq["%s.m%d" % (cid, j)] = (cid, lab, text)
                q.append("Q %s.m%d mpswrite %d\n%s" % (cid, j, mps_variant, mlp_block(C, on)))
                if fmt == "MPS" and j == 0 and lab == "a":
                    rq["%s.rt" % cid] = cid
                    q.append("Q %s.rt mpsrt %d\n%s" % (cid, mps_variant, mlp_block(C, on)))
        for j, (label, A, B, ren, fm, why) in enumerate(chain):
            if why is not None or B is None:
                fails.append((cid, "%s: %s" % (label, why or "no problem"), fm, texts))
            else:
                qid = "%s.%d" % (cid, j)
                q.append(equiv_query(qid, rename_problem(A, ren), B))
                want[qid] = (cid, label, fm)
        for c in P0["cols"]:
            for v in c[1:4]:
                if not isinstance(v, str):
                    numbers.add(v)
        if t1 is not None and P1 is not None:
            for c in P0["cols"]:
                bq["%s.b.%s" % (cid, len(bq))] = (cid, ren1.get(c[0], c[0]), c)
    for k2, (cid, nm, c) in bq.items():
        q.append("Q %s bounds %s %s %d" % (k2, qs(c[2]), qs(c[3]), 1 if c[4] else 0))
    nums = sorted(numbers, key=lambda v: (v.denominator.bit_length() + abs(v.numerator).bit_length(), v))
    nums = nums[:150] + nums[len(nums) // 2:len(nums) // 2 + 100] + nums[-25:]
    for i, v in enumerate(nums):
        q.append("Q pn%d print %s" % (i, qs(v)))
    ans = run_model_par("drv_io", q)
    # ---- judge
    hist = {}
    for qid, (cid, label, fm) in want.items():
        hist[label] = hist.get(label, 0) + 1
        ck.count((pid, label, problem_text(info[cid]["P0"])))
        if ans.get(qid) != ["true"]:
            fails.append((cid, "%s: the problem read back is not the problem written (equiv_by_name = %s)" % (label, ans.get(qid)), fm, info[cid]["texts"]))
    nsolved = 0
    for cid, d in info.items():
        P = probs[cid]
        s = d["sols"]
        # the hypothesis empty_ok of the oracle theorem is about the problem that was written: the dump taken after the edits
        def rng_(v):
            return F(0) if isinstance(v, str) else v
        Pw = None if d["P0"] is None else dict(d["P0"], rows=[(n_, s_, r_, (rng_(g_) if s_ == "R" and not isinstance(g_, str) else (F(10) ** 60 if isinstance(g_, str) else F(0))), e_) for (n_, s_, r_, g_, e_) in (d["P0"] or {"rows": []})["rows"]])
        if len(s) == 2 and s[0] is not None and s[1] is not None and d["chain"][0][2] is not None and Pw is not None and gen.empty_rows_ok(Pw):
            nsolved += 1
            if s[0] != s[1]:
                fails.append((cid, "status/value differ after the round trip: %s vs %s" % (s[0], s[1]), {fmt}, d["texts"]))
        for zi, (Pz, tz, why) in enumerate(d["zs"]):
            ext = (".gz", ".bz2")[zi]
            hist["compressed " + ext] = hist.get("compressed " + ext, 0) + 1
            if why is not None or tz is None or d["t1"] is None or tz != d["t1"]:
                fails.append((cid, "%s target: %s" % (ext, why or "decompressed text differs from the plain file"), {fmt}, d["texts"]))
                continue
            path = os.path.join(where[cid], "%s_z.%s%s" % (cid, e, ext))
            try:
                import gzip, bz2
                raw = (gzip.open if zi == 0 else bz2.open)(path, "rb").read()
            except Exception as ex:
                raw = None
            if raw != d["t1"] and not cid in [f[0] for f in fails]:
                fails.append((cid, "%s target is not a valid compressed copy of the plain text (independent decompression)" % ext, {fmt}, d["texts"]))
    # ---- correspondence: the LP writer model (IO/LpWrite.write_lp) vs the bytes mpq_QSwrite_prob wrote, whole files line by line
    corr_bad = []
    nw = 0
    for k2, (cid, lab, text) in wq.items():
        a = ans.get(k2)
        if a is None or (a and a[0] in ("PARSE-ERROR", "UNKNOWN-QUERY")):
            corr_bad.append("lpwrite query %s: %s" % (k2, a))
            continue
        nw += 1
        model = b"".join(decb(t) + b"\n" for t in a)
        if model != text:
            ml, tl = model.split(b"\n"), text.split(b"\n")
            d = next((i for i in range(max(len(ml), len(tl))) if (ml[i] if i < len(ml) else None) != (tl[i] if i < len(tl) else None)), 0)
            msg = "LP writer: file '%s' of case %s differs from IO/LpWrite.write_lp at line %d: library %r, model %r" % (
                lab, cid, d + 1, (tl[d] if d < len(tl) else None) and tl[d][:200], (ml[d] if d < len(ml) else None) and ml[d][:200])
            if cid not in set(f[0] for f in fails):
                fails.append((cid, "the LP text written differs from the writer model (line %d: %r vs model %r)" % (
                    d + 1, (tl[d] if d < len(tl) else b"")[:120], (ml[d] if d < len(ml) else b"")[:120]), {"LP"}, info[cid]["texts"]))
            corr_bad.append(msg)
    nn, nren = 0, 0
    for k2, (cid, lab, cn, rn, on, ren, noobj) in nq.items():
        ac, ar = ans.get(k2 + "c"), ans.get(k2 + "r")
        if ac is None or ar is None or (cn and len(ac) != len(cn)) or len(ar) != len(rn) + 1:
            corr_bad.append("fixnames query %s: %s %s" % (k2, ac, ar))
            continue
        nn += 1
        if noobj and ans.get(k2 + "o") != [enc(on)]:
            corr_bad.append("default objective name of case %s: model %s, check %r" % (cid, ans.get(k2 + "o"), on))
        model_ren = {}
        for old, new in list(zip(cn, ac)) + list(zip(rn + [on], ar)):
            if dec(new) != old:
                model_ren[old] = dec(new)
        nren += len(model_ren)
        if model_ren != ren:
            corr_bad.append("name repair of case %s file '%s': fix_names model renames %r, the writer announced %r" % (cid, lab, model_ren, ren))
    if nq:
        ck.cov["fix_names_correspondence"] = dict(tables_compared=nn, renames_predicted=nren, disagreements=sum(1 for x in corr_bad if x.startswith(("name repair", "default objective", "fixnames"))))
    if tq:
        nwf, nok, nrt = 0, 0, 0
        for k2, cid in tq.items():
            a = ans.get(k2)
            if not a or len(a) < 3:
                corr_bad.append("lprt query %s: %s" % (k2, a))
                continue
            nrt += 1
            if a[0] == "1":
                nwf += 1
                if a[1] == "OK" and a[2] == "true":
                    nok += 1
                else:
                    corr_bad.append("theorem C08_lp_roundtrip contradicted by the extracted code on case %s: wf_lpb holds, read_lp (write_lp P) -> %s" % (cid, a[1:]))
        ck.cov["theorem_instances"] = dict(problems=nrt, precondition_wf_lp_holds=nwf, of_those_model_roundtrip_ok=nok,
                                           note="wf_lpb (proved sound for wf_lp) evaluated on the dumped problem after the announced renames; for these problems "
                                                "C08_lp_roundtrip applies, and together with the two correspondences (writer bytes here, reader outcomes in C10) "
                                                "it predicts the round trip observed")
    clash_model = set()
    if rq:
        nrt, nwf, nok, nclash, ntie = 0, 0, 0, 0, 0
        libfail = {f[0] for f in fails if "write MPS / read" in f[1]}
        for k2, cid in rq.items():
            a = ans.get(k2)
            if not a or len(a) < 4:
                corr_bad.append("mpsrt query %s: %s" % (k2, a))
                continue
            nrt += 1
            core, setn, tag, eqv = a[0] == "1", a[1] == "1", a[2], a[3] == "true"
            applies = core and (setn or mps_variant == 1)
            if core and not setn:
                nclash += 1
                clash_model.add(cid)
            if applies:
                nwf += 1
                if tag == "OK" and eqv:
                    nok += 1
                else:
                    corr_bad.append("theorem C09_mps_roundtrip%s contradicted by the extracted code on case %s: precondition holds, read_mps (write_mps P) -> %s" % (
                        "_fixed" if mps_variant else "", cid, a[2:]))
            # tie: the model's round trip = the library's round trip (stage 'write MPS / read' of the chain)
            if cid in info and info[cid]["chain"]:
                lib_ok = cid not in libfail
                ntie += 1
                if lib_ok != (tag == "OK" and eqv):
                    corr_bad.append("MPS round trip of case %s: extracted read_mps (write_mps P) -> %s, library round trip %s" % (cid, a[2:], "ok" if lib_ok else "failed"))
        ck.cov["theorem_instances"] = dict(problems=nrt, precondition_holds=nwf, of_those_model_roundtrip_ok=nok, setname_hypothesis_fails=nclash,
                                           model_vs_library_roundtrip_outcomes_compared=ntie,
                                           note="wf_coreb / setnames_okb (proved sound for wf_mps) evaluated on the column-wise dump taken before the first MPS write; for these problems "
                                                "C09_mps_roundtrip (writer as found) or C09_mps_roundtrip_fixed (repaired writer) applies; the outcome of the extracted "
                                                "read_mps (write_mps P) is also compared with the outcome of the library's round trip on every case")
    nm_ = 0
    for k2, (cid, lab, text) in mq.items():
        a = ans.get(k2)
        if a is None or (a and a[0] in ("PARSE-ERROR", "UNKNOWN-QUERY")):
            corr_bad.append("mpswrite query %s: %s" % (k2, a))
            continue
        nm_ += 1
        model = b"".join(decb(t) + b"\n" for t in a)
        if model != text:
            ml, tl = model.split(b"\n"), text.split(b"\n")
            d = next((i for i in range(max(len(ml), len(tl))) if (ml[i] if i < len(ml) else None) != (tl[i] if i < len(tl) else None)), 0)
            corr_bad.append("MPS writer: file '%s' of case %s differs from IO/MpsWrite.write_mps at line %d: library %r, model %r" % (
                lab, cid, d + 1, (tl[d] if d < len(tl) else None) and tl[d][:200], (ml[d] if d < len(ml) else None) and ml[d][:200]))
            if cid not in set(f[0] for f in fails):
                fails.append((cid, "the MPS text written differs from the writer model (line %d: %r vs model %r)" % (
                    d + 1, (tl[d] if d < len(tl) else b"")[:120], (ml[d] if d < len(ml) else b"")[:120]), {"MPS"}, info[cid]["texts"]))
    if fmt == "MPS":
        ck.cov["mps_writer_correspondence"] = dict(files_compared_byte_for_byte=nm_, differing=sum(1 for x in corr_bad if x.startswith("MPS writer")))
    ck.cov["lp_writer_correspondence"] = dict(files_compared_byte_for_byte=nw, differing=sum(1 for x in corr_bad if x.startswith("LP writer")))
    rcq = "CASE pn\n" + "".join("PRINTNUM %s\n" % qs(v) for v in nums)
    rc, out, err = run_io(rcq)
    real = [l.split()[1] for l in out.splitlines() if l.startswith("PRINTNUM ")]
    for i, v in enumerate(nums):
        if i >= len(real) or ans.get("pn%d" % i) != [real[i]]:
            corr_bad.append("print_num %s: model %s, mpq_EGlpNumGetStr %s" % (qs(v), ans.get("pn%d" % i), real[i] if i < len(real) else None))
    nb = 0
    parsed = {}
    failed_ids = set(f[0] for f in fails)
    for k2, (cid, nm, c) in bq.items():
        a = ans.get(k2)
        if not a or "|" not in a:
            corr_bad.append("bounds query %s unanswered" % k2)
            continue
        cut = a.index("|")
        stmts, back = " ".join(a[:cut]), a[cut + 1:]
        if [qs(qv(t)) if t not in ("inf", "-inf") else t for t in back] != [qs(c[2]), qs(c[3])]:
            # M-valued tokens come back as the numeral of M
            bb = [("inf" if F(t) == F(M) else "-inf" if F(t) == -F(M) else qs(F(t))) for t in back]
            if bb != [qs(c[2]), qs(c[3])]:
                corr_bad.append("decode_bounds(encode_bounds) = %s for column bounds (%s, %s, int=%s)" % (back, qs(c[2]), qs(c[3]), c[4]))
        if cid in failed_ids:
            continue    # damaged / rejected file: not a basis for comparing the writer with the model
        if cid not in parsed:
            parsed[cid] = (parse_lp_bounds if fmt == "LP" else parse_mps_bounds)(info[cid]["t1"])
        realstmt = parsed[cid].get(nm)
        model = None if stmts == "NONE" else stmts.replace(qs(F(M)), "inf").replace("-inf", "-inf")
        if model is not None:
            model = " ".join(("inf" if t == qs(F(M)) else "-inf" if t == qs(-F(M)) else t) for t in model.split())
        nb += 1
        if (realstmt is None) != (model is None) or (model is not None and norm_stmt(realstmt) != norm_stmt(model)):
            corr_bad.append("bound statement for %s (%s, %s, int=%s): writer %r, model encode_bounds %r" % (nm, qs(c[2]), qs(c[3]), c[4], realstmt, model))
    ck.cov["correspondence"] = dict(print_num_cases=len(nums), bound_statements_compared=nb, disagreements=len(corr_bad))
    # ---- report
    seen = set()
    for (cid, what, fm, texts) in fails:
        if cid in seen:
            continue
        seen.add(cid)
        P = probs[cid]
        fam = label_failure(P, fm, texts, what)
        if fam is None and cid in clash_model and mps_variant == 0 and ("reader rejected" in what or "not the problem written" in what or "differ" in what):
            fam = "mps-setname-clash"       # the model (setnames_okb = false) predicts this failure: C09_mps_setname_clash_refuted
        replay = scripts[cid] + "\n# %s\n" % what
        ck.violation("rt_%s.txt" % cid, replay, "%s round trip of generated problem %s failed: %s" % (fmt, cid, what),
                     match=dict(kind=fam or "unexplained"))
    if corr_bad:
        ck.violation("corr.txt", "\n".join(corr_bad), "correspondence model vs writer broke: " + corr_bad[0], no_input=not ck.violations, match=dict(kind="corr"))
    if not pr["ok"]:
        ck.violation("proof.txt", pr["log"], "proof obligation(s) of Properties_%s.v no longer check: %s" % (pid, pr["failed"]), no_input=not ck.violations)
    good = [cid for cid in info if cid not in seen]
    for cid in good[:4]:
        ck.sample(dict(case=cid, problem=problem_text(info[cid]["P0"])[:600], file_head=info[cid]["t1"].decode("latin-1")[:400] if info[cid]["t1"] else None))
    ck.cov["comparison_histogram"] = hist
    ck.cov["solved_pairs_compared"] = nsolved
    ck.cov["failing_cases_by_family"] = {}
    seen2 = set()
    for (cid, what, fm, texts) in fails:
        if cid in seen2:
            continue        # later stages of a case that already failed are consequences
        seen2.add(cid)
        k3 = label_failure(probs[cid], fm, texts, what) or "unexplained"
        ck.cov["failing_cases_by_family"][k3] = ck.cov["failing_cases_by_family"].get(k3, 0) + 1
    ck.cov["evaluations"] = len(want) + nsolved
    cleanup_scratch()
    return info
