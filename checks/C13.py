#!/usr/bin/env python3
"""C13  LU-based solves are exact: B^-1 B = I for every basis and update history."""
import sys, os, itertools, re
sys.path.insert(0, os.path.dirname(os.path.abspath(__file__)))
from lib import *
from gen_lp import *
from solve_common import STATUS, PPRICE, DPRICE
from fac_common import *


def model_queries(qs, M, jobs=16):
    from concurrent.futures import ThreadPoolExecutor
    if not qs:
        return {}
    n = max(1, min(jobs, len(qs) // 50 + 1))
    chunks = [qs[i::n] for i in range(n)]
    ans = {}
    with ThreadPoolExecutor(max_workers=n) as ex:
        for a in ex.map(lambda ch: run_model("drv_fac", "M %s\n" % M + "\n".join(ch) + "\n"), chunks):
            ans.update(a)
    return ans


# ----------------------------------------------------------------------------- public level

def public_cases(rng, T):
    lps = []
    n = 260 if T else 36
    for i in range(n):
        r = i % 6
        if r == 0:
            lp = planted_lp(rng, rng.randint(2, 9), rng.randint(2, 11), rng.choice(["small", "frac"]), name="tp%d" % i)
        elif r == 1:
            lp = random_lp(rng, rng.randint(2, 8), rng.randint(2, 10), rng.choice(["small", "frac"]), name="tr%d" % i)
        elif r == 2:
            lp = degenerate(rng, k=rng.randint(1, 3), name="td%d" % i)
        elif r == 3:
            lp = beale("tb%d" % i) if rng.random() < 0.3 else face_only(rng, name="tf%d" % i)
        elif r == 4:
            lp = planted_lp(rng, rng.randint(6, 14) if T else rng.randint(5, 9), rng.randint(6, 16) if T else rng.randint(5, 11), "small", name="tP%d" % i)
        else:
            lp = near_parallel(rng, rng.choice([2, 10, 30]), name="tn%d" % i)
        if model_weight(lp) <= 4 * MODEL_WEIGHT_LIMIT:
            lps.append(lp)
    cases, meta = [], {}
    for li, lp in enumerate(lps):
        nc, m = len(lp["cols"]), len(lp["rows"])
        for variant in range(3 if T else 2):
            cid = "t%d.%d" % (li, variant)
            entry = rng.choice(["PRIMAL", "DUAL"])
            s = ["CASE " + cid, lp_block(lp), "DUMP", "PARAM 0 %d" % rng.choice(PPRICE), "PARAM 2 %d" % rng.choice(DPRICE)]
            if variant == 1:
                # stop at an iteration limit (scaling off, otherwise the limit is not in force), look, then finish
                s += ["PARAM 7 0", "PARAM 5 %d" % rng.randint(1, 25 if T else 8), "SOLVE " + entry, "ITCNT", "GETBASIS", "TABLEAU",
                      "PARAM 5 500000", "SOLVE " + entry, "ITCNT", "GETBASIS", "TABLEAU"]
            else:
                s += ["PARAM 7 %d" % rng.choice([0, 1]), "SOLVE " + entry, "ITCNT", "GETBASIS", "TABLEAU"]
            for _ in range(rng.randint(1, 6 if T else 4)):
                if rng.random() < 0.6 and nc:
                    k = rng.randint(1, min(nc, 4))
                    s.append("PIVCOL %d %s" % (k, " ".join(str(j) for j in rng.sample(range(nc), k))))
                elif m:
                    k = rng.randint(1, min(m, 3))
                    s.append("PIVROW %d %s" % (k, " ".join(str(j) for j in rng.sample(range(m), k))))
                s += ["GETBASIS", "TABLEAU"]
            cases.append((cid, "\n".join(s) + "\n"))
            meta[cid] = lp
    return cases, meta


def tableau_blocks(fo):
    """[(index of block, basis line or None, BORDER line, [(BINV, TROW)])] in script order"""
    out, basis, i = [], None, 0
    ops = fo.ops
    failed = False
    while i < len(ops):
        t = ops[i]
        if t[0] == "BASIS":
            basis = ("FAILED-PIVOT",) if failed else t
        elif t[0] in ("PIVCOL", "PIVROW"):
            # a failed call stops half way: the factorization moved on, mpq_QSget_basis is not refreshed (observation, not judged here)
            failed = failed or t[1] != "0"
        elif t[0] == "SOLVE":
            basis, failed = None, False
        elif t[0] == "BORDER":
            rows = []
            j = i + 1
            while j + 1 < len(ops) and ops[j][0] == "BINV" and ops[j + 1][0] == "TROW":
                rows.append((ops[j], ops[j + 1]))
                j += 2
            out.append((len(out), basis, t, rows))
            i = j
            continue
        i += 1
    return out


# ----------------------------------------------------------------------------- component level

def q(x):
    return qs(F(x))


def mat_cols(rows):
    n = len(rows)
    return [{i: rows[i][j] for i in range(n) if rows[i][j] != 0} for j in range(n)]


def fcol_lines(cols):
    return ["FCOL %d %d %s" % (j, len(c), " ".join("%d %s" % (i, q(v)) for i, v in sorted(c.items()))) for j, c in enumerate(cols)]


def svec(v):
    """dense list -> '<cnt> (<idx> <val>)*' of the non-zeros"""
    nz = [(i, x) for i, x in enumerate(v) if x != 0]
    return "%d %s" % (len(nz), " ".join("%d %s" % (i, q(x)) for i, x in nz))


def rand_vec(rng, n, kind):
    if kind == "unit":
        v = [F(0)] * n
        v[rng.randrange(n)] = F(1)
        return v
    if kind == "sparse":
        v = [F(0)] * n
        for _ in range(rng.randint(1, max(1, n // 8))):
            v[rng.randrange(n)] = F(rng.randint(-5, 5), rng.randint(1, 4))
        return v
    return [F(rng.randint(-4, 4), rng.randint(1, 3)) for _ in range(n)]


def structured_matrix(rng, n):
    kind = rng.choice(["tri", "tri", "block", "single", "near", "rankdef", "sparse", "sparse", "dense", "arrow"])
    Z = lambda: [[F(0)] * n for _ in range(n)]
    A = Z()
    rp, cp = list(range(n)), list(range(n))
    rng.shuffle(rp); rng.shuffle(cp)
    val = lambda: F(rng.choice([-3, -2, -1, 1, 2, 3, 5]), rng.choice([1, 1, 1, 2, 3]))
    if kind == "tri":
        for i in range(n):
            A[rp[i]][cp[i]] = val()
            for j in range(i):
                if rng.random() < min(0.5, 3.0 / n):
                    A[rp[i]][cp[j]] = val()
    elif kind == "block":
        k = rng.randint(2, max(2, min(n, 12)))
        for i in range(n):
            A[rp[i]][cp[i]] = val()
        for i in range(k):
            for j in range(k):
                if rng.random() < 0.8:
                    A[rp[i]][cp[j]] = val()
        for _ in range(n // 2):
            A[rng.randrange(n)][rng.randrange(n)] = val()
    elif kind == "single":
        for i in range(n):
            A[rp[i]][cp[i]] = val()
        for _ in range(rng.randint(0, 3)):
            A[rng.randrange(n)][rng.randrange(n)] = val()
    elif kind == "near":
        for i in range(n):
            for j in range(n):
                if rng.random() < min(0.6, 4.0 / n) or i == j:
                    A[i][j] = val()
        if n >= 2:
            a, b = rng.sample(range(n), 2)
            eps = F(1, 2 ** rng.choice([1, 20, 70, 200]))
            A[b] = [x for x in A[a]]
            A[b][rng.randrange(n)] += eps
    elif kind == "rankdef":
        for i in range(n):
            for j in range(n):
                if rng.random() < min(0.6, 4.0 / n) or i == j:
                    A[i][j] = val()
        how = rng.choice(["duprow", "dupcol", "zerorow", "zerocol", "comb"])
        if n >= 2:
            a, b = rng.sample(range(n), 2)
            if how == "duprow":
                A[b] = [x * 2 for x in A[a]]
            elif how == "dupcol":
                for i in range(n):
                    A[i][b] = -A[i][a]
            elif how == "zerorow":
                A[a] = [F(0)] * n
            elif how == "zerocol":
                for i in range(n):
                    A[i][a] = F(0)
            else:
                c = rng.randrange(n)
                A[b] = [x + 3 * y for x, y in zip(A[a], A[c])] if c not in (a, b) else [x * 1 for x in A[a]]
    elif kind == "sparse":
        d = rng.choice([1.5, 2.5, 4.0]) / n
        for i in range(n):
            A[rp[i]][cp[i]] = val() if rng.random() < 0.9 else F(0)
            for j in range(n):
                if rng.random() < d:
                    A[i][j] = val()
    elif kind == "dense":
        for i in range(n):
            for j in range(n):
                if rng.random() < 0.85:
                    A[i][j] = val()
    else:  # arrow: dense first row and column + diagonal
        for i in range(n):
            A[i][i] = val(); A[0][i] = val(); A[i][0] = val()
    return kind, A


def fparams(rng):
    p = []
    if rng.random() < 0.6:
        p += ["17", str(rng.choice([2, 3, 5, 10, 25]))]          # DENSE_MIN
    if rng.random() < 0.3:
        p += ["d16", rng.choice(["1/100", "1/4", "9/10"])]       # DENSE_FRACT
    if rng.random() < 0.3:
        p += ["2", str(rng.choice([1, 2, 4, 8]))]                # P
    if rng.random() < 0.3:
        p += ["1", str(rng.choice([2, 5, 50]))]                  # MAX_K
    if rng.random() < 0.3:
        p += ["d8", rng.choice(["1", "11/10", "3"])]             # UC_SPACE_MUL
    if rng.random() < 0.3:
        p += ["d7", rng.choice(["1", "2"])]                      # UR_SPACE_MUL
    if rng.random() < 0.3:
        p += ["d9", rng.choice(["1", "11/10"])]                  # LC_SPACE_MUL
    return p


class CompCase:
    """one component-level script with the bookkeeping needed to judge it afterwards"""
    def __init__(self, cid):
        self.cid = cid
        self.lines = ["CASE " + cid]
        self.steps = []        # (kind, payload) in op order, aligned with output lines

    def text(self):
        return "\n".join(self.lines) + "\n"


def component_static(cid, rng, A, params, nsolves):
    """FACTOR + solves of one matrix"""
    n = len(A)
    c = CompCase(cid)
    c.lines.append("FNEW %d %s" % (n, " ".join(params)))
    c.lines += fcol_lines(mat_cols(A))
    c.lines.append("FACTOR")
    c.steps.append(("FACTOR", [r[:] for r in A]))
    if n <= DUMP_LIMIT:
        c.lines.append("FDUMP")
        c.steps.append(("FDUMP", None))
    for k in range(nsolves):
        kind = ["unit", "dense", "sparse"][k % 3]
        v = rand_vec(rng, n, kind)
        op = "FTRAN" if (k // 3) % 2 == 0 else "BTRAN"
        c.lines.append("%s %s" % (op, svec(v)))
        c.steps.append((op, v))
    return c


def component_history(cid, rng, A, params, nupd):
    """FACTOR, then a sequence of column replacements, solves after each"""
    n = len(A)
    c = CompCase(cid)
    c.lines.append("FNEW %d %s" % (n, " ".join(params)))
    c.lines += fcol_lines(mat_cols(A))
    c.lines.append("FACTOR")
    c.steps.append(("FACTOR", [r[:] for r in A]))
    if n <= DUMP_LIMIT:
        c.lines.append("FDUMP")
        c.steps.append(("FDUMP", None))
    for u in range(nupd):
        col = rng.randrange(n)
        how = rng.choice(["sparse", "sparse", "dense", "unit", "copy", "comb", "same", "zero"])
        if how == "copy":
            # copy of another column of the ORIGINAL matrix: singular if that column is still in place
            o = rng.randrange(n)
            v = [A[i][o] for i in range(n)]
        elif how == "comb":
            o, o2 = rng.randrange(n), rng.randrange(n)
            v = [A[i][o] * 2 - A[i][o2] for i in range(n)]
        elif how == "same":
            v = [A[i][col] * F(rng.choice([1, -2, 1]), rng.choice([1, 3])) for i in range(n)]
        elif how == "zero":
            v = [F(0)] * n
            if rng.random() < 0.5:
                v[rng.randrange(n)] = F(1)
        else:
            v = rand_vec(rng, n, how)
        if all(x == 0 for x in v) and rng.random() < 0.8:
            v[rng.randrange(n)] = F(2)
        c.lines.append("FUPD %d %s" % (col, svec(v)))
        c.steps.append(("FUPD", (col, v)))
        if n <= DUMP_LIMIT:
            c.lines.append("FDUMP")
            c.steps.append(("FDUMP", None))
        for k in range(2):
            w = rand_vec(rng, n, rng.choice(["unit", "dense", "sparse"]))
            op = rng.choice(["FTRAN", "BTRAN"])
            c.lines.append("%s %s" % (op, svec(w)))
            c.steps.append((op, w))
    return c


def band_sparse_history(cid, rng, n, nupd):
    """permuted unit-band upper triangular 0/+-1 matrix (U rows with 1-3 entries: the sparse path of ILLfactor_update for
    n > 40 / > 60) and column replacements with 2-3 entries +-1 placed so that the eliminated row runs along the band:
    exact cancellations to 0 inside serow_process are frequent"""
    T = [[F(0)] * n for _ in range(n)]
    pm = lambda: F(rng.choice([-1, 1]))
    for i in range(n):
        T[i][i] = pm()
        if i + 1 < n and rng.random() < 0.85:
            T[i][i + 1] = pm()
        if i + 2 < n and rng.random() < 0.5:
            T[i][i + 2] = pm()
        if i + 3 < n and rng.random() < 0.15:
            T[i][i + 3] = pm()
    rp, cp = list(range(n)), list(range(n))
    rng.shuffle(rp); rng.shuffle(cp)
    A = [[F(0)] * n for _ in range(n)]
    for i in range(n):
        for j in range(n):
            if T[i][j] != 0:
                A[rp[i]][cp[j]] = T[i][j]
    c = CompCase(cid)
    c.lines.append("FNEW %d %s" % (n, " ".join(rng.choice([[], [], ["3", str(rng.choice([20, 50]))]]))))
    c.lines += fcol_lines(mat_cols(A))
    c.lines.append("FACTOR")
    c.steps.append(("FACTOR", [r[:] for r in A]))
    c.lines.append("FDUMP")
    c.steps.append(("FDUMP", None))
    for u in range(nupd):
        i = rng.randrange(n - 4)
        col = cp[i]
        v = [F(0)] * n
        v[rp[i]] = pm()
        for _ in range(rng.choice([1, 1, 2])):
            j = rng.randrange(i + 2, min(n, i + 12))
            v[rp[j]] = pm()
        if rng.random() < 0.15:
            v[rp[rng.randrange(0, i + 1)]] = pm()
        c.lines.append("FUPD %d %s" % (col, svec(v)))
        c.steps.append(("FUPD", (col, v)))
        c.lines.append("FDUMP")
        c.steps.append(("FDUMP", None))
        for k in range(2):
            w = rand_vec(rng, n, rng.choice(["unit", "sparse", "sparse"]))
            w = [F(int(t)) for t in w] if rng.random() < 0.7 else w
            if all(t == 0 for t in w):
                w[rng.randrange(n)] = F(1)
            op = rng.choice(["FTRAN", "BTRAN"])
            c.lines.append("%s %s" % (op, svec(w)))
            c.steps.append((op, w))
    c.kind = "hist-bandsparse"
    return c


def dense_int_matrix(rng, n, dens):
    A = [[F(0)] * n for _ in range(n)]
    for i in range(n):
        for j in range(n):
            if i == j or rng.random() < dens:
                A[i][j] = F(rng.choice([-2, -1, 1, 1, 2, 3]))
    return A


def sparse_int_lp(rng, m, n, name):
    """sparse integer LP (2-3 entries 0/+-1/2 per column), box bounds, planted feasible point: finite optimum"""
    xs = [F(rng.randint(0, 3)) for _ in range(n)]
    cols = [("x%d" % j, F(rng.randint(-4, 4)), F(0), F(rng.randint(3, 6))) for j in range(n)]
    ent = [[] for _ in range(m)]
    for j in range(n):
        for i in rng.sample(range(m), rng.choice([2, 2, 3])):
            ent[i].append((j, F(rng.choice([-1, 1, 1, 2]))))
    rows = []
    for i in range(m):
        act = sum((v * xs[j] for j, v in ent[i]), F(0))
        sn = rng.choice("LLGE")
        rhs = act if sn == "E" else (act + rng.randint(0, 3) if sn == "L" else act - rng.randint(0, 3))
        rows.append(("c%d" % i, sn, rhs, F(0), sorted(ent[i])))
    return dict(name=name, max=rng.random() < 0.5, cols=cols, rows=rows)


def public_big_cases(rng, T):
    """a few sparse 60x90 integer LPs: solve, new objective, re-solve, bound change, re-solve; tableau after each"""
    cases, meta = [], {}
    for li in range(6 if T else 2):
        lp = sparse_int_lp(rng, 60, 90, "big%d" % li)
        nc = 90
        cid = "T%d" % li
        s = ["CASE " + cid, lp_block(lp), "PARAM 7 0", "SOLVE " + rng.choice(["PRIMAL", "DUAL"]), "ITCNT", "DUMP", "GETBASIS", "TABLEAU"]
        for _ in range(6):
            s.append("CHG obj %d %s" % (rng.randrange(nc), q(F(rng.randint(-5, 5)))))
        s += ["SOLVE PRIMAL", "ITCNT", "DUMP", "GETBASIS", "TABLEAU"]
        for _ in range(4):
            s.append("CHG bound %d U %s" % (rng.randrange(nc), q(F(rng.randint(1, 2)))))
        s += ["SOLVE DUAL", "ITCNT", "DUMP", "GETBASIS", "TABLEAU"]
        cases.append((cid, "\n".join(s) + "\n"))
        meta[cid] = lp
    return cases, meta


REPR_LIMIT = 16         # check_repr + model walk of the solves (Fac/Factor.v) on the dumped struct factor_work up to this dimension
DUMP_LIMIT = 80         # the struct is dumped up to this dimension: every ILLfactor_update between two dumps is replayed by the extracted update
INVERSE_LIMIT = 12      # the verified elimination decides singularity up to this dimension; beyond it certificates are used


def dump_header(dump):
    """fields of the first line of an FDUMP block as a dict (stage, nstages, etacnt, dense_base, ...)"""
    h = dump.split("\n", 1)[0].split()
    d = {}
    for i in range(1, len(h) - 1):
        if not h[i].lstrip("-").isdigit() and h[i + 1].lstrip("-").isdigit():
            d[h[i]] = int(h[i + 1])
    return d


def judge_component(ck, c, toks, qlist, qmeta, hist, pybad, updq, updmeta, luq=None, lumeta=None):
    """replay the bookkeeping of case c against its output lines; append model queries.
    One query per matrix state: the matrix, C's singularity claim for it (if any) and the solves made with it.
    Every solve is first screened by an untrusted exact multiply-back in Python (pybad collects the failures: those states are
    not sent through the full verified query, a single-row confirmation is sent instead).
    Every ILLfactor_update with a dump before it gives one `upd` query (model update vs the library's next dump)."""
    class Tok(list):
        xord = None
    ops, curd = [], None
    for t in toks:
        if t[0] == "XORD" and curd is None and ops and ops[-1][0] in ("FTRAN", "BTRAN"):
            ops[-1].xord = t[2:]
            continue
        if t[0] == "FDUMP":
            curd = [t]
            if len(t) > 1 and t[1] == "none":
                ops.append(("FDUMPBLOCK", None))
                curd = None
        elif curd is not None:
            curd.append(t)
            if t[0] == "FDUMPEND":
                ops.append(("FDUMPBLOCK", "\n".join(" ".join(x) for x in curd)))
                curd = None
        elif t[0] in ("FACTOR", "FTRAN", "BTRAN", "FUPDX", "FUPDS", "FUPD"):
            ops.append(Tok(t))
    it = iter(ops)
    st = dict(cur=None, claim=None, what="", checks=[], idx=[], nq=0, dump=None, bad=False, pend=None, lu_done=False, nl=0, singinfo=None, orders=[])
    n0 = len(c.steps[0][1])
    if luq is None:
        luq, lumeta = [], {}

    def emit_lu():
        """the factorization replay: the state was produced by mpq_ILLfactor (FACTOR / REFACTOR / REVERT) and has a dump"""
        if st["cur"] is None or st["dump"] is None or st["lu_done"] or st["what"].startswith("FUPD accepted"):
            return
        st["lu_done"] = True
        mat = st["cur"]
        n = len(mat)
        qid = "%s.L%d" % (c.cid, st["nl"])
        st["nl"] += 1
        lines = ["Q %s lu %d %d" % (qid, n, len(st["checks"])), st["dump"]]
        lines += ["R " + " ".join(q(x) for x in r) for r in mat]
        for (kind, a, x) in st["checks"]:
            lines.append("%s %s | %s" % (kind, " ".join(q(t) for t in a), " ".join(x)))
        luq.append("\n".join(lines))
        lumeta[qid] = ("lu", c, st["what"], list(st["idx"]), [k for k, _, _ in st["checks"]], dump_header(st["dump"]), n)

    def emit_lusing(dump):
        """the report of a singular factorization against the struct it was read from and the verified judges"""
        mat, t = st["singinfo"]
        st["singinfo"] = None
        n = len(mat)
        h = dump_header(dump.replace("FDUMP sing", "FDUMP", 1))
        nsing = int(t[2])
        pairs = [int(x) for x in t[3:3 + 2 * nsing]]
        singr, singc = pairs[0::2], pairs[1::2]
        lines = dump.split("\n")
        rperm = [int(x) for x in lines[1].split()[1:]]
        cperm = [int(x) for x in lines[2].split()[1:]]
        stage, nstages = h.get("stage", -1), h.get("nstages", -1)
        ok_struct = (len(rperm) == n and len(cperm) == n and 0 <= stage <= nstages <= n and nsing == nstages - stage and
                     singr == rperm[stage:nstages] and singc == cperm[stage:nstages] and
                     sorted(rperm) == list(range(n)) and sorted(cperm) == list(range(n)))
        bump("sing-report/struct-consistent=%d" % ok_struct)
        if not ok_struct:
            ck.violation("sing_struct_%s.txt" % c.cid, c.text(), "the singular report of mpq_ILLfactor (nsing %d, rows %s, columns %s) is not the range stage..nstages (%d..%d) of the "
                         "permutations of the factor_work (rperm %s, cperm %s)" % (nsing, singr, singc, stage, nstages, rperm, cperm), match=dict(kind="sing-report"))
            if not (all(0 <= x < n for x in singr + singc) and len(set(singc)) == len(singc) and 0 <= stage <= n and len(rperm) == n and len(cperm) == n):
                return
            # the verified judges still say what the report is worth
        rep = repaired_matrix(mat, singr, singc)
        X = inverse_matrix(rep)
        qid = "%s.S%d" % (c.cid, st["nl"])
        st["nl"] += 1
        ql = ["Q %s lusing %d %d" % (qid, n, stage), "SING " + " ".join(t[2:3 + 2 * nsing]), dump]
        ql += ["R " + " ".join(q(x) for x in r) for r in mat]
        ql += (["X " + " ".join(q(x) for x in r) for r in X] if X is not None else ["NOX"])
        luq.append("\n".join(ql))
        lumeta[qid] = ("lusing", c, nsing, singr, singc, h, n, X is not None)
        if X is None:
            # python finds the repaired matrix singular: too few / wrong columns named; confirmed by the verified judges
            y = left_null_vector(rep)
            q2 = qid + "x"
            if n <= INVERSE_LIMIT or y is None:
                luq.append("\n".join(["Q %s mat %d 0 I" % (q2, n)] + ["R " + " ".join(q(x) for x in r) for r in rep]))
            else:
                luq.append("\n".join(["Q %s mat %d 0 Y" % (q2, n)] + ["R " + " ".join(q(x) for x in r) for r in rep] + ["Y " + " ".join(q(x) for x in y)]))
            lumeta[q2] = ("repaired", c, nsing, singr, singc, h, n, False)

    def bump(k):
        hist[k] = hist.get(k, 0) + 1

    def emit_topo():
        """premise of the order theorems (Fac/TopoOrder.v) where it is observable: the order in which ftran listed its results"""
        if st["dump"] is not None and st["orders"] and st["cur"] is not None:
            qid = "%s.T%d" % (c.cid, st["nl"])
            st["nl"] += 1
            luq.append("\n".join(["Q %s topo %d %d" % (qid, len(st["cur"]), len(st["orders"])), st["dump"]] + ["O " + " ".join(o) for _, o in st["orders"]]))
            lumeta[qid] = ("topo", c, [si for si, _ in st["orders"]], len(st["cur"]))
            # which listings are NOT in decreasing rank order (the order of the dense loop ILLfactor_ftranu): those come from ftranu3
            crank = next(([int(x) for x in l.split()[1:]] for l in st["dump"].split("\n") if l.startswith("CRANK")), None)
            for _, o in st["orders"]:
                try:
                    rk = [crank[int(j)] for j in o]
                    bump("solve-order/ftran-listing/" + ("decreasing-rank(dense-loop-order)" if rk == sorted(rk, reverse=True) else "other(depth-first,ftranu3)"))
                except Exception:
                    bump("solve-order/ftran-listing/unreadable")
        st["orders"] = []

    def flush():
        """emit the query for the current matrix state"""
        emit_lu()
        emit_topo()
        mat, claim = st["cur"], st["claim"]
        if mat is None or (not st["checks"] and claim is None):
            st["checks"], st["idx"], st["claim"], st["bad"] = [], [], None, False
            return
        n = len(mat)
        qid = "%s.%d" % (c.cid, st["nq"])
        st["nq"] += 1
        mode, extra = "-", []
        if claim is not None:
            if n <= INVERSE_LIMIT:
                mode = "I"
            elif claim:
                y = left_null_vector(mat)
                if y is None:
                    mode = "I"              # python disagrees with the library: let the verified elimination decide
                else:
                    mode, extra = "Y", ["Y " + " ".join(q(t) for t in y)]
            else:
                mode = "-"                  # claimed non-singular, large: judged through the solves only
        if st["bad"]:
            # a solve of this state fails the quick multiply-back: do not push (possibly gigantic) numbers through n^2 verified
            # products; the failing equation is confirmed separately
            bump("state-skipped/py-multiply-back-failed")
            st["checks"], st["idx"], st["claim"], st["bad"] = [], [], None, False
            return
        lines = ["Q %s mat %d %d %s" % (qid, n, len(st["checks"]), mode)]
        lines += ["R " + " ".join(q(x) for x in r) for r in mat] + extra
        for (kind, a, x) in st["checks"]:
            lines.append("%s %s | %s" % (kind, " ".join(q(t) for t in a), " ".join(x)))
        qlist.append("\n".join(lines))
        qmeta[qid] = (c, st["what"], claim, mode, st["idx"], [k for k, _, _ in st["checks"]])
        if st["dump"] is not None and (n <= REPR_LIMIT or (getattr(c, "repr_first", False) and st["what"] == "FACTOR")):
            # the same solves through the extracted model of the representation (Fac/Factor.v) + check_repr
            rl = ["Q %s.r repr %d %d" % (qid, n, len(st["checks"])), st["dump"]]
            rl += ["R " + " ".join(q(x) for x in r) for r in mat]
            for (kind, a, x) in st["checks"]:
                rl.append("%s %s | %s" % (kind, " ".join(q(t) for t in a), " ".join(x)))
            qlist.append("\n".join(rl))
            qmeta[qid + ".r"] = (c, st["what"], "repr", "repr", st["idx"], [k for k, _, _ in st["checks"]])
        st["checks"], st["idx"], st["claim"], st["bad"] = [], [], None, False

    def set_matrix(mat, claim, what):
        st["cur"], st["claim"], st["what"], st["dump"], st["lu_done"] = mat, claim, what, None, False

    def screen(kind, a, x, si):
        bad = py_solves_ok(st["cur"], kind, a, x)
        if bad is not None:
            st["bad"] = True
            pybad.append((c, si, kind, [r[:] for r in st["cur"]], a, x, bad, st["what"]))

    valid = False
    try:
        for si, (kind, payload) in enumerate(c.steps):
            if kind == "FACTOR":
                t = next(it)
                if t[1] != "0" or len(t) < 3 or not t[2].lstrip("-").isdigit():
                    bump("factor/error")
                    ck.violation("factor_err_%s.txt" % c.cid, c.text(), "mpq_ILLfactor failed (%s) on a %dx%d matrix" % (" ".join(t), len(payload), len(payload)), match=dict(kind="factor-error"))
                    return
                nsing = int(t[2])
                bump("factor/" + ("singular" if nsing else "ok"))
                set_matrix(payload, nsing > 0, "FACTOR")
                valid = nsing == 0
                if not valid:
                    st["singinfo"] = ([r[:] for r in payload], t)
                    flush()
            elif kind == "FDUMP":
                t = next(it)
                if not valid and t[1] is not None and t[1].startswith("FDUMP sing") and st["singinfo"] is not None:
                    emit_lusing(t[1])
                if valid and t[1] is not None:
                    st["dump"] = t[1]
                    if st["pend"] is not None:
                        # the dump right after an accepted update
                        pd = st["pend"]
                        st["pend"] = None
                        uq = "%s.u%d" % (c.cid, pd["si"])
                        updq.append("Q %s upd %d %d\n%s\nA %s\nS %s\nAFTER\n%s" % (uq, n0, pd["col"], pd["before"], " ".join(q(x) for x in pd["v"]), " ".join(pd["S"]), t[1]))
                        updmeta[uq] = (c, pd["si"], "accepted", pd["rv"])
                else:
                    st["pend"] = None
            elif kind in ("FTRAN", "BTRAN"):
                st["pend"] = None
                t = next(it)
                if not valid or t[1] == "NOFACTOR":
                    continue
                if t[1] != "0":
                    ck.violation("solve_index_%s.txt" % c.cid, c.text(), "%s returned a sparse vector with %s index" % (kind, "an out-of-range" if t[1] == "1" else "a duplicate"), match=dict(kind="solve-index"))
                    continue
                kk = "FT" if kind == "FTRAN" else "BT"
                if kk == "FT" and getattr(t, "xord", None) is not None and st["dump"] is not None:
                    st["orders"].append((si, t.xord))
                screen(kk, payload, t[2:], si)
                st["checks"].append((kk, payload, t[2:]))
                st["idx"].append(si)
            elif kind == "FUPD":
                st["pend"] = None
                col, v = payload
                tx = next(it)
                ts = next(it)
                tu = next(it)
                if not valid or tu[1] == "NOFACTOR":
                    continue
                if tx[1] == "0":                # x = B_old^-1 v
                    screen("FT", v, tx[2:], si)
                    st["checks"].append(("FT", v, tx[2:]))
                    st["idx"].append(si)
                before = st["dump"]
                flush()
                old = st["cur"]
                new = [r[:] for r in old]
                for i in range(len(new)):
                    new[i][col] = v[i]
                rv, refac = int(tu[1]), int(tu[2])
                bump("update/rv=%d,refactor=%d" % (rv, refac))
                if before is not None and ts[0] == "FUPDS" and not (refac and rv == 0):
                    if rv == 0:
                        st["pend"] = dict(si=si, col=col, v=v, S=ts[1:], before=before, rv=rv)
                    elif rv in (10, 11):
                        uq = "%s.u%d" % (c.cid, si)
                        updq.append("Q %s upd %d %d\n%s\nA %s\nS %s\nFAIL %d" % (uq, n0, col, before, " ".join(q(x) for x in v), " ".join(ts[1:]), rv))
                        updmeta[uq] = (c, si, "singular", rv)
                if "REFACTOR" in tu:
                    st["pend"] = None
                    k = tu.index("REFACTOR")
                    frv, fns = tu[k + 1], int(tu[k + 2]) if tu[k + 2].lstrip("-").isdigit() else -1
                    if frv != "0" or fns < 0:
                        ck.violation("factor_err_%s.txt" % c.cid, c.text(), "mpq_ILLfactor failed during refactorization (%s)" % " ".join(tu), match=dict(kind="factor-error"))
                        return
                    set_matrix(new, fns > 0, "REFACTOR after FUPD (update rv %d)" % rv)
                    if fns > 0:
                        bump("update/singular-reverted")
                        flush()
                        if "REVERT" not in tu or tu[tu.index("REVERT") + 1] != "0" or tu[tu.index("REVERT") + 2] != "0":
                            ck.violation("revert_%s.txt" % c.cid, c.text(), "refactorization of the previous (non-singular) matrix failed: %s" % " ".join(tu), match=dict(kind="factor-error"))
                            return
                        set_matrix(old, None, "after REVERT")
                else:
                    set_matrix(new, False, "FUPD accepted without refactorization")
        flush()
    except StopIteration:
        ck.violation("truncated_%s.txt" % c.cid, c.text(), "harness output of case %s is truncated" % c.cid, match=dict(kind="crash"))


def main():
    if len(sys.argv) > 2 and sys.argv[1] == "--replay":
        rc, out, err = run_harness("h_fac", "".join(l for l in open(sys.argv[2]) if not l.startswith("#")), asan=True)
        print(out + err[-2000:])
        sys.exit(0)
    ck = Check("C13", "proof")
    build_repo()
    pr = ck.proofs()
    T = ck.thorough()
    rng = ck.rng
    hist = {}

    def bump(k, n=1):
        hist[k] = hist.get(k, 0) + n

    # ------------------------------------------------------------------ A. public level
    t1 = time.time()
    cases, meta = public_cases(rng, T)
    M, outs, crashes = run_cases("h_fac", cases, per_case_timeout=120, asan=True)
    scripts = dict(cases)
    for cid, rc, err in crashes:
        ck.violation("crash_%s.txt" % cid, scripts[cid] + "\n# rc=%s\n# %s" % (rc, err[-1500:]), "h_fac (ASan) crashed (rc %s) in tableau case %s" % (rc, cid), match=dict(kind="crash"))
    qs_, want = [], {}
    for cid, toks in outs.items():
        fo = FacOut(toks)
        if not fo.lp_ok or not fo.ilp:
            continue
        ilp = fo.ilp_text()
        nc, m, ns = fo.dims()
        for (bi, basis, border, rows) in tableau_blocks(fo):
            if border[1] != "0":
                bump("tableau/unavailable")
                continue
            ord_ = border[2:]
            # basis order must list exactly the basic variables of mpq_QSget_basis
            if basis is not None and basis[0] == "FAILED-PIVOT":
                bump("tableau/after-failed-pivotin")
            if basis is not None and len(basis) == 3 and basis[0] == "BASIS":
                cs, rs = basis[1], basis[2]
                st = ("" if cs == "-" else cs) + ("" if rs == "-" else rs)
                bset = sorted(j for j, ch in enumerate(st) if ch == "1")
                if sorted(int(h) for h in ord_) != bset:
                    ck.violation("order_%s.%d.txt" % (cid, bi), scripts[cid], "mpq_QSget_basis_order %s does not list the basic variables of mpq_QSget_basis %s %s" % (ord_, cs, rs),
                                 match=dict(kind="basis-order"))
            if len(rows) != m:
                ck.violation("tabrows_%s.%d.txt" % (cid, bi), scripts[cid], "tableau block has %d rows for %d LP rows" % (len(rows), m), no_input=True)
                continue
            qid = "%s.%d" % (cid, bi)
            lines = ["Q %s tab" % qid, ilp, "ORD " + " ".join(ord_)]
            for (b, t) in rows:
                lines.append(" ".join(b))
                lines.append(" ".join(t))
            qs_.append("\n".join(lines))
            want[qid] = (cid, bi, rows)
    # big sparse LPs with an edit history on one object: the ILP block in force at each TABLEAU is the last DUMP before it
    bcases, bmeta = public_big_cases(rng, T)
    _, bouts, bcr = run_cases("h_fac", bcases, per_case_timeout=300, asan=True)
    scripts.update(dict(bcases))
    meta.update(bmeta)
    for cid, rc, err in bcr:
        ck.violation("crash_%s.txt" % cid, scripts[cid] + "\n# rc=%s\n# %s" % (rc, err[-1500:]), "h_fac (ASan) crashed (rc %s) in tableau case %s" % (rc, cid), match=dict(kind="crash"))
    for cid, toks in bouts.items():
        cur, blk, bi, i = None, None, 0, 0
        while i < len(toks):
            t = toks[i]
            if t[0] == "ILP":
                blk = [t]
                cur = blk
            elif t[0] in ("C", "B") and blk is not None:
                blk.append(t)
            elif t[0] == "SOLVE":
                bump("big-lp/solve-status=%s" % (t[3] if len(t) > 3 else "?"))
            elif t[0] == "ITCNT":
                bump("big-lp/iterations", int(t[6]) if len(t) > 6 and t[6].lstrip("-").isdigit() else 0)
            elif t[0] == "BORDER":
                rows = []
                j = i + 1
                while j + 1 < len(toks) and toks[j][0] == "BINV" and toks[j + 1][0] == "TROW":
                    rows.append((toks[j], toks[j + 1]))
                    j += 2
                i = j - 1
                if t[1] == "0" and cur is not None and rows:
                    # a sample of the rows (the judgement of one row costs m^2 + m*(n+m) exact products)
                    pick = sorted(rng.sample(range(len(rows)), min(len(rows), 60 if T else 12)))
                    for i0 in pick:
                        qid = "%s.%d.%d" % (cid, bi, i0)
                        lines = ["Q %s tab noinv" % qid, "\n".join(" ".join(x) for x in cur), "ORD " + " ".join(t[2:])]
                        # the driver expects m row pairs: the picked row is sent, the others are marked unavailable
                        for k, (b, tr) in enumerate(rows):
                            if k == i0:
                                lines.append(" ".join(b)); lines.append(" ".join(tr))
                            else:
                                lines.append("BINV %d 1" % k); lines.append("TROW %d 1" % k)
                        qs_.append("\n".join(lines))
                        want[qid] = (cid, bi, [rows[i0]])
                    bi += 1
                else:
                    bump("tableau/unavailable")
            i += 1
    ans, tmissing = budget_model_queries(qs_, M, 600 if T else 100, per_chunk=(200 if T else 60))
    ck.cov["tableau_judgements_not_finished_within_budget"] = len(tmissing)
    if tmissing and len(tmissing) * 100 > len(qs_):
        bump("tableau/unanswered-within-budget", len(tmissing))
        ck.violation("budget_%s.txt" % tmissing[0], scripts[want[tmissing[0]][0]], "%d of %d tableau judgements by the extracted checkers did not finish within the time budget: the rows returned could not be "
                     "multiplied back by check_binv_row / check_tableau_row" % (len(tmissing), len(qs_)), no_input=True, match=dict(kind="model-budget"))
    for qid in tmissing:
        want.pop(qid, None)
    nrows_judged = 0
    for qid, (cid, bi, rows) in want.items():
        a = ans.get(qid)
        lp = meta[cid]
        if not a or a[0] not in ("S", "N"):
            ck.violation("model_%s.txt" % qid, scripts[cid], "model driver gave no answer for tableau block %s (%s)" % (qid, a), no_input=True)
            continue
        flags = a[1:]
        bump("tableau/blocks")
        ck.count(("tab", repr(lp["cols"]), repr(lp["rows"]), tuple(tuple(r[0]) for r in rows)))
        bad = []
        if len(rows) == 1 and len(flags) > 2:
            # big-LP query: one row was sent, the others were marked unavailable
            flags = [f for f in flags if f != "E"]
        for i in range(len(rows)):
            fb, ft = flags[2 * i], flags[2 * i + 1]
            if fb == "E":
                bump("tableau/row-unavailable")
                continue
            nrows_judged += 1
            if fb != "1" or ft != "1":
                bad.append((i, fb, ft))
        if bad:
            ck.violation("tableau_%s.txt" % qid, scripts[cid] + "# block %d, rows (index, binv ok, tableau ok): %s\n" % (bi, bad),
                         "mpq_QSget_binv_row / mpq_QSget_tableau_row returned rows that do not multiply back (block %d of case %s: %s)" % (bi, cid, bad),
                         match=dict(kind="tableau-wrong"))
        elif a[0] == "S" and all(f == "1" for f in flags):
            ck.violation("tableau_sing_%s.txt" % qid, scripts[cid], "all rows accepted although the model finds the basis matrix singular (contradicts check_binv_all_nonsingular)", no_input=True)
        elif len(ck.cov["samples"]) < 3:
            ck.sample(dict(kind="tableau", lp=lp["name"], basis_order=rows and want[qid][2][0][0][:1], rows=len(rows), script_tail=scripts[cid].splitlines()[-6:]))
    print("# public level %.1fs, %d blocks" % (time.time() - t1, len(want)), file=sys.stderr)

    # ------------------------------------------------------------------ B. component level
    t1 = time.time()
    comp = []
    # B1: 3x3 over {-1,0,1,2}: all (thorough) or a sample (quick); also all 2x2
    vals = (-1, 0, 1, 2)
    space3 = list(itertools.product(vals, repeat=9))
    # (all 262144 3x3 matrices gave 1.1 million judge queries: more than the extracted checkers answer in the budget; a sample of
    # 40000 in the thorough tier, every 2x2 matrix in both tiers)
    space3 = rng.sample(space3, 40000 if T else 5000)
    small = [[[F(t[0]), F(t[1])], [F(t[2]), F(t[3])]] for t in itertools.product(vals, repeat=4)]
    small += [[[F(t[3 * i + j]) for j in range(3)] for i in range(3)] for t in space3]
    for k, A in enumerate(small):
        comp.append(component_static("x%d" % k, rng, A, ["17", str(rng.choice([2, 25]))] if k % 2 else [], 6))
    n_exh = len(comp)
    # B2: structured matrices
    nstruct = 600 if T else 140
    for k in range(nstruct):
        n = rng.choice([2, 3, 4, 5, 6, 8, 10, 12, 16, 24, 30, 40] + ([60] if T else []))
        kind, A = structured_matrix(rng, n)
        c = component_static("s%d" % k, rng, A, fparams(rng), 12 if n <= 16 else 8)
        c.kind = kind
        comp.append(c)
    # B2': dense integer matrices with a dense kernel of more than 25 rows (default DENSE_MIN / DENSE_FRACT), static and with updates
    for k in range(60 if T else 6):
        n = rng.randint(30, 40)
        A = dense_int_matrix(rng, n, rng.choice([0.4, 0.7, 0.9]))
        if k % 2:
            c = component_static("d%d" % k, rng, A, [], 8)
        else:
            c = component_history("d%d" % k, rng, A, [], rng.randint(3, 6))
        c.kind = "dense-int"
        comp.append(c)
    # B2'': rank-deficient dense integer matrices: the dense kernel (more than 25 rows) runs out of pivots, handle_singularity reports
    for k in range(20 if T else 2):
        n = rng.randint(30, 36)
        A = dense_int_matrix(rng, n, rng.choice([0.5, 0.8]))
        for _ in range(rng.choice([1, 1, 2])):
            a, b = rng.sample(range(n), 2)
            if rng.random() < 0.5:
                A[b] = [x * 2 for x in A[a]]
            else:
                for i in range(n):
                    A[i][b] = -A[i][a]
        c = component_static("D%d" % k, rng, A, [], 2)
        c.kind = "dense-int-singular"
        comp.append(c)
    # B3: update histories
    nhist = 1200 if T else 300
    for k in range(nhist):
        n = rng.choice([2, 3, 4, 5, 6, 8, 10, 14, 22] + ([30, 45] if T else []))
        for _ in range(20):
            kind, A = structured_matrix(rng, n)
            if kind not in ("rankdef",):
                break
        params = fparams(rng)
        if rng.random() < 0.5:
            params += ["3", str(rng.choice([1, 2, 3, 5, 10]))]           # ETAMAX: forces refactorization requests
        if rng.random() < 0.25:
            params += ["d11", rng.choice(["1/100", "1/10", "1"])]        # ER_SPACE_MUL: eta space runs out
        c = component_history("h%d" % k, rng, A, params, rng.randint(3, 30 if n <= 10 else 12))
        c.kind = "hist-" + kind
        comp.append(c)
    # B3': sparse 0/+-1 histories of dimension 45..80: the sparse path of ILLfactor_update (serow_process) with exact cancellations
    for k in range(160 if T else 40):
        n = rng.choice([45, 52, 61, 64, 70, 80])
        c = band_sparse_history("b%d" % k, rng, n, rng.randint(8, 16))
        c.repr_first = k < (20 if T else 4)
        comp.append(c)
    # group small cases into chunks per process
    byid = {c.cid: c for c in comp}
    ccases = [(c.cid, c.text()) for c in comp]
    _, couts, ccr = run_cases("h_fac", ccases, per_case_timeout=120, asan=True, jobs=16)
    for cid, rc, err in ccr:
        ck.violation("crash_%s.txt" % cid, byid[cid].text() + "\n# rc=%s\n# %s" % (rc, err[-1500:]), "h_fac (ASan) crashed (rc %s) in factor case %s" % (rc, cid), match=dict(kind="crash"))
    print("# component harness %.1fs, %d cases" % (time.time() - t1, len(comp)), file=sys.stderr)
    t1 = time.time()
    qlist, qmeta, pybad, updq, updmeta, luq, lumeta = [], {}, [], [], {}, [], {}
    for c in comp:
        if c.cid in couts:
            judge_component(ck, c, couts[c.cid], qlist, qmeta, hist, pybad, updq, updmeta, luq, lumeta)
    print("# component screening %.1fs, %d queries, %d update replays, %d solves fail the quick multiply-back" % (time.time() - t1, len(qlist), len(updq), len(pybad)), file=sys.stderr)
    t1 = time.time()
    BUDGET = 1500 if T else 200
    # (1) solves that fail the untrusted multiply-back: confirm ONE equation each with the verified checker (tiny queries, first)
    rowq, rowmeta = [], {}
    for k, (c, si, kind, mat, a, x, eq, what) in enumerate(pybad[:40]):
        n = len(mat)
        row = mat[eq] if kind == "FT" else [mat[i][eq] for i in range(n)]
        rid = "pb%d" % k
        rowq.append("Q %s row %d\nR %s\nX %s\nV %s" % (rid, n, " ".join(q(t) for t in row), " ".join(x), q(a[eq])))
        rowmeta[rid] = (c, si, kind, eq, what, n)
    rans, rmiss = budget_model_queries(rowq, M, 40, per_chunk=20, chunk_weight=1)
    for rid, (c, si, kind, eq, what, n) in rowmeta.items():
        a_ = rans.get(rid)
        conf = "confirmed by the extracted checker" if a_ == ["0"] else ("NOT confirmed by the extracted checker (it accepts the row)" if a_ == ["1"] else "verified confirmation did not finish within its time limit")
        bump("solve-wrong/" + ("confirmed" if a_ == ["0"] else "unconfirmed"))
        if a_ == ["1"]:
            ck.violation("screen_%s.txt" % rid, c.text(), "internal: the quick multiply-back and the extracted checker disagree on equation %d of step %d" % (eq, si), no_input=True)
            continue
        ck.violation("solve_%s_%d.txt" % (c.cid, si), c.text() + "# wrong result at step %d (%s) of the case: equation %d of the system is violated (%s)\n" % (si, c.steps[si][0], eq, conf),
                     "%s through the LU factorization does not satisfy the system exactly (%dx%d, %s, step %d, %s; equation %d: %s)" %
                     ("ftran" if kind == "FT" else "btran", n, n, getattr(c, "kind", "small"), si, what, eq, conf), match=dict(kind="solve-wrong"))
    if len(pybad) > 40:
        bump("solve-wrong/not-reported-individually", len(pybad) - 40)
    # (2) the verified judgements, cheap queries first, under the budget
    # update replays on dense / fractional matrices of dimension > 16 are expensive in the extracted arithmetic: a sample of them
    cheap = [u for u in updq if int(u.split(None, 4)[3]) <= 16 or updmeta[u.split(None, 2)[1]][0].kind == "hist-bandsparse"]
    costly = [u for u in updq if not (int(u.split(None, 4)[3]) <= 16 or updmeta[u.split(None, 2)[1]][0].kind == "hist-bandsparse")]
    costly.sort(key=len)
    keep = costly[:(600 if T else 50)] + costly[-(40 if T else 3):]
    bump("update-replay/not-replayed(sampled-out)", len(costly) - len(set(keep)))
    updq = cheap + list(dict.fromkeys(keep))
    kept_ids = set(u.split(None, 2)[1] for u in updq)
    updmeta = {k: v for k, v in updmeta.items() if k in kept_ids}
    # factorization replays of large dense matrices with fractional entries are expensive in the extracted arithmetic (n^3/3 reduced
    # rational operations on growing numbers): all replays of dimension <= 16, all sparse ones and all dense INTEGER matrices
    # (kind dense-int: dense kernel of more than 25 rows) are run, of the other costly ones the cheapest few
    def lu_cost(u):
        m = lumeta[u.split(None, 2)[1]]
        if m[0] != "lu":
            return 0
        n = m[-1]
        nnz = sum(1 for l in u.split("\n") if l.startswith("R ") for t in l.split()[1:] if t != "0")
        return n * nnz if n > 16 else 0
    lu_costly = [u for u in luq if lu_cost(u) > 12000 and getattr(lumeta[u.split(None, 2)[1]][1], "kind", "") != "dense-int"]
    lu_costly.sort(key=lu_cost)
    lu_drop = set(u.split(None, 2)[1] for u in lu_costly[(40 if T else 4):])
    bump("lu-replay/not-replayed(sampled-out,dense-fractional)", len(lu_drop))
    luq = [u for u in luq if u.split(None, 2)[1] not in lu_drop]
    lumeta = {k: v for k, v in lumeta.items() if k not in lu_drop}
    allq = qlist + updq + luq
    cans, missing = budget_model_queries(allq, M, BUDGET, per_chunk=(300 if T else 100))
    print("# component model %.1fs, %d queries, %d unanswered" % (time.time() - t1, len(allq), len(missing)), file=sys.stderr)
    ck.cov["judgements_not_finished_within_budget"] = len(missing)
    # a handful of very costly exact judgements (dense matrices of dimension 60 and more) may not finish: they are counted as
    # not judged in the evidence; only when more than 1 % stay unanswered (a judge that hangs or died) the tie counts as broken
    if missing and len(missing) * 100 > len(allq):
        bump("model/unanswered-within-budget", len(missing))
        m0 = missing[0]
        c0 = (qmeta.get(m0) or updmeta.get(m0) or lumeta.get(m0)[1:])[0]
        ck.violation("budget_%s.txt" % m0, c0.text(), "%d of %d judgements by the extracted checkers (first: %s, %s) did not finish within the time budget of %d s: "
                     "the correspondence h_fac <-> verified checkers (check_ftran / check_btran / check_repr / update) could not be established for them"
                     % (len(missing), len(allq), m0, getattr(c0, "kind", "small"), BUDGET), no_input=not ck.violations, match=dict(kind="model-budget"))
    nsolve = 0
    nrepr = [0]
    for qid, (c, what, c_sing, mode, opidx, kinds) in qmeta.items():
        a = cans.get(qid)
        if a is None and qid in missing:
            continue
        if mode == "repr":
            n = len(c.steps[0][1])
            if not a or a[0] not in ("0", "1"):
                ck.violation("model_%s.txt" % qid, c.text(), "model driver gave no answer for representation query %s (%s)" % (qid, a), no_input=True)
                continue
            bump("repr/check_repr=%s" % a[0])
            nrepr[0] += 1
            if a[0] != "1":
                ck.violation("repr_%s.txt" % qid, c.text() + "# at: %s\n" % what,
                             "the dumped factor_work does not represent the inverse of the current %dx%d matrix (extracted check_repr fails; %s)" % (n, n, what),
                             match=dict(kind="repr-wrong"))
            for f, k, si in zip(a[1:], kinds, opidx):
                bump("repr/solve-%s/%s" % (k, "same" if f == "1" else "DIFFERENT"))
                if f != "1":
                    ck.violation("corr_repr_%s.txt" % qid, c.text() + "# step %d (%s)\n" % (si, c.steps[si][0]),
                                 "correspondence Factor.%s vs mpq_ILLfactor_%s broke: the walk of the extracted model over the dumped representation gives another vector (%dx%d, step %d)"
                                 % ("ftran" if k == "FT" else "btran", "ftran" if k == "FT" else "btran", n, n, si), no_input=True, match=dict(kind="corr-repr"))
            continue
        if not a or a[0] not in ("S", "N", "X", "?"):
            ck.violation("model_%s.txt" % qid, c.text(), "model driver gave no answer for %s (%s)" % (qid, a), no_input=True)
            continue
        n = len(c.steps[0][1])
        ck.count(("comp", qid, c.lines[1], c.lines[2] if len(c.lines) > 2 else ""), nontrivial=(a[0] != "S"))
        if c_sing is not None and mode != "-":
            m_sing = a[0] == "S"
            bump("singularity/%s/%s/verified=%s,C=%s" % ("factor" if what == "FACTOR" else "update", "elimination" if mode == "I" else "certificate", a[0], "S" if c_sing else "N"))
            if a[0] == "X":
                ck.violation("cert_%s.txt" % qid, c.text(), "internal: the null vector certificate was rejected by the extracted checker", no_input=True)
                continue
            if m_sing and not c_sing:
                ck.violation("singular_missed_%s.txt" % qid, c.text() + "# at: %s (op %s)\n" % (what, opidx),
                             "a singular %dx%d matrix was not reported singular (%s)" % (n, n, what), match=dict(kind="singular-not-reported"))
                continue
            if c_sing and not m_sing:
                ck.violation("singular_false_%s.txt" % qid, c.text() + "# at: %s\n" % what,
                             "a non-singular %dx%d matrix was reported singular (%s)" % (n, n, what), match=dict(kind="nonsingular-reported-singular"))
                continue
        elif c_sing is not None:
            bump("singularity/large-nonsingular-claim-judged-by-solves")
        flags = a[1:]
        for f, k, si in zip(flags, kinds, opidx):
            nsolve += 1
            bump("solve/%s/%s" % (k, "ok" if f == "1" else "WRONG"))
            if f != "1":
                ck.violation("solve_%s.txt" % qid, c.text() + "# wrong result at step %d (%s) of the case\n" % (si, c.steps[si][0]),
                             "%s through the LU factorization does not satisfy the system exactly (%dx%d, %s, step %d)" % ("ftran" if k == "FT" else "btran", n, n, getattr(c, "kind", "small"), si),
                             match=dict(kind="solve-wrong"))
        if len(ck.cov["samples"]) < 6 and a[0] != "S" and flags:
            ck.sample(dict(kind=getattr(c, "kind", "exhaustive-small"), n=n, script_head=[l[:160] for l in c.lines[:6]], checks=len(flags)))
    # (3) the update replays: extracted update_spike / update on the dump before vs the library's next dump
    nupd_ok = 0
    for uq, (c, si, how, rv) in updmeta.items():
        a = cans.get(uq)
        if a is None and uq in missing:
            continue
        n = len(c.steps[0][1])
        if not a or len(a) < 7 or a[0] not in ("0", "1"):
            ck.violation("model_%s.txt" % uq, c.text(), "model driver gave no answer for update replay %s (%s)" % (uq, a), no_input=True)
            continue
        f1, f2, o1, f4, o2, f6, f7 = a[:7]
        bump("update-replay/%s/n%s/struct_ok=%s,spike=%s,model=%s%s,same=%s,solves=%s,struct_ok_after=%s" % (how, "<=16" if n <= 16 else ("<=40" if n <= 40 else ">40"), f1, f2, o1, o2, f4, f6, f7))
        head = c.text() + "# update at step %d (FUPD %d ..), library rv %d\n" % (si, c.steps[si][1][0], rv)
        if f1 != "1" or f7 == "0":
            ck.violation("struct_%s.txt" % uq, head, "the dumped factor_work violates the structural invariant struct_ok (permutations / triangular U / pivot first / row form = column form) %s the update at step %d (%dx%d)"
                         % ("before" if f1 != "1" else "after", si, n, n), match=dict(kind="struct-wrong"))
            continue
        if f2 != "1":
            ck.violation("corr_spike_%s.txt" % uq, head, "correspondence FTUpdate.spike vs the upd vector of mpq_ILLfactor_ftran_update broke (step %d, %dx%d)" % (si, n, n), no_input=True, match=dict(kind="corr-update"))
            continue
        if how == "accepted":
            if o1 != "S" or o2 != "S":
                ck.violation("upd_refused_%s.txt" % uq, head, "mpq_ILLfactor_update accepted a column replacement that the verified model refuses as singular (update_none_singular; step %d, %dx%d)" % (si, n, n),
                             match=dict(kind="update-singular-accepted"))
            elif f4 != "1" or f6 != "1":
                ck.violation("corr_update_%s.txt" % uq, head, "correspondence FTUpdate.update vs mpq_ILLfactor_update broke: the library's factor_work after the update is not the one the extracted update computes "
                             "from the dump before it (entries: %s, solves on unit vectors: %s; step %d, %dx%d; by update_preserves the model's result represents the new matrix)" % (f4, f6, si, n, n),
                             match=dict(kind="corr-update"))
            else:
                nupd_ok += 1
        else:
            if o1 != "N" or o2 != "N":
                ck.violation("upd_singular_%s.txt" % uq, head, "mpq_ILLfactor_update refused (rv %d) a column replacement that the verified model accepts (the new matrix is non-singular by update_some_iff_nonsingular; step %d, %dx%d)" % (rv, si, n, n),
                             match=dict(kind="update-false-singular"))
            else:
                nupd_ok += 1
    ck.cov["update_replays_agreeing"] = nupd_ok
    # (4) the factorization replays: extracted lu_factor with the pivot order of the dump vs the dump, and the singular reports
    nlu_ok, nlu_dense, nsing_ok = 0, 0, 0
    for lq, meta in lumeta.items():
        a = cans.get(lq)
        if a is None and lq in missing:
            continue
        kind, c = meta[0], meta[1]
        if kind == "lu":
            _, _, what, opidx, kinds, hdr, n = meta
            dk = "dense-kernel" if hdr.get("dense_base", -1) >= 0 else "sparse-only"
            if dk == "dense-kernel":
                big = hdr.get("nstages", n) - hdr.get("dense_base", 0) > 25
                dk += ">25rows" if big else "<=25rows"
            ncls = "n<=3" if n <= 3 else ("n<=16" if n <= 16 else ("n<=40" if n <= 40 else "n>40"))
            head = c.text() + "# factorization: %s; dump header %s\n" % (what, hdr)
            if not a or a[0] not in ("S", "N") or (a[0] == "S" and len(a) < 4):
                ck.violation("model_%s.txt" % lq, c.text(), "model driver gave no answer for factorization replay %s (%s)" % (lq, a), no_input=True)
                continue
            if a[0] == "N":
                bump("lu-replay/%s/%s/model-refuses-pivot-order" % (dk, ncls))
                ck.violation("lu_pivot_%s.txt" % lq, head, "the pivot order (rperm, cperm) of the factor_work after mpq_ILLfactor is refused by the verified elimination lu_factor "
                             "(a pivot is zero in exact arithmetic, or rperm / cperm are not permutations; %dx%d, %s)" % (n, n, what), match=dict(kind="corr-lu"))
                continue
            same, detail, walk, flags = a[1], a[2], a[3], a[4:]
            solves_ok = all(f == "1" for f in flags)
            bump("lu-replay/%s/%s/same=%s,walk=%s,solves=%s" % (dk, ncls, same, walk, "ok" if solves_ok else "DIFFERENT"))
            if same != "1" or walk != "1":
                parts = [nm for nm, b in zip(["U by columns", "U by rows", "L etas (columns)", "L by rows", "permutations"], detail) if b != "1"]
                ck.violation("corr_lu_%s.txt" % lq, head,
                             "correspondence LUFactor.lu_factor vs mpq_ILLfactor broke: with the library's own pivot order the verified elimination produces another factor_work "
                             "(differs in: %s; same solves on unit vectors: %s; %dx%d, %s, %s); by lu_factor_represents the model's result represents the matrix" %
                             (", ".join(parts) or "-", walk, n, n, what, dk), match=dict(kind="corr-lu"))
                continue
            if not solves_ok:
                bad = [si for f, si in zip(flags, opidx) if f != "1"]
                ck.violation("corr_lu_solve_%s.txt" % lq, head + "# steps %s\n" % bad,
                             "the library's ftran / btran results differ from the solves through the verified factorization lu_factor (steps %s; %dx%d, %s)" % (bad, n, n, what),
                             match=dict(kind="corr-lu"))
                continue
            nlu_ok += 1
            if dk.startswith("dense-kernel>25"):
                nlu_dense += 1
        elif kind == "topo":
            _, _, sis, n = meta
            if not a or len(a) != len(sis):
                ck.violation("model_%s.txt" % lq, c.text(), "model driver gave no answer for the order check %s (%s)" % (lq, a), no_input=True)
                continue
            for f, si in zip(a, sis):
                bump("solve-order/ftran-listed-order-topological=%s/%s" % (f, "n<=20" if n <= 20 else "n>20"))
                if f != "1":
                    ck.violation("order_%s_%d.txt" % (c.cid, si), c.text() + "# step %d\n" % si,
                                 "the order in which mpq_ILLfactor_ftran lists its result is not a topological order of the dumped U (a column handled later has an entry in the pivot row of a "
                                 "column handled before it): the premise of ftranu_order_irrelevant fails for the U pass (%dx%d, step %d)" % (n, n, si), match=dict(kind="solve-order"))
        elif kind == "lusing":
            _, _, nsing, singr, singc, hdr, n, hasx = meta
            head = c.text() + "# singular report: nsing %d rows %s columns %s; %s\n" % (nsing, singr, singc, hdr)
            if not a or len(a) < 3:
                ck.violation("model_%s.txt" % lq, c.text(), "model driver gave no answer for singular report %s (%s)" % (lq, a), no_input=True)
                continue
            cert, pre, ker = a[:3]
            dkk = "sparse-only"
            if hdr.get("dense_base", -1) >= 0:
                dkk = "dense-kernel>25rows" if hdr.get("nstages", 0) - hdr.get("dense_base", 0) > 25 else "dense-kernel<=25rows"
            bump("sing-report/%s/cert=%s,prefix=%s,kernel-zero=%s" % (dkk, cert, pre, ker))
            if cert == "0":
                ck.violation("sing_cert_%s.txt" % lq, head, "the report of the singular factorization is not exact: the certificate for (repaired matrix non-singular, rows singc of its "
                             "inverse are left null vectors of B) is rejected by the extracted check_sing_report (%dx%d, nsing %d)" % (n, n, nsing), match=dict(kind="sing-report"))
            elif pre != "S" or ker != "1":
                ck.violation("sing_kernel_%s.txt" % lq, head, "the pivots made before mpq_ILLfactor stopped (ranks < stage) %s (%dx%d, nsing %d)" %
                             ("are refused by the verified elimination" if pre != "S" else "do not leave a zero kernel on the reported rows x columns in the verified elimination", n, n, nsing),
                             match=dict(kind="sing-report"))
            elif cert == "1":
                nsing_ok += 1
        else:
            _, _, nsing, singr, singc, hdr, n, _ = meta
            bump("sing-report/repaired-matrix-singular/verified=%s" % (a[0] if a else "?"))
            if a and a[0] == "S":
                ck.violation("sing_repair_%s.txt" % lq, c.text() + "# singular report: nsing %d rows %s columns %s\n" % (nsing, singr, singc),
                             "mpq_ILLfactor names too few (or the wrong) singular columns: the matrix with the reported columns replaced by the unit columns of the reported rows "
                             "is still singular (verified; %dx%d, nsing %d)" % (n, n, nsing), match=dict(kind="sing-report"))
            else:
                ck.violation("sing_repair_%s.txt" % lq, c.text(), "internal: python finds the repaired matrix singular, the verified judge does not (%s)" % a, no_input=True)
    ck.cov["factorization_replays_agreeing"] = nlu_ok
    ck.cov["factorization_replays_dense_kernel_over_25_rows"] = nlu_dense
    ck.cov["singular_reports_certified"] = nsing_ok
    if not pr["ok"]:
        ck.violation("proof.txt", pr["log"], "proof obligation(s) of Properties_C13.v no longer check: %s" % pr["failed"], no_input=not ck.violations)
    ck.cov["rule"] = ("A: LPs (planted, random, degenerate, Beale, near-parallel; <= 9x11 quick) solved by mpq_QSopt_primal/dual under random pricing/scaling, also stopped at an iteration limit and resumed, "
                      "then sequences of mpq_QSopt_pivotin_row/col; sparse 60x90 integer LPs: solve, new objective, re-solve, bound changes, re-solve on one object; after each: basis order + every "
                      "(big LPs: a sample of the) binv rows + tableau rows judged by the extracted check_binv_row / check_tableau_row against the basis matrix assembled from the internal LP dump.  "
                      "B: mpq_ILLfactor* driven directly: all 2x2 and 40000 (thorough) / 5000 sampled 3x3 matrices over {-1,0,1,2}; structured matrices "
                      "(permuted triangular, dense block, singletons, near-singular 2^-k, rank-deficient, sparse, dense, arrow; n <= 40 quick / 80 thorough; random DENSE_MIN, P, MAX_K, space multipliers); "
                      "dense integer matrices 30..40 (dense kernel > 25 rows); update histories (<= 30 column replacements: sparse/dense/unit columns, copies and combinations of columns, zero columns; "
                      "small ETAMAX and eta space to force refactorization); 0/+-1 band matrices of dimension 45..80 with 8-16 sparse replacements (sparse path of ILLfactor_update with exact cancellations); "
                      "after each factor/update ftran/btran of unit, sparse and dense vectors judged by extracted check_ftran/check_btran; singularity compared with the verified elimination.  "
                      "C: the struct factor_work is dumped after every factorization and update (n <= 80): extracted struct_ok on every dump, check_repr + model walk for n <= 16 (and the first dump of some large "
                      "histories), and for every ILLfactor_update between two dumps the extracted update_spike (with the library's spike) / update (own spike) applied to the dump before: the result must equal the "
                      "dump after (lines as pivot + set of entries, row etas as sets, permutations) and solve alike; refused updates (E_UPDATE_SINGULAR_*) must be refused by the model.  "
                      "D: after every mpq_ILLfactor (FACTOR, refactorization inside FUPD, REVERT) the pivot order is read off the dumped permutations (rperm, cperm in rank order) and the extracted "
                      "lu_factor (Fac/LUFactor.v: Gaussian elimination with that order, proved to represent the matrix for every order it accepts) runs on the input matrix: its result must equal the dump "
                      "(U by columns / rows as pivot + set of entries, L etas and L by rows as sets, permutations, no row etas: repr_same_lu) and its ftran / btran must equal the library's result vectors; "
                      "the header field dense_base (-1 <=> dense_factor did not run; set by the harness before the call) says which replays went through the dense kernel.  A factorization that reports "
                      "nsing > 0 is dumped too (permutations, stage, nstages): the report must be the range stage..nstages of the permutations; an untrusted inverse X of the repaired matrix (reported columns := unit "
                      "columns of the reported rows) is checked by the extracted check_sing_report (X multiplies back, its rows singc are left null vectors of B: sing_report_sound), and the extracted "
                      "elimination with the pivots of rank < stage must leave a zero kernel on the reported rows x columns.  Dense fractional matrices of dimension > 16 are sampled for the replay (cost).  "
                      "E: mpq_ILLfactor_ftran lists its result in the order in which its last phase (ftranu / the depth-first ftranu3) handled the columns with a non-zero value: the extracted "
                      "listed_order_ok (= triP, the premise of ftranu_order_irrelevant in Fac/TopoOrder.v) is evaluated on every listing against the dumped U.  "
                      "All model runs are under a wall-clock budget; every solve is first screened by an untrusted exact multiply-back, a failing equation is confirmed by the extracted checker.  "
                      "non-trivial = non-singular matrix with at least one judged solve, or a singularity verdict; distinct by script text")
    ck.cov["histogram"] = dict(sorted(hist.items()))
    ck.cov["tableau_rows_judged"] = nrows_judged
    ck.cov["solves_judged"] = nsolve
    ck.cov["representations_checked"] = nrepr[0]
    ck.cov["exhaustive_small_matrices"] = n_exh
    ck.cov["exhaustive"] = bool(T)
    ck.cov["evaluations"] = len(cases) + len(comp)
    ck.cov["crashes_seen"] = [dict(case=c_, rc=rc) for c_, rc, e in crashes + ccr]
    ck.cov["not_covered"] = ("the pivot SEARCH of ILLfactor (find_pivot: singleton lists, Markowitz counts, partial pivoting threshold; dense_find_pivot) is not modelled: the elimination is proved and replayed for "
                             "whatever pivot order the library produced; that the search finds a non-zero pivot whenever one exists is tied only through the singular reports (certified exact) and the "
                             "exhaustive small matrices; the space management (make_ur/uc/lc_space, eta space, refactor requests, E_UPDATE_NOSPACE) is explored, not proved; the order of the entries inside "
                             "a U line / an eta is not modelled (compared as sets); the work-list bookkeeping of the sparse solve variants (delay counters, depth-first recursion) is not modelled: proved is that any topological order with inert skipped nodes gives the dense result, observed (and checked) is the listing order of ftran only; factorization replays of dense fractional matrices of dimension 17..40 are sampled; the sparse "
                             "path of ILLfactor_update (serow_process) is tied to the proved dense-path model by values only; update replays on dense fractional matrices of dimension 17..40 are sampled; "
                             "after a solve stopped at an iteration limit the library refuses tableau queries (no cache), so intermediate bases are observed through pivotin sequences and resumed solves only")
    # only the first 20 violations are printed: interleave the kinds (first of every kind, then the second of every kind, ...)
    groups = {}
    for v in ck.violations:
        groups.setdefault(re.sub(r"[0-9]+", "", v[1])[:40], []).append(v)
    ck.violations = [g[i] for i in range(max((len(g) for g in groups.values()), default=0)) for g in groups.values() if i < len(g)]
    ck.assumptions = ["Coq kernel; extraction (ExtrOcamlBasic) + OCaml compiler", "harness h_fac + text protocol", "GMP = exact rational arithmetic"]
    ck.finish(trusted_base=["coqc 8.16.1 kernel", "OCaml extraction (ExtrOcamlBasic only)", "harness h_fac.c + checks/C13.py + checks/fac_common.py"])


main_guard(main)
