#!/usr/bin/env python3
"""C13  LU-based solves are exact: B^-1 B = I for every basis and update history."""
import sys, os, itertools
sys.path.insert(0, os.path.dirname(os.path.abspath(__file__)))
from lib import *
from gen_lp import *
from solve_common import STATUS, PPRICE, DPRICE
from fac_common import *


def model_queries(qs, M, jobs=16):
    from concurrent.futures import ThreadPoolExecutor
    if not qs:
        return {}
    n = max(1, min(jobs, len(qs) // 50 + 1))
    chunks = [qs[i::n] for i in range(n)]
    ans = {}
    with ThreadPoolExecutor(max_workers=n) as ex:
        for a in ex.map(lambda ch: run_model("drv_fac", "M %s\n" % M + "\n".join(ch) + "\n"), chunks):
            ans.update(a)
    return ans


# ----------------------------------------------------------------------------- public level

def public_cases(rng, T):
    lps = []
    n = 260 if T else 36
    for i in range(n):
        r = i % 6
        if r == 0:
            lp = planted_lp(rng, rng.randint(2, 9), rng.randint(2, 11), rng.choice(["small", "frac"]), name="tp%d" % i)
        elif r == 1:
            lp = random_lp(rng, rng.randint(2, 8), rng.randint(2, 10), rng.choice(["small", "frac"]), name="tr%d" % i)
        elif r == 2:
            lp = degenerate(rng, k=rng.randint(1, 3), name="td%d" % i)
        elif r == 3:
            lp = beale("tb%d" % i) if rng.random() < 0.3 else face_only(rng, name="tf%d" % i)
        elif r == 4:
            lp = planted_lp(rng, rng.randint(6, 14) if T else rng.randint(5, 9), rng.randint(6, 16) if T else rng.randint(5, 11), "small", name="tP%d" % i)
        else:
            lp = near_parallel(rng, rng.choice([2, 10, 30]), name="tn%d" % i)
        if model_weight(lp) <= 4 * MODEL_WEIGHT_LIMIT:
            lps.append(lp)
    cases, meta = [], {}
    for li, lp in enumerate(lps):
        nc, m = len(lp["cols"]), len(lp["rows"])
        for variant in range(3 if T else 2):
            cid = "t%d.%d" % (li, variant)
            entry = rng.choice(["PRIMAL", "DUAL"])
            s = ["CASE " + cid, lp_block(lp), "DUMP", "PARAM 0 %d" % rng.choice(PPRICE), "PARAM 2 %d" % rng.choice(DPRICE)]
            if variant == 1:
                # stop at an iteration limit (scaling off, otherwise the limit is not in force), look, then finish
                s += ["PARAM 7 0", "PARAM 5 %d" % rng.randint(1, 25 if T else 8), "SOLVE " + entry, "ITCNT", "GETBASIS", "TABLEAU",
                      "PARAM 5 500000", "SOLVE " + entry, "ITCNT", "GETBASIS", "TABLEAU"]
            else:
                s += ["PARAM 7 %d" % rng.choice([0, 1]), "SOLVE " + entry, "ITCNT", "GETBASIS", "TABLEAU"]
            for _ in range(rng.randint(1, 6 if T else 4)):
                if rng.random() < 0.6 and nc:
                    k = rng.randint(1, min(nc, 4))
                    s.append("PIVCOL %d %s" % (k, " ".join(str(j) for j in rng.sample(range(nc), k))))
                elif m:
                    k = rng.randint(1, min(m, 3))
                    s.append("PIVROW %d %s" % (k, " ".join(str(j) for j in rng.sample(range(m), k))))
                s += ["GETBASIS", "TABLEAU"]
            cases.append((cid, "\n".join(s) + "\n"))
            meta[cid] = lp
    return cases, meta


def tableau_blocks(fo):
    """[(index of block, basis line or None, BORDER line, [(BINV, TROW)])] in script order"""
    out, basis, i = [], None, 0
    ops = fo.ops
    failed = False
    while i < len(ops):
        t = ops[i]
        if t[0] == "BASIS":
            basis = ("FAILED-PIVOT",) if failed else t
        elif t[0] in ("PIVCOL", "PIVROW"):
            # a failed call stops half way: the factorization moved on, mpq_QSget_basis is not refreshed (observation, not judged here)
            failed = failed or t[1] != "0"
        elif t[0] == "SOLVE":
            basis, failed = None, False
        elif t[0] == "BORDER":
            rows = []
            j = i + 1
            while j + 1 < len(ops) and ops[j][0] == "BINV" and ops[j + 1][0] == "TROW":
                rows.append((ops[j], ops[j + 1]))
                j += 2
            out.append((len(out), basis, t, rows))
            i = j
            continue
        i += 1
    return out


# ----------------------------------------------------------------------------- component level

def q(x):
    return qs(F(x))


def mat_cols(rows):
    n = len(rows)
    return [{i: rows[i][j] for i in range(n) if rows[i][j] != 0} for j in range(n)]


def fcol_lines(cols):
    return ["FCOL %d %d %s" % (j, len(c), " ".join("%d %s" % (i, q(v)) for i, v in sorted(c.items()))) for j, c in enumerate(cols)]


def svec(v):
    """dense list -> '<cnt> (<idx> <val>)*' of the non-zeros"""
    nz = [(i, x) for i, x in enumerate(v) if x != 0]
    return "%d %s" % (len(nz), " ".join("%d %s" % (i, q(x)) for i, x in nz))


def rand_vec(rng, n, kind):
    if kind == "unit":
        v = [F(0)] * n
        v[rng.randrange(n)] = F(1)
        return v
    if kind == "sparse":
        v = [F(0)] * n
        for _ in range(rng.randint(1, max(1, n // 8))):
            v[rng.randrange(n)] = F(rng.randint(-5, 5), rng.randint(1, 4))
        return v
    return [F(rng.randint(-4, 4), rng.randint(1, 3)) for _ in range(n)]


def structured_matrix(rng, n):
    kind = rng.choice(["tri", "tri", "block", "single", "near", "rankdef", "sparse", "sparse", "dense", "arrow"])
    Z = lambda: [[F(0)] * n for _ in range(n)]
    A = Z()
    rp, cp = list(range(n)), list(range(n))
    rng.shuffle(rp); rng.shuffle(cp)
    val = lambda: F(rng.choice([-3, -2, -1, 1, 2, 3, 5]), rng.choice([1, 1, 1, 2, 3]))
    if kind == "tri":
        for i in range(n):
            A[rp[i]][cp[i]] = val()
            for j in range(i):
                if rng.random() < min(0.5, 3.0 / n):
                    A[rp[i]][cp[j]] = val()
    elif kind == "block":
        k = rng.randint(2, max(2, min(n, 12)))
        for i in range(n):
            A[rp[i]][cp[i]] = val()
        for i in range(k):
            for j in range(k):
                if rng.random() < 0.8:
                    A[rp[i]][cp[j]] = val()
        for _ in range(n // 2):
            A[rng.randrange(n)][rng.randrange(n)] = val()
    elif kind == "single":
        for i in range(n):
            A[rp[i]][cp[i]] = val()
        for _ in range(rng.randint(0, 3)):
            A[rng.randrange(n)][rng.randrange(n)] = val()
    elif kind == "near":
        for i in range(n):
            for j in range(n):
                if rng.random() < min(0.6, 4.0 / n) or i == j:
                    A[i][j] = val()
        if n >= 2:
            a, b = rng.sample(range(n), 2)
            eps = F(1, 2 ** rng.choice([1, 20, 70, 200]))
            A[b] = [x for x in A[a]]
            A[b][rng.randrange(n)] += eps
    elif kind == "rankdef":
        for i in range(n):
            for j in range(n):
                if rng.random() < min(0.6, 4.0 / n) or i == j:
                    A[i][j] = val()
        how = rng.choice(["duprow", "dupcol", "zerorow", "zerocol", "comb"])
        if n >= 2:
            a, b = rng.sample(range(n), 2)
            if how == "duprow":
                A[b] = [x * 2 for x in A[a]]
            elif how == "dupcol":
                for i in range(n):
                    A[i][b] = -A[i][a]
            elif how == "zerorow":
                A[a] = [F(0)] * n
            elif how == "zerocol":
                for i in range(n):
                    A[i][a] = F(0)
            else:
                c = rng.randrange(n)
                A[b] = [x + 3 * y for x, y in zip(A[a], A[c])] if c not in (a, b) else [x * 1 for x in A[a]]
    elif kind == "sparse":
        d = rng.choice([1.5, 2.5, 4.0]) / n
        for i in range(n):
            A[rp[i]][cp[i]] = val() if rng.random() < 0.9 else F(0)
            for j in range(n):
                if rng.random() < d:
                    A[i][j] = val()
    elif kind == "dense":
        for i in range(n):
            for j in range(n):
                if rng.random() < 0.85:
                    A[i][j] = val()
    else:  # arrow: dense first row and column + diagonal
        for i in range(n):
            A[i][i] = val(); A[0][i] = val(); A[i][0] = val()
    return kind, A


def fparams(rng):
    p = []
    if rng.random() < 0.6:
        p += ["17", str(rng.choice([2, 3, 5, 10, 25]))]          # DENSE_MIN
    if rng.random() < 0.3:
        p += ["d16", rng.choice(["1/100", "1/4", "9/10"])]       # DENSE_FRACT
    if rng.random() < 0.3:
        p += ["2", str(rng.choice([1, 2, 4, 8]))]                # P
    if rng.random() < 0.3:
        p += ["1", str(rng.choice([2, 5, 50]))]                  # MAX_K
    if rng.random() < 0.3:
        p += ["d8", rng.choice(["1", "11/10", "3"])]             # UC_SPACE_MUL
    if rng.random() < 0.3:
        p += ["d7", rng.choice(["1", "2"])]                      # UR_SPACE_MUL
    if rng.random() < 0.3:
        p += ["d9", rng.choice(["1", "11/10"])]                  # LC_SPACE_MUL
    return p


class CompCase:
    """one component-level script with the bookkeeping needed to judge it afterwards"""
    def __init__(self, cid):
        self.cid = cid
        self.lines = ["CASE " + cid]
        self.steps = []        # (kind, payload) in op order, aligned with output lines

    def text(self):
        return "\n".join(self.lines) + "\n"


def component_static(cid, rng, A, params, nsolves):
    """FACTOR + solves of one matrix"""
    n = len(A)
    c = CompCase(cid)
    c.lines.append("FNEW %d %s" % (n, " ".join(params)))
    c.lines += fcol_lines(mat_cols(A))
    c.lines.append("FACTOR")
    c.steps.append(("FACTOR", [r[:] for r in A]))
    if n <= REPR_LIMIT:
        c.lines.append("FDUMP")
        c.steps.append(("FDUMP", None))
    for k in range(nsolves):
        kind = ["unit", "dense", "sparse"][k % 3]
        v = rand_vec(rng, n, kind)
        op = "FTRAN" if (k // 3) % 2 == 0 else "BTRAN"
        c.lines.append("%s %s" % (op, svec(v)))
        c.steps.append((op, v))
    return c


def component_history(cid, rng, A, params, nupd):
    """FACTOR, then a sequence of column replacements, solves after each"""
    n = len(A)
    c = CompCase(cid)
    c.lines.append("FNEW %d %s" % (n, " ".join(params)))
    c.lines += fcol_lines(mat_cols(A))
    c.lines.append("FACTOR")
    c.steps.append(("FACTOR", [r[:] for r in A]))
    if n <= REPR_LIMIT:
        c.lines.append("FDUMP")
        c.steps.append(("FDUMP", None))
    for u in range(nupd):
        col = rng.randrange(n)
        how = rng.choice(["sparse", "sparse", "dense", "unit", "copy", "comb", "same", "zero"])
        if how == "copy":
            # copy of another column of the ORIGINAL matrix: singular if that column is still in place
            o = rng.randrange(n)
            v = [A[i][o] for i in range(n)]
        elif how == "comb":
            o, o2 = rng.randrange(n), rng.randrange(n)
            v = [A[i][o] * 2 - A[i][o2] for i in range(n)]
        elif how == "same":
            v = [A[i][col] * F(rng.choice([1, -2, 1]), rng.choice([1, 3])) for i in range(n)]
        elif how == "zero":
            v = [F(0)] * n
            if rng.random() < 0.5:
                v[rng.randrange(n)] = F(1)
        else:
            v = rand_vec(rng, n, how)
        if all(x == 0 for x in v) and rng.random() < 0.8:
            v[rng.randrange(n)] = F(2)
        c.lines.append("FUPD %d %s" % (col, svec(v)))
        c.steps.append(("FUPD", (col, v)))
        if n <= REPR_LIMIT:
            c.lines.append("FDUMP")
            c.steps.append(("FDUMP", None))
        for k in range(2):
            w = rand_vec(rng, n, rng.choice(["unit", "dense", "sparse"]))
            op = rng.choice(["FTRAN", "BTRAN"])
            c.lines.append("%s %s" % (op, svec(w)))
            c.steps.append((op, w))
    return c


REPR_LIMIT = 16         # the representation (struct factor_work) is dumped and run through the extracted model up to this dimension
INVERSE_LIMIT = 12      # the verified elimination decides singularity up to this dimension; beyond it certificates are used


def judge_component(ck, c, toks, qlist, qmeta, hist):
    """replay the bookkeeping of case c against its output lines; append model queries.
    One query per matrix state: the matrix, C's singularity claim for it (if any) and the solves made with it."""
    ops, dumps, curd = [], [], None
    for t in toks:
        if t[0] == "FDUMP":
            curd = [t]
            if len(t) > 1 and t[1] == "none":
                ops.append(("FDUMPBLOCK", None))
                curd = None
        elif curd is not None:
            curd.append(t)
            if t[0] == "FDUMPEND":
                ops.append(("FDUMPBLOCK", "\n".join(" ".join(x) for x in curd)))
                curd = None
        elif t[0] in ("FACTOR", "FTRAN", "BTRAN", "FUPDX", "FUPD"):
            ops.append(t)
    it = iter(ops)
    st = dict(cur=None, claim=None, what="", checks=[], idx=[], nq=0, dump=None)

    def bump(k):
        hist[k] = hist.get(k, 0) + 1

    def flush():
        """emit the query for the current matrix state"""
        mat, claim = st["cur"], st["claim"]
        if mat is None or (not st["checks"] and claim is None):
            st["checks"], st["idx"], st["claim"] = [], [], None
            return
        n = len(mat)
        qid = "%s.%d" % (c.cid, st["nq"])
        st["nq"] += 1
        mode, extra = "-", []
        if claim is not None:
            if n <= INVERSE_LIMIT:
                mode = "I"
            elif claim:
                y = left_null_vector(mat)
                if y is None:
                    mode = "I"              # python disagrees with the library: let the verified elimination decide
                else:
                    mode, extra = "Y", ["Y " + " ".join(q(t) for t in y)]
            else:
                mode = "-"                  # claimed non-singular, large: judged through the solves only
        lines = ["Q %s mat %d %d %s" % (qid, n, len(st["checks"]), mode)]
        lines += ["R " + " ".join(q(x) for x in r) for r in mat] + extra
        for (kind, a, x) in st["checks"]:
            lines.append("%s %s | %s" % (kind, " ".join(q(t) for t in a), " ".join(x)))
        qlist.append("\n".join(lines))
        qmeta[qid] = (c, st["what"], claim, mode, st["idx"], [k for k, _, _ in st["checks"]])
        if st["dump"] is not None:
            # the same solves through the extracted model of the representation (Fac/Factor.v) + check_repr
            rl = ["Q %s.r repr %d %d" % (qid, n, len(st["checks"])), st["dump"]]
            rl += ["R " + " ".join(q(x) for x in r) for r in mat]
            for (kind, a, x) in st["checks"]:
                rl.append("%s %s | %s" % (kind, " ".join(q(t) for t in a), " ".join(x)))
            qlist.append("\n".join(rl))
            qmeta[qid + ".r"] = (c, st["what"], "repr", "repr", st["idx"], [k for k, _, _ in st["checks"]])
        st["checks"], st["idx"], st["claim"] = [], [], None

    def set_matrix(mat, claim, what):
        st["cur"], st["claim"], st["what"], st["dump"] = mat, claim, what, None

    valid = False
    try:
        for si, (kind, payload) in enumerate(c.steps):
            if kind == "FACTOR":
                t = next(it)
                if t[1] != "0" or len(t) < 3 or not t[2].lstrip("-").isdigit():
                    bump("factor/error")
                    ck.violation("factor_err_%s.txt" % c.cid, c.text(), "mpq_ILLfactor failed (%s) on a %dx%d matrix" % (" ".join(t), len(payload), len(payload)), match=dict(kind="factor-error"))
                    return
                nsing = int(t[2])
                bump("factor/" + ("singular" if nsing else "ok"))
                set_matrix(payload, nsing > 0, "FACTOR")
                valid = nsing == 0
                if not valid:
                    flush()
            elif kind == "FDUMP":
                t = next(it)
                if valid and t[1] is not None:
                    st["dump"] = t[1]
            elif kind in ("FTRAN", "BTRAN"):
                t = next(it)
                if not valid or t[1] == "NOFACTOR":
                    continue
                if t[1] != "0":
                    ck.violation("solve_index_%s.txt" % c.cid, c.text(), "%s returned a sparse vector with %s index" % (kind, "an out-of-range" if t[1] == "1" else "a duplicate"), match=dict(kind="solve-index"))
                    continue
                st["checks"].append(("FT" if kind == "FTRAN" else "BT", payload, t[2:]))
                st["idx"].append(si)
            elif kind == "FUPD":
                col, v = payload
                tx = next(it)
                tu = next(it)
                if not valid or tu[1] == "NOFACTOR":
                    continue
                if tx[1] == "0":                # x = B_old^-1 v
                    st["checks"].append(("FT", v, tx[2:]))
                    st["idx"].append(si)
                flush()
                old = st["cur"]
                new = [r[:] for r in old]
                for i in range(len(new)):
                    new[i][col] = v[i]
                rv, refac = int(tu[1]), int(tu[2])
                bump("update/rv=%d,refactor=%d" % (rv, refac))
                if "REFACTOR" in tu:
                    k = tu.index("REFACTOR")
                    frv, fns = tu[k + 1], int(tu[k + 2]) if tu[k + 2].lstrip("-").isdigit() else -1
                    if frv != "0" or fns < 0:
                        ck.violation("factor_err_%s.txt" % c.cid, c.text(), "mpq_ILLfactor failed during refactorization (%s)" % " ".join(tu), match=dict(kind="factor-error"))
                        return
                    set_matrix(new, fns > 0, "REFACTOR after FUPD (update rv %d)" % rv)
                    if fns > 0:
                        bump("update/singular-reverted")
                        flush()
                        if "REVERT" not in tu or tu[tu.index("REVERT") + 1] != "0" or tu[tu.index("REVERT") + 2] != "0":
                            ck.violation("revert_%s.txt" % c.cid, c.text(), "refactorization of the previous (non-singular) matrix failed: %s" % " ".join(tu), match=dict(kind="factor-error"))
                            return
                        set_matrix(old, None, "after REVERT")
                else:
                    set_matrix(new, False, "FUPD accepted without refactorization")
        flush()
    except StopIteration:
        ck.violation("truncated_%s.txt" % c.cid, c.text(), "harness output of case %s is truncated" % c.cid, match=dict(kind="crash"))


def main():
    if len(sys.argv) > 2 and sys.argv[1] == "--replay":
        rc, out, err = run_harness("h_fac", "".join(l for l in open(sys.argv[2]) if not l.startswith("#")), asan=True)
        print(out + err[-2000:])
        sys.exit(0)
    ck = Check("C13", "exploration")
    build_repo()
    pr = ck.proofs()
    T = ck.thorough()
    rng = ck.rng
    hist = {}

    def bump(k, n=1):
        hist[k] = hist.get(k, 0) + n

    # ------------------------------------------------------------------ A. public level
    t1 = time.time()
    cases, meta = public_cases(rng, T)
    M, outs, crashes = run_cases("h_fac", cases, per_case_timeout=120, asan=True)
    scripts = dict(cases)
    for cid, rc, err in crashes:
        ck.violation("crash_%s.txt" % cid, scripts[cid] + "\n# rc=%s\n# %s" % (rc, err[-1500:]), "h_fac (ASan) crashed (rc %s) in tableau case %s" % (rc, cid), match=dict(kind="crash"))
    qs_, want = [], {}
    for cid, toks in outs.items():
        fo = FacOut(toks)
        if not fo.lp_ok or not fo.ilp:
            continue
        ilp = fo.ilp_text()
        nc, m, ns = fo.dims()
        for (bi, basis, border, rows) in tableau_blocks(fo):
            if border[1] != "0":
                bump("tableau/unavailable")
                continue
            ord_ = border[2:]
            # basis order must list exactly the basic variables of mpq_QSget_basis
            if basis is not None and basis[0] == "FAILED-PIVOT":
                bump("tableau/after-failed-pivotin")
            if basis is not None and len(basis) == 3 and basis[0] == "BASIS":
                cs, rs = basis[1], basis[2]
                st = ("" if cs == "-" else cs) + ("" if rs == "-" else rs)
                bset = sorted(j for j, ch in enumerate(st) if ch == "1")
                if sorted(int(h) for h in ord_) != bset:
                    ck.violation("order_%s.%d.txt" % (cid, bi), scripts[cid], "mpq_QSget_basis_order %s does not list the basic variables of mpq_QSget_basis %s %s" % (ord_, cs, rs),
                                 match=dict(kind="basis-order"))
            if len(rows) != m:
                ck.violation("tabrows_%s.%d.txt" % (cid, bi), scripts[cid], "tableau block has %d rows for %d LP rows" % (len(rows), m), no_input=True)
                continue
            qid = "%s.%d" % (cid, bi)
            lines = ["Q %s tab" % qid, ilp, "ORD " + " ".join(ord_)]
            for (b, t) in rows:
                lines.append(" ".join(b))
                lines.append(" ".join(t))
            qs_.append("\n".join(lines))
            want[qid] = (cid, bi, rows)
    ans = model_queries(qs_, M)
    nrows_judged = 0
    for qid, (cid, bi, rows) in want.items():
        a = ans.get(qid)
        lp = meta[cid]
        if not a or a[0] not in ("S", "N"):
            ck.violation("model_%s.txt" % qid, scripts[cid], "model driver gave no answer for tableau block %s (%s)" % (qid, a), no_input=True)
            continue
        flags = a[1:]
        bump("tableau/blocks")
        ck.count(("tab", repr(lp["cols"]), repr(lp["rows"]), tuple(tuple(r[0]) for r in rows)))
        bad = []
        for i in range(len(rows)):
            fb, ft = flags[2 * i], flags[2 * i + 1]
            if fb == "E":
                bump("tableau/row-unavailable")
                continue
            nrows_judged += 1
            if fb != "1" or ft != "1":
                bad.append((i, fb, ft))
        if bad:
            ck.violation("tableau_%s.txt" % qid, scripts[cid] + "# block %d, rows (index, binv ok, tableau ok): %s\n" % (bi, bad),
                         "mpq_QSget_binv_row / mpq_QSget_tableau_row returned rows that do not multiply back (block %d of case %s: %s)" % (bi, cid, bad),
                         match=dict(kind="tableau-wrong"))
        elif a[0] == "S" and all(f == "1" for f in flags):
            ck.violation("tableau_sing_%s.txt" % qid, scripts[cid], "all rows accepted although the model finds the basis matrix singular (contradicts check_binv_all_nonsingular)", no_input=True)
        elif len(ck.cov["samples"]) < 3:
            ck.sample(dict(kind="tableau", lp=lp["name"], basis_order=rows and want[qid][2][0][0][:1], rows=len(rows), script_tail=scripts[cid].splitlines()[-6:]))
    print("# public level %.1fs, %d blocks" % (time.time() - t1, len(want)), file=sys.stderr)

    # ------------------------------------------------------------------ B. component level
    t1 = time.time()
    comp = []
    # B1: 3x3 over {-1,0,1,2}: all (thorough) or a sample (quick); also all 2x2
    vals = (-1, 0, 1, 2)
    space3 = list(itertools.product(vals, repeat=9))
    if not T:
        space3 = rng.sample(space3, 5000)
    small = [[[F(t[0]), F(t[1])], [F(t[2]), F(t[3])]] for t in itertools.product(vals, repeat=4)]
    small += [[[F(t[3 * i + j]) for j in range(3)] for i in range(3)] for t in space3]
    for k, A in enumerate(small):
        comp.append(component_static("x%d" % k, rng, A, ["17", str(rng.choice([2, 25]))] if k % 2 else [], 6))
    n_exh = len(comp)
    # B2: structured matrices
    nstruct = 1500 if T else 140
    for k in range(nstruct):
        n = rng.choice([2, 3, 4, 5, 6, 8, 10, 12, 16, 24, 30, 40] + ([60, 80] if T else []))
        kind, A = structured_matrix(rng, n)
        c = component_static("s%d" % k, rng, A, fparams(rng), 12 if n <= 16 else 8)
        c.kind = kind
        comp.append(c)
    # B3: update histories
    nhist = 3000 if T else 300
    for k in range(nhist):
        n = rng.choice([2, 3, 4, 5, 6, 8, 10, 14, 22] + ([30, 45] if T else []))
        for _ in range(20):
            kind, A = structured_matrix(rng, n)
            if kind not in ("rankdef",):
                break
        params = fparams(rng)
        if rng.random() < 0.5:
            params += ["3", str(rng.choice([1, 2, 3, 5, 10]))]           # ETAMAX: forces refactorization requests
        if rng.random() < 0.25:
            params += ["d11", rng.choice(["1/100", "1/10", "1"])]        # ER_SPACE_MUL: eta space runs out
        c = component_history("h%d" % k, rng, A, params, rng.randint(3, 30 if n <= 10 else 12))
        c.kind = "hist-" + kind
        comp.append(c)
    # group small cases into chunks per process
    byid = {c.cid: c for c in comp}
    ccases = [(c.cid, c.text()) for c in comp]
    _, couts, ccr = run_cases("h_fac", ccases, per_case_timeout=120, asan=True, jobs=16)
    for cid, rc, err in ccr:
        ck.violation("crash_%s.txt" % cid, byid[cid].text() + "\n# rc=%s\n# %s" % (rc, err[-1500:]), "h_fac (ASan) crashed (rc %s) in factor case %s" % (rc, cid), match=dict(kind="crash"))
    print("# component harness %.1fs, %d cases" % (time.time() - t1, len(comp)), file=sys.stderr)
    t1 = time.time()
    qlist, qmeta = [], {}
    for c in comp:
        if c.cid in couts:
            judge_component(ck, c, couts[c.cid], qlist, qmeta, hist)
    cans = model_queries(qlist, M)
    print("# component model %.1fs, %d queries" % (time.time() - t1, len(qlist)), file=sys.stderr)
    nsolve = 0
    nrepr = [0]
    for qid, (c, what, c_sing, mode, opidx, kinds) in qmeta.items():
        a = cans.get(qid)
        if mode == "repr":
            n = len(c.steps[0][1])
            if not a or a[0] not in ("0", "1"):
                ck.violation("model_%s.txt" % qid, c.text(), "model driver gave no answer for representation query %s (%s)" % (qid, a), no_input=True)
                continue
            bump("repr/check_repr=%s" % a[0])
            nrepr[0] += 1
            if a[0] != "1":
                ck.violation("repr_%s.txt" % qid, c.text() + "# at: %s\n" % what,
                             "the dumped factor_work does not represent the inverse of the current %dx%d matrix (extracted check_repr fails; %s)" % (n, n, what),
                             match=dict(kind="repr-wrong"))
            for f, k, si in zip(a[1:], kinds, opidx):
                bump("repr/solve-%s/%s" % (k, "same" if f == "1" else "DIFFERENT"))
                if f != "1":
                    ck.violation("corr_repr_%s.txt" % qid, c.text() + "# step %d (%s)\n" % (si, c.steps[si][0]),
                                 "correspondence Factor.%s vs mpq_ILLfactor_%s broke: the walk of the extracted model over the dumped representation gives another vector (%dx%d, step %d)"
                                 % ("ftran" if k == "FT" else "btran", "ftran" if k == "FT" else "btran", n, n, si), no_input=True, match=dict(kind="corr-repr"))
            continue
        if not a or a[0] not in ("S", "N", "X", "?"):
            ck.violation("model_%s.txt" % qid, c.text(), "model driver gave no answer for %s (%s)" % (qid, a), no_input=True)
            continue
        n = len(c.steps[0][1])
        ck.count(("comp", qid, c.lines[1], c.lines[2] if len(c.lines) > 2 else ""), nontrivial=(a[0] != "S"))
        if c_sing is not None and mode != "-":
            m_sing = a[0] == "S"
            bump("singularity/%s/%s/verified=%s,C=%s" % ("factor" if what == "FACTOR" else "update", "elimination" if mode == "I" else "certificate", a[0], "S" if c_sing else "N"))
            if a[0] == "X":
                ck.violation("cert_%s.txt" % qid, c.text(), "internal: the null vector certificate was rejected by the extracted checker", no_input=True)
                continue
            if m_sing and not c_sing:
                ck.violation("singular_missed_%s.txt" % qid, c.text() + "# at: %s (op %s)\n" % (what, opidx),
                             "a singular %dx%d matrix was not reported singular (%s)" % (n, n, what), match=dict(kind="singular-not-reported"))
                continue
            if c_sing and not m_sing:
                ck.violation("singular_false_%s.txt" % qid, c.text() + "# at: %s\n" % what,
                             "a non-singular %dx%d matrix was reported singular (%s)" % (n, n, what), match=dict(kind="nonsingular-reported-singular"))
                continue
        elif c_sing is not None:
            bump("singularity/large-nonsingular-claim-judged-by-solves")
        flags = a[1:]
        for f, k, si in zip(flags, kinds, opidx):
            nsolve += 1
            bump("solve/%s/%s" % (k, "ok" if f == "1" else "WRONG"))
            if f != "1":
                ck.violation("solve_%s.txt" % qid, c.text() + "# wrong result at step %d (%s) of the case\n" % (si, c.steps[si][0]),
                             "%s through the LU factorization does not satisfy the system exactly (%dx%d, %s, step %d)" % ("ftran" if k == "FT" else "btran", n, n, getattr(c, "kind", "small"), si),
                             match=dict(kind="solve-wrong"))
        if len(ck.cov["samples"]) < 6 and a[0] != "S" and flags:
            ck.sample(dict(kind=getattr(c, "kind", "exhaustive-small"), n=n, script_head=c.lines[:6], checks=len(flags)))
    if not pr["ok"]:
        ck.violation("proof.txt", pr["log"], "proof obligation(s) of Properties_C13.v no longer check: %s" % pr["failed"], no_input=not ck.violations)
    ck.cov["rule"] = ("A: LPs (planted, random, degenerate, Beale, near-parallel; <= 9x11 quick) solved by mpq_QSopt_primal/dual under random pricing/scaling, also stopped at an iteration limit and resumed, "
                      "then sequences of mpq_QSopt_pivotin_row/col; after each: basis order + every binv row + every tableau row judged by the extracted check_binv_row / check_tableau_row against the "
                      "basis matrix assembled from the internal LP dump.  B: mpq_ILLfactor* driven directly: all 2x2 and all (thorough) / 5000 sampled 3x3 matrices over {-1,0,1,2}; structured matrices "
                      "(permuted triangular, dense block, singletons, near-singular 2^-k, rank-deficient, sparse, dense, arrow; n <= 40 quick / 80 thorough; random DENSE_MIN, P, MAX_K, space multipliers); "
                      "update histories (<= 30 column replacements: sparse/dense/unit columns, copies and combinations of columns, zero columns; small ETAMAX and eta space to force refactorization); "
                      "after each factor/update ftran/btran of unit, sparse and dense vectors judged by extracted check_ftran/check_btran; singularity compared with the verified elimination. "
                      "non-trivial = non-singular matrix with at least one judged solve, or a singularity verdict; distinct by script text")
    ck.cov["histogram"] = dict(sorted(hist.items()))
    ck.cov["tableau_rows_judged"] = nrows_judged
    ck.cov["solves_judged"] = nsolve
    ck.cov["representations_checked"] = nrepr[0]
    ck.cov["exhaustive_small_matrices"] = n_exh
    ck.cov["exhaustive"] = bool(T)
    ck.cov["evaluations"] = len(cases) + len(comp)
    ck.cov["crashes_seen"] = [dict(case=c_, rc=rc) for c_, rc, e in crashes + ccr]
    ck.cov["not_covered"] = ("pivot selection, space management and the update routine are explored, not proved; after a solve stopped at an iteration limit the library refuses "
                             "tableau queries (no cache), so intermediate bases are observed through pivotin sequences and resumed solves only")
    ck.assumptions = ["Coq kernel; extraction (ExtrOcamlBasic) + OCaml compiler", "harness h_fac + text protocol", "GMP = exact rational arithmetic"]
    ck.finish(trusted_base=["coqc 8.16.1 kernel", "OCaml extraction (ExtrOcamlBasic only)", "harness h_fac.c + checks/C13.py + checks/fac_common.py"])


main_guard(main)
