#!/usr/bin/env python3
"""C07  Invalid arguments are rejected with an error and leave the problem untouched.

Proof part: coq/Props/Properties_C07.v (err_atomic for every op of the reference model, rejects_iff_invalid,
characterisation of valid_args per op family).
Exploration: boundary probes for every public mpq_QS* function that takes an index, a name, a selector, a
parameter or a basis, in the lifecycle states empty / loaded / solved / edited.  Each probe runs in a forked
child of the ASan+UBSan build of h_store:
      DUMPALL before ; probe ; DUMPALL after ; follow-up (solve, accessors, dump, free)
The reference model (valid_args) decides what must be rejected; for calls outside the model (bases, accessors,
pivots, parameters of solves) the probe generator states the expectation from the property text.
A probe the property calls invalid must: not crash, return non-zero/NULL, leave DUMPALL identical, and the
follow-up must behave as the follow-up of the untouched problem (latent corruption)."""
import sys, os, json
sys.path.insert(0, os.path.dirname(os.path.abspath(__file__)))
from lib import *
from store_common import *

INT_MIN = -2147483648
FOLLOW = ["SOLVE h0 DUAL", "ACCESS h0", "DUMP h0", "FREE h0"]


def make_lp(rng):
    """small bounded feasible LP with n != m, one ranged row if m >= 2; returns setup ops + dims"""
    n = rng.choice([2, 3, 4])
    m = rng.choice([k for k in (1, 2, 3) if k != n])
    ops = ["CREATE h0 p MAX"]
    for j in range(n):
        ops.append("NEWCOL h0 %d 0 %d c%s" % (rng.randint(1, 5), rng.randint(5, 12), "abcd"[j]))
    for i in range(m):
        ent = " ".join("%d %d" % (j, rng.randint(1, 4)) for j in range(n))
        if i == 1:
            ops.append("ADDRROW h0 %d R %d r%d %d %s" % (rng.randint(1, 3), rng.randint(4, 9), i, n, ent))
        else:
            ops.append("ADDROW h0 %d L r%d %d %s" % (rng.randint(8, 20), i, n, ent))
    return ops, n, m


def states(rng):
    lp, n, m = make_lp(rng)
    solve = rng.choice(["SOLVE h0 PRIMAL", "SOLVE h0 DUAL", "SOLVE h0 EXACT P"])
    # a state whose name tables have a history: 42 more rows and columns (among them the names rb0 / raU, which hash alike
    # for every table size), then 14 deletes from the front of each group - freed slots are refilled from the end, hash
    # chains are relinked, the name -> index maps are rebuilt lazily
    K, D = 40, 14
    grown = lp + ["NEWROW h0 1 L e%d" % k for k in range(K)] + ["NEWROW h0 1 L rb0", "NEWROW h0 1 L raU"] + ["DELROW h0 %d" % m] * D + \
        ["NEWCOL h0 1 0 1 f%d" % k for k in range(K)] + ["NEWCOL h0 1 0 1 rb0", "NEWCOL h0 1 0 1 raU"] + ["DELCOL h0 %d" % n] * D
    return [
        ("empty", ["CREATE h0 p MIN"], 0, 0),
        ("loaded", lp, n, m),
        ("solved", lp + [solve], n, m),
        ("edited", lp + [solve, "CHGRHS h0 0 7", "CHGOBJ h0 0 2"], n, m),
        ("after-deletes", grown, n + K + 2 - D, m + K + 2 - D),
    ]


def survivor_probes():
    """every name that survived the deletes of state after-deletes, offered again as a NEW row / column name"""
    K, D = 40, 14
    P = []
    for nm in ["e%d" % k for k in range(D, K)] + ["rb0", "raU"]:
        P.append(dict(fn="QSnew_row", role="duplicate-name-after-deletes", op="NEWROW h0 1 L %s" % nm, expect="model"))
    for nm in ["f%d" % k for k in range(D, K)] + ["rb0", "raU"]:
        P.append(dict(fn="QSnew_col", role="duplicate-name-after-deletes", op="NEWCOL h0 1 0 1 %s" % nm, expect="model"))
    return P


def idx_values(n, m):
    """boundary values for an index whose valid range is [0, n); m = size of the *other* dimension"""
    vals = [-1, 0, n - 1, n, n + 1, n + m - 1, n + m, INT_MAX, INT_MIN]
    out = []
    for v in vals:
        if v not in out:
            out.append(v)
    return out


def probes(n, m, rng):
    """list of dict(fn, role, op, expect) ; expect in {'model', 'invalid', 'valid'}"""
    P = []

    def add(fn, role, op, expect="model"):
        P.append(dict(fn=fn, role=role, op=op, expect=expect))
    cols, rows = idx_values(n, m), idx_values(m, n)
    for j in cols:
        add("QSchange_objcoef", "col", "CHGOBJ h0 %d 9" % j)
        add("QSchange_bound", "col", "CHGBND h0 %d U 3" % j)
        add("QSchange_bounds", "col", "CHGBNDS h0 1 %d L 1" % j)
        add("QSget_bound", "col", "Q h0 bound %d L" % j)
        add("QSget_bounds_list", "col", "Q h0 boundslist 1 %d" % j)
        add("QSget_obj_list", "col", "Q h0 objlist 1 %d" % j)
        add("QSget_columns_list", "col", "Q h0 colslist 1 %d" % j)
        add("QSdelete_col", "col", "DELCOL h0 %d" % j)
        add("QSdelete_cols", "col", "DELCOLS h0 1 %d" % j)
        add("QSadd_row", "col", "ADDROW h0 1 L pr 1 %d 2" % j)
        add("QSadd_ranged_row", "col", "ADDRROW h0 1 R 2 pr 1 %d 2" % j)
        add("QSadd_rows", "col", "ADDROWS h0 2 1 L pr1 0 2 G pr2 1 %d 2" % j)
        if n >= 2:
            # the first row is fine and has entries, the offending index sits in a later row (the harness passes begin arrays with gaps)
            add("QSadd_rows", "col-later-row", "ADDROWS h0 3 1 L pr1 2 0 1 1 1 2 G pr2 1 0 3 4 L pr3 1 %d 2" % j)
            add("QSadd_ranged_rows", "col-later-row", "ADDRROWS h0 2 1 R 2 pr1 2 0 1 1 1 2 R 1 pr2 1 %d 2" % j)
        if m:
            add("QSchange_coef", "col", "CHGCOEF h0 0 %d 5" % j)
            add("QSget_coef", "col", "Q h0 coef 0 %d" % j)
        if n >= 2:
            add("QSchange_bounds", "col-second", "CHGBNDS h0 2 0 U 2 %d L 1" % j)
            add("QSdelete_cols", "col-second", "DELCOLS h0 2 %d %d" % ((1 if j == 0 else 0), j), "model")
            add("QSopt_pivotin_col", "col", "PIVOTINCOL h0 1 %d" % j, "invalid" if not (0 <= j < n + m) else "any")   # internal column index
    for i in rows:
        add("QSchange_rhscoef", "row", "CHGRHS h0 %d 9" % i)
        add("QSchange_sense", "row", "CHGSENSE h0 %d G" % i)
        add("QSchange_senses", "row", "CHGSENSES h0 1 %d E" % i)
        add("QSchange_range", "row", "CHGRANGE h0 %d 3" % i, "model")
        add("QSget_rows_list", "row", "Q h0 rowslist 1 %d" % i)
        add("QSget_ranged_rows_list", "row", "Q h0 rrowslist 1 %d" % i)
        add("QSdelete_row", "row", "DELROW h0 %d" % i)
        add("QSdelete_rows", "row", "DELROWS h0 1 %d" % i)
        add("QSadd_col", "row", "ADDCOL h0 1 0 5 pc 1 %d 2" % i)
        add("QSadd_cols", "row", "ADDCOLS h0 2 1 0 5 pc1 0 2 0 5 pc2 1 %d 2" % i)
        if m >= 2:
            add("QSadd_cols", "row-later-col", "ADDCOLS h0 3 1 0 5 pc1 2 0 1 1 1 2 0 5 pc2 1 0 3 1 0 5 pc3 1 %d 2" % i)
        add("QSget_binv_row", "row", "BINV h0 %d" % i, "invalid" if not (0 <= i < m) else "any")
        add("QSget_tableau_row", "row", "TABROW h0 %d" % i, "invalid" if not (0 <= i < m) else "any")
        add("QSopt_pivotin_row", "row", "PIVOTINROW h0 1 %d" % i, "invalid" if not (0 <= i < m) else "any")
        if n:
            add("QSchange_coef", "row", "CHGCOEF h0 %d 0 5" % i)
            add("QSget_coef", "row", "Q h0 coef %d 0" % i)
        if m >= 2:
            add("QSchange_senses", "row-second", "CHGSENSES h0 2 0 G %d E" % i)
            add("QSdelete_rows", "row-second", "DELROWS h0 2 %d %d" % ((1 if i == 0 else 0), i))
    # repeated indices / names in one delete list
    if m >= 1:
        add("QSdelete_rows", "duplicate-index", "DELROWS h0 2 0 0")
        add("QSdelete_named_rows_list", "duplicate-name", "DELNROWS h0 2 r0 r0")
    if n >= 1:
        add("QSdelete_cols", "duplicate-index", "DELCOLS h0 2 0 0")
        add("QSdelete_named_columns_list", "duplicate-name", "DELNCOLS h0 2 ca ca")
    add("QSdelete_rows", "negative-count", "DELROWS h0 -1", "any")
    # names
    for nm, role in (("nosuch", "unknown-name"),) + ((("r0", "known-name"),) if m else ()):
        add("QSdelete_named_row", role, "DELNROW h0 %s" % nm)
        add("QSdelete_named_rows_list", role, "DELNROWS h0 1 %s" % nm)
        add("QSget_row_index", role, "Q h0 rowidx %s" % nm)
        add("QSget_named_pi", role, "GET h0 named_pi %s" % nm, "invalid" if role == "unknown-name" else "any")
        add("QSget_named_slack", role, "GET h0 named_slack %s" % nm, "invalid" if role == "unknown-name" else "any")
    for nm, role in (("nosuch", "unknown-name"),) + ((("ca", "known-name"),) if n else ()):
        add("QSdelete_named_column", role, "DELNCOL h0 %s" % nm)
        add("QSdelete_named_columns_list", role, "DELNCOLS h0 1 %s" % nm)
        add("QSget_column_index", role, "Q h0 colidx %s" % nm)
        add("QSget_named_x", role, "GET h0 named_x %s" % nm, "invalid" if role == "unknown-name" else "any")
        add("QSget_named_rc", role, "GET h0 named_rc %s" % nm, "invalid" if role == "unknown-name" else "any")
    if m:
        add("QSnew_row", "duplicate-name", "NEWROW h0 1 L r0")
        add("QSadd_row", "duplicate-name", "ADDROW h0 1 L r0 0")
        add("QSadd_rows", "duplicate-name-second", "ADDROWS h0 2 1 L fresh1 0 2 G r0 0")
    add("QSadd_rows", "duplicate-name-within-call", "ADDROWS h0 2 1 L same 0 2 G same 0")
    if n:
        add("QSnew_col", "duplicate-name", "NEWCOL h0 1 0 1 ca")
        add("QSadd_col", "duplicate-name", "ADDCOL h0 1 0 1 ca 0")
        add("QSadd_cols", "duplicate-name-second", "ADDCOLS h0 2 1 0 1 fresh1 0 1 0 1 ca 0")
    add("QSadd_cols", "duplicate-name-within-call", "ADDCOLS h0 2 1 0 1 same 0 1 0 1 same 0")
    # a failed add must not leave its name registered (DESIGN 10 #23): the same name is usable afterwards
    if n:
        P.append(dict(fn="QSadd_row", role="phantom-name", pre=["ADDROW h0 4 L ph 1 %d 2" % (n + m + 2)], op="ADDROW h0 4 L ph 0", expect="model"))
    if m:
        P.append(dict(fn="QSadd_col", role="phantom-name", pre=["ADDCOL h0 1 0 1 ph 1 %d 2" % (n + m + 2)], op="ADDCOL h0 1 0 1 ph 0", expect="model"))
    # selectors
    for s in ["X", "l", "#0", "#1", "N", "#255"]:
        add("QSnew_row", "sense", "NEWROW h0 1 %s ps" % s)
        add("QSadd_row", "sense", "ADDROW h0 1 %s ps 0" % s)
        add("QSadd_ranged_row", "sense", "ADDRROW h0 1 %s 2 ps 0" % s)
        add("QSadd_rows", "sense-second", "ADDROWS h0 2 1 L ps1 0 2 %s ps2 0" % s)
        if m:
            add("QSchange_sense", "sense", "CHGSENSE h0 0 %s" % s)
        if m >= 2:
            add("QSchange_senses", "sense-second", "CHGSENSES h0 2 0 G 1 %s" % s)
    for s in ["X", "l", "#0", "u", "E"]:
        if n:
            add("QSchange_bound", "lu", "CHGBND h0 0 %s 1" % s)
            add("QSget_bound", "lu", "Q h0 bound 0 %s" % s)
        if n >= 2:
            add("QSchange_bounds", "lu-second", "CHGBNDS h0 2 0 U 2 1 %s 1" % s)
    if n:
        add("QSget_bound", "lu-B", "Q h0 bound 0 B")     # 'B' is legal for change, not for get
    for c in ["0", "2", "-2", "%d" % INT_MAX]:
        add("QSchange_objsense", "objsense", "CHGOBJSENSE h0 %s" % c)
    # parameters
    for pid in [-1, 1, 3, 6, 8, 10, INT_MAX]:
        add("QSset_param", "param-id", "SETPARAM h0 %d 1" % pid)
        add("QSget_param", "param-id", "Q h0 param %d" % pid)
    for pid in [-1, 0, 5, 7, 10, INT_MAX]:
        add("QSset_param_EGlpNum", "param-id", "SETPARAMQ h0 %d 1" % pid)
        add("QSget_param_EGlpNum", "param-id", "Q h0 paramq %d" % pid)
    for pid, vals in [(0, [0, 5, 6, -1]), (2, [0, 5, 10, 3]), (4, [-1, 4, INT_MAX]), (5, [0, -1, INT_MIN]), (7, [-1, 2])]:
        for v in vals:
            add("QSset_param", "param-value", "SETPARAM h0 %d %d" % (pid, v))
    for v in ["0", "-1", "-1/1000"]:
        add("QSset_param_EGlpNum", "param-value", "SETPARAMQ h0 6 %s" % v)
    # bases: QSload_basis (sizes + number of basic entries), QSload_basis_array (content), solver with a caller basis
    good_c, good_r = "0" * n, "1" * m
    bases = [("good", good_c, good_r, None, None, "valid")]
    if n + m:
        bases += [("short-cstat", good_c[:-1] if n else "", good_r, None, None, "invalid"),
                  ("long-rstat", good_c, good_r + "1", None, None, "invalid"),
                  ("size-lie-nstruct", good_c, good_r, n + 1, None, "invalid"),
                  ("size-lie-nrows", good_c, good_r, None, m + 1, "invalid"),
                  ("size-negative", good_c, good_r, -1, None, "invalid")]
    if m:
        bases += [("no-basic", good_c, "0" * m, None, None, "invalid"),
                  ("garbage-char", good_c, "x" + good_r[1:], None, None, "invalid")]
    if n and m:
        bases += [("too-many-basic", "1" * n, good_r, None, None, "invalid"),
                  ("garbage-cstat", "7" + good_c[1:], good_r, None, None, "invalid")]
    for role, cs, rs, ns, nr, ex in bases:
        mk = "MKBASIS b0 %s %s" % (cs or "-", rs or "-")
        if ns is not None or nr is not None:
            mk += " %s %s" % (ns if ns is not None else "=", nr if nr is not None else "=")
        P.append(dict(fn="QSload_basis", role=role, op="LOADBASIS h0 b0", pre=[mk], expect=ex))
        if ns is None and nr is None and len(cs) == n and len(rs) == m:
            P.append(dict(fn="QSload_basis_array", role=role, op="LOADBASISARR h0 %s %s" % (cs or "-", rs or "-"), expect=ex))
            P.append(dict(fn="QSload_basis_and_row_norms_array", role=role, op="LOADBASISNORMS h0 %s %s" % (cs or "-", rs or "-"), expect=ex))
        P.append(dict(fn="QSexact_solver", role="basis-" + role, op="SOLVE h0 EXACT P b0", pre=[mk], expect="any" if ex == "valid" else "invalid-or-recovers"))
    if n:
        add("QSload_basis_array", "null-cstat", "LOADBASISARR h0 NULL %s" % (good_r or "-"), "invalid")
    return P


def section_split(lines):
    """lines of one FORK section -> dict marker -> list of lines; plus the FORKEND line"""
    sec, cur, end = {}, None, None
    for l in lines:
        if l.startswith("ECHO "):
            cur = l.split()[1]
            sec[cur] = []
        elif l.startswith("FORKEND"):
            end = l
        elif cur is not None:
            sec[cur].append(l)
    return sec, end


def strip_state(lines):
    """what the user can observe: drop the white-box 'ACC state' line"""
    return [l for l in lines if not l.startswith("ACC state")]


def main():
    ck = Check("C07", "proof")
    build_repo()
    # generated guard lemmas: coq/Gen/Guards.v is re-extracted from the CURRENT source before the proofs are compiled
    # (tools/build_model.sh -> gen_all.py runs the translator too; this call makes the dependency explicit)
    gg = sh([sys.executable, os.path.join(VERIF, "tools", "gen_guards.py")], timeout=600)
    pr = ck.proofs()
    rng = ck.rng
    rounds = 6 if ck.thorough() else 1
    hist, kinds, fnset, groups = {}, {}, set(), {}
    nprobe = 0
    for rd in range(rounds):
        for sname, setup, n, m in states(rng):
            plist = probes(n, m, rng) + (survivor_probes() if sname == "after-deletes" else [])
            # one case per state; every probe in its own FORK section; section 0 = baseline follow-up without a probe
            body = ["CASE %s%d" % (sname, rd), "RESET"] + setup + ["POISON h0"]
            sections = [dict(fn="baseline", role="-", op="ECHO nop", expect="any", pre=[])] + plist
            for k, p in enumerate(sections):
                lines = ["ECHO id %d" % k] + p.get("pre", []) + ["ECHO before", "DUMPALL h0", "ECHO probe", p["op"], "ECHO after", "DUMPALL h0", "ECHO follow"] + FOLLOW
                body.append("FORK %d" % len(lines))
                body += lines
            text = "\n".join(body) + "\n"
            rc, out, err = run_c(text, asan=True, timeout=1800)
            if rc != 0:
                ck.violation("harness_%s.txt" % sname, text, "h_store itself died (rc %d) outside a forked probe: %s" % (rc, err[-300:]), match=dict(kind="harness"))
                continue
            M = out.split("\n", 1)[0].split()[1]
            mout = run_m(text, M)
            # split both outputs into FORK sections
            def secs(o):
                res, cur = [], []
                for l in o.splitlines():
                    cur.append(l)
                    if l.startswith("FORKEND"):
                        res.append(cur)
                        cur = []
                return res
            cs, ms = secs(out), secs(mout)
            if len(cs) != len(sections) or len(ms) != len(sections):
                ck.violation("sections_%s.txt" % sname, text, "section count mismatch: C %d model %d expected %d" % (len(cs), len(ms), len(sections)), no_input=True, match=dict(kind="harness"))
                continue
            base, bend = section_split(cs[0])
            base_follow = base.get("follow", [])
            base_crashed = bend is None or "CRASH" in bend
            if base_crashed:
                groups.setdefault(("baseline", sname, "crash"), []).append((sname, "(no probe)", "follow-up of the untouched problem crashes: %s" % bend, text[:4000]))
            for k, p in enumerate(sections[1:], 1):
                nprobe += 1
                sec, end = section_split(cs[k])
                msec, _ = section_split(ms[k])
                fnset.add(p["fn"])
                key = "%s/%s" % (p["fn"], p["role"])
                hist[key] = hist.get(key, 0) + 1
                ck.count((sname, p["op"], tuple(p.get("pre", []))))
                probe_lines = sec.get("probe", [])
                cstat = probe_lines[0].split()[2] if probe_lines and probe_lines[0].startswith("R ") else "NONE"
                mstat = None
                ml = msec.get("probe", [])
                if ml and ml[0].startswith("R "):
                    mstat = ml[0].split()[2]
                exp = p["expect"]
                if exp == "model":
                    exp = {"OK": "valid", "ERR": "invalid"}.get(mstat, "any")
                crashed = end is None or "CRASH" in end
                if base_crashed and "after" in sec:
                    crashed = False         # cannot attribute a follow-up crash to the probe
                replay = "CASE replay\nRESET\n" + "\n".join(setup + ["POISON h0", "FORK %d" % (len(p.get("pre", [])) + 6 + len(FOLLOW))] + p.get("pre", []) +
                                                              ["DUMPALL h0", "ECHO probe", p["op"], "ECHO after", "DUMPALL h0", "ECHO follow"] + FOLLOW) + "\n"

                def viol(kind, text_):
                    kinds[kind] = kinds.get(kind, 0) + 1
                    groups.setdefault((p["fn"], p["role"], kind), []).append((sname, p["op"], text_, replay))
                if crashed and "after" not in sec:
                    viol("crash", "crashed inside the call: %s" % (end or "no FORKEND")[:200])
                    continue
                if exp in ("invalid", "invalid-or-recovers"):
                    same = strip_state(sec.get("before", [])) == strip_state(sec.get("after", []))
                    if cstat == "OK" and exp == "invalid":
                        viol("accepted", "invalid argument accepted (returned 0)%s" % ("" if same else "; problem changed"))
                    elif cstat == "ERR" and not same:
                        viol("not-atomic", "call failed but the observable state changed: %s" % first_diff(strip_state(sec.get("before", [])), strip_state(sec.get("after", []))))
                    if crashed:
                        viol("latent-crash", "call returned %s, then the follow-up crashed: %s" % (cstat, end[:200]))
                    elif cstat == "ERR" and same and exp == "invalid" and strip_state(sec.get("follow", [])) != strip_state(base_follow):
                        viol("latent-diff", "call failed and the dump is unchanged, but solve/accessors/copy afterwards differ from those of the untouched problem: %s" %
                             first_diff(strip_state(sec.get("follow", [])), strip_state(base_follow)))
                elif exp == "valid":
                    if cstat == "ERR":
                        viol("valid-rejected", "boundary value inside the valid range rejected")
                    if crashed:
                        viol("latent-crash", "valid call, then the follow-up crashed: %s" % end[:200])
                else:
                    if crashed:
                        viol("latent-crash", "call returned %s, then the follow-up crashed: %s" % (cstat, end[:200]))
            if rd == 0 and sname == "loaded":
                ck.sample(dict(state=sname, setup=setup, probes=[p["op"] for p in plist[:8]]))
    # one report per (function, argument role, kind of failure); the replay is the first probe of the group
    summary = []
    for (fn, role, kind), items in sorted(groups.items()):
        sname, op, text_, replay = items[0]
        states_hit = sorted(set(i[0] for i in items))
        ops_hit = sorted(set(i[1] for i in items))
        summary.append("%-34s %-26s %-14s n=%-3d states=%s e.g. `%s`: %s" % (fn, role, kind, len(items), ",".join(states_hit), op, text_[:150]))
        ck.violation("%s_%s_%s.txt" % (kind, fn, role), replay + "# %s\n# all probes of this group: %s\n" % (text_, ops_hit[:20]),
                     "C07 [%s / %s] %s: %d probe(s) in state(s) %s, e.g. `%s`: %s" % (fn, role, kind, len(items), ",".join(states_hit), op, text_),
                     match=dict(fn=fn, role=role, kind=kind))
    os.makedirs(OUT, exist_ok=True)
    open(os.path.join(OUT, "C07_summary.txt"), "w").write("\n".join(summary) + "\n")
    ck.cov["violation_groups"] = len(groups)
    # the generated guards, evaluated by the extracted model against the ranges of their roles
    gj = {}
    try:
        gj = json.load(open(os.path.join(OUT, "guards.json")))
    except Exception:
        pass
    gout = run_m("CASE g\nGUARDS\n", "1000") if gg.returncode == 0 else ""
    gx = [l.split() for l in gout.splitlines() if l.startswith("GX ")]
    ck.cov["generated_guards"] = dict(translator=("ok: " + gg.stdout.strip()) if gg.returncode == 0 else "FAILED: " + gg.stderr[-300:],
                                      guards=len(gj.get("guards", [])), delegations=len(gj.get("delegations", [])), unguarded=gj.get("unguarded", []),
                                      untranslated=gj.get("untranslated", []), unclassified=[(g["fn"], g["arg"]) for g in gj.get("guards", []) if g["role"] == "unknown"],
                                      disagreements_on_boundary_grid=[" ".join(l[1:]) for l in gx[:12]],
                                      functions_covered=sorted(set(g["fn"] for g in gj.get("guards", [])) | set(d[0] for d in gj.get("delegations", []))))
    if not pr["ok"] or gx or gg.returncode != 0:
        # name the guard(s) that no longer reject exactly the invalid indices, and look for a concrete failing call among the probes
        weak = sorted(set((l[1], l[2]) for l in gx))
        pubs = set(fn for fn, _ in weak) | set(d[0] for d in gj.get("delegations", []) if (d[2], d[3]) in weak)
        hit = [(k, v) for k, v in sorted(groups.items()) if k[0] in pubs]
        detail = "; ".join("%s.%s (%s): e.g. %s" % (fn, a, next(l[3] for l in gx if (l[1], l[2]) == (fn, a)), " ".join(next(l[4:] for l in gx if (l[1], l[2]) == (fn, a)))) for fn, a in weak)
        extra_ = []
        if gj.get("unguarded"): extra_.append("index arguments without a range check: %s" % gj["unguarded"])
        if gj.get("untranslated"): extra_.append("range checks the translator cannot express: %s" % gj["untranslated"])
        text = "proof obligation(s) of Properties_C07.v no longer check: %s%s%s" % (pr["failed"], (" -- generated guard(s) not exact: " + detail) if weak else "",
                                                                                   (" -- " + "; ".join(extra_)) if extra_ else "")
        if hit:
            (fn, role, kind), items = hit[0]
            ck.violation("proof.txt", items[0][3] + "# %s\n# concrete failing call found by the boundary probes: [%s / %s] %s `%s`: %s\n" % (text, fn, role, kind, items[0][1], items[0][2]),
                         text + " -- concrete failing call: `%s` (%s)" % (items[0][1], items[0][2][:120]), match=dict(kind="proof"))
        else:
            ck.violation("proof.txt", pr["log"], text, no_input=not ck.violations, match=dict(kind="proof"))
    ck.cov["rule"] = ("boundary probes (-1, 0, n-1, n, n+1, n+m-1, n+m, INT_MAX, INT_MIN for every index argument; unknown / known / duplicate names; illegal "
                      "sense, lu, objsense, parameter ids and values; bases of wrong size, wrong basic count, garbage status) x lifecycle states "
                      "empty/loaded/solved/edited; each probe in a forked child of the ASan+UBSan build with DUMPALL (params, basis, all accessors, query dump) "
                      "before and after and a follow-up (solve, accessors, dump, copy, free) compared with the follow-up of the untouched problem; "
                      "distinct by (state, probe text)")
    ck.cov["evaluations"] = nprobe
    ck.cov["functions_probed"] = sorted(fnset)
    ck.cov["n_functions_probed"] = len(fnset)
    ck.cov["probe_histogram"] = hist
    ck.cov["violation_kinds"] = kinds
    ck.cov["traces_validated_against_impl"] = nprobe
    ck.assumptions = ["Coq kernel; extraction + OCaml for valid_args", "ASan/UBSan detect the out-of-bounds accesses that happen on the executed path (no claim for paths not executed)",
                      "h_store allocates caller-side arrays as large as the declared sizes require, so an overread is the library's"]
    ck.finish(trusted_base=["coqc 8.16.1 kernel", "OCaml extraction", "gcc ASan+UBSan runtime", "harness h_store.c + checks/C07.py"],
              extra=dict(not_covered="memory safety is shown only on the executed probes (sanitizer), not for all inputs; file-name arguments (read/write) belong to C08-C14; "
                                     "NULL pointer arguments other than names/cstat are not probed"))


main_guard(main)
