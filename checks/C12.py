#!/usr/bin/env python3
"""C12  Basis verdicts and returned bases are exact."""
import sys, os
sys.path.insert(0, os.path.dirname(os.path.abspath(__file__)))
from lib import *
from gen_lp import *
from solve_common import STATUS, PPRICE, DPRICE
from fac_common import *


def model_queries(qs, M, jobs=16):
    """run drv_fac on a list of query strings, in parallel chunks"""
    from concurrent.futures import ThreadPoolExecutor
    if not qs:
        return {}
    n = max(1, min(jobs, len(qs) // 200 + 1))
    chunks = [qs[i::n] for i in range(n)]
    ans = {}
    with ThreadPoolExecutor(max_workers=n) as ex:
        for a in ex.map(lambda ch: run_model("drv_fac", "M %s\n" % M + "\n".join(ch) + "\n"), chunks):
            ans.update(a)
    return ans


def verdict_c(t):
    """h_fac line BOPT/BDUAL/BDUALP/VERIFY rv res d  ->  ('err',) | ('res', b, d)"""
    rv, res, d = int(t[1]), int(t[2]), t[3]
    if rv != 0:
        return ("err",)
    return ("res", res, d)


def verdict_m(a, with_d):
    if a is None:
        return None
    if a[0] in ("err", "sing"):
        return (a[0],)
    return ("res", int(a[1]), a[2] if with_d else None)


MQ = [None]


def fq(tok):
    if tok == "inf":
        return MQ[0]
    if tok == "-inf":
        return -MQ[0]
    return F(tok)


def same(vc, vm, with_d):
    if vm is None or vc is None:
        return False
    if vm[0] == "err":
        return vc[0] == "err"
    if vc[0] != "res":
        return False
    if vc[1] != vm[1]:
        return False
    if with_d and vm[1] == 1 and fq(vc[2]) != fq(vm[2]):
        return False
    return True


def enum_case(cid, lp, bases, poison5, poison):
    """plain process: BOPT, BDUAL, VERIFY 0 exactly as a caller would; poison process (separate run, the stack below the
    caller is filled first): BDUALP 3 for every basis, BDUALP 5 for a sample"""
    lines = ["CASE %s" % cid, lp_block(lp), "DUMP"]
    for k, (cs, rs) in enumerate(bases):
        if poison:
            lines.append("BDUALP %d %s %s" % (NEUTRAL_G, cs, rs))
            if k in poison5:
                lines.append("BDUALP 5 %s %s" % (cs, rs))
        else:
            lines.append("BOPT %s %s" % (cs, rs))
            lines.append("BDUAL %s %s" % (cs, rs))
            lines.append("VERIFY 0 %s %s" % (cs, rs))
    if not poison:
        lines.append("SOLVE EXACT P")
    return "\n".join(lines) + "\n"


def history_script(cid, rng, lp):
    """verdict calls on ONE object with an edit history: calls, then rounds of (1-3 edits, sometimes a solve, DUMP, calls).
    Returns (script, plan); plan = list of ('DUMP',) | ('CHG', kind, args) | ('CALL', op, cs, rs) | ('SOLVE',) in script order."""
    n, m = len(lp["cols"]), len(lp["rows"])
    lines = ["CASE %s" % cid, lp_block(lp), "DUMP"]
    plan = [("DUMP",)]

    def calls(k):
        for _ in range(k):
            cs, rs = random_basis(rng, lp, valid=rng.random() < 0.5)
            for op in ("BOPT", "BDUAL"):
                lines.append("%s %s %s" % (op, cs, rs))
                plan.append(("CALL", op, cs, rs))
    # the same few bases are asked again after every edit (a verdict that should flip is then in the sample)
    fixed = [random_basis(rng, lp, valid=True) for _ in range(3)]

    def fixed_calls():
        for cs, rs in fixed:
            for op in ("BOPT", "BDUAL"):
                lines.append("%s %s %s" % (op, cs, rs))
                plan.append(("CALL", op, cs, rs))
    fixed_calls()
    calls(2)
    val = lambda: qs(F(rng.randint(-4, 5), rng.choice([1, 1, 1, 2, 3])))
    for _ in range(rng.randint(1, 3)):
        if rng.random() < 0.3:
            lines.append("SOLVE " + rng.choice(["PRIMAL", "DUAL", "EXACT P"]))
            plan.append(("SOLVE",))
        for _ in range(rng.randint(1, 3)):
            kind = rng.choice(["bound", "bound", "obj", "obj", "rhs", "coef", "sense", "objsense"])
            if kind == "bound" and n:
                which = rng.choice("LUB")
                v = rng.choice([val(), val(), "inf" if which == "U" else ("-inf" if which == "L" else val())])
                ln = "CHG bound %d %s %s" % (rng.randrange(n), which, v)
            elif kind == "obj" and n:
                ln = "CHG obj %d %s" % (rng.randrange(n), val())
            elif kind == "rhs" and m:
                ln = "CHG rhs %d %s" % (rng.randrange(m), val())
            elif kind == "coef" and n and m:
                ln = "CHG coef %d %d %s" % (rng.randrange(m), rng.randrange(n), val())
            elif kind == "sense" and m:
                ln = "CHG sense %d %s" % (rng.randrange(m), rng.choice("LGE"))
            else:
                ln = "CHG objsense %s" % rng.choice(["MIN", "MAX"])
            lines.append(ln)
            plan.append(("CHG",) + tuple(ln.split()[1:]))
        if rng.random() < 0.2:
            lines.append("SOLVE " + rng.choice(["PRIMAL", "DUAL"]))
            plan.append(("SOLVE",))
        lines.append("DUMP")
        plan.append(("DUMP",))
        fixed_calls()
        calls(2)
    # QSexact_verify with the floating point prestep on the final problem, then the exact optimum of that problem
    for cs, rs in fixed + [random_basis(rng, lp, valid=True)]:
        lines.append("VERIFY 1 %s %s" % (cs, rs))
        plan.append(("CALL", "VERIFY", cs, rs))
    lines += ["SOLVE EXACT P", "ACCESS"]
    plan.append(("FINAL",))
    return "\n".join(lines) + "\n", plan


def main():
    if len(sys.argv) > 2 and sys.argv[1] == "--replay":
        # python3 checks/C12.py --replay <file>: run one recorded script against the library built from /repo's working tree
        rc, out, err = run_harness("h_fac", "".join(l for l in open(sys.argv[2]) if not l.startswith("#")), asan=True)
        print(out + err[-2000:])
        sys.exit(0)
    ck = Check("C12", "proof")
    build_repo()
    pr = ck.proofs()
    T = ck.thorough()
    rng = ck.rng
    hist = {}

    def bump(k, n=1):
        hist[k] = hist.get(k, 0) + n
    bump("enumerated", 0)

    # ------------------------------------------------------------------ 1. exhaustive enumeration on small LPs
    small = small_lp_family(rng, 600 if T else 40) + [lp for lp in load_corpus("C12") if len(lp["cols"]) <= 4 and len(lp["rows"]) <= 3]
    larger = []
    while len(larger) < (400 if T else 30):
        i = len(larger)
        kind = rng.choice(["small", "small", "frac", "awkward"])
        lp = random_lp(rng, rng.randint(3, 7), rng.randint(3, 9), kind, name="L%d" % i) if i % 2 else planted_lp(rng, rng.randint(3, 7), rng.randint(3, 9), kind, name="LP%d" % i)
        if model_weight(lp) <= MODEL_WEIGHT_LIMIT:
            larger.append(lp)
    cases, pcases, meta = [], [], {}
    for li, lp in enumerate(small):
        allb = list(enumerate_bases(lp, bad_row_status=False))
        bump("enumerated", len(allb))
        bases = [b for b in allb if not touches_sentinel(lp, *b) or rng.random() < (1.0 if T else 1.0)]
        bump("enumerated/evaluated", len(bases))
        # the rejection paths of the loader: a sample of bases with an inadmissible status / wrong count / wrong size
        for cs, rs in rng.sample(bases, min(len(bases), 12)):
            kind = rng.choice(["row2", "garb", "count", "size"])
            if kind == "row2" and rs != "-":
                i = rng.randrange(len(rs))
                rs = rs[:i] + rng.choice("23") + rs[i + 1:]
            elif kind == "garb" and cs != "-":
                j = rng.randrange(len(cs))
                cs = cs[:j] + rng.choice("4x") + cs[j + 1:]
            elif kind == "count" and cs != "-":
                j = rng.randrange(len(cs))
                cs = cs[:j] + ("0" if cs[j] == "1" else "1") + cs[j + 1:]
            else:
                cs = cs + "0"
            bases.append((cs, rs))
        poison5 = set(rng.sample(range(len(bases)), max(1, len(bases) // 25))) if bases else set()
        cid = "e%d" % li
        cases.append((cid, enum_case(cid, lp, bases, poison5, False)))
        pcases.append((cid, enum_case(cid, lp, bases, poison5, True)))
        meta[cid] = (lp, bases, poison5, True)
    for li, lp in enumerate(larger):
        bases = [random_basis(rng, lp, valid=rng.random() < 0.7) for _ in range(60 if T else 30)]
        poison5 = set(range(0, len(bases), 10))
        cid = "r%d" % li
        cases.append((cid, enum_case(cid, lp, bases, poison5, False)))
        pcases.append((cid, enum_case(cid, lp, bases, poison5, True)))
        meta[cid] = (lp, bases, poison5, False)
    t1 = time.time()
    M, outs, crashes = run_cases("h_fac", cases, per_case_timeout=60)
    _, pouts, pcr = run_cases("h_fac", pcases, per_case_timeout=60)
    crashes = crashes + pcr
    print("# phase 1 harness %.1fs" % (time.time() - t1), file=sys.stderr)
    scripts = dict(cases)
    MQ[0] = F(M)
    for cid, rc, err in crashes:
        ck.violation("crash_%s.txt" % cid, scripts[cid] + "\n# rc=%s\n# %s" % (rc, err[-1500:]), "h_fac crashed (rc %s) on verdict calls of case %s" % (rc, cid),
                     match=dict(kind="crash"))
    qs, want = [], {}
    percase = {}
    for cid, toks in outs.items():
        fo = FacOut(toks)
        lp, bases, poison5, exhaustive = meta[cid]
        if not fo.lp_ok or not fo.ilp:
            continue
        ilp = fo.ilp_text()
        sense = sense_string(lp)
        ops = [t for t in fo.ops if t[0] in ("BOPT", "BDUAL", "VERIFY")]
        pops = [t for t in pouts.get(cid, []) if t[0] == "BDUALP"]
        solve = [t for t in fo.ops if t[0] == "SOLVE"]
        it, pit = iter(ops), iter(pops)
        rec = []
        try:
            for k, (cs, rs) in enumerate(bases):
                o = next(it); dn = next(it); v0 = next(it)
                d3 = next(pit)
                d5 = next(pit) if k in poison5 else None
                rec.append((k, cs, rs, o, d3, (dn, v0), d5))
        except StopIteration:
            pass
        percase[cid] = (fo, rec, solve)
        for (k, cs, rs, o, d3, v0, d5) in rec:
            qid = "%s.%d" % (cid, k)
            qs.append(basis_query(qid + ".o", "bopt", ilp, sense, cs, rs))
            qs.append(basis_query(qid + ".d", "bdual %d" % NEUTRAL_G, ilp, sense, cs, rs))
            if d5 is not None:
                qs.append(basis_query(qid + ".g", "bdual 5", ilp, sense, cs, rs))
            if o[1] == "0" and o[2] == "1":
                qs.append(basis_query(qid + ".k", "bkkt", ilp, sense, cs, rs))
    t1 = time.time()
    ans = model_queries(qs, M)
    print("# phase 1 model %.1fs (%d queries)" % (time.time() - t1, len(qs)), file=sys.stderr)
    nverd = 0
    optvals = {}
    for cid, (fo, rec, solve) in percase.items():
        lp, bases, poison5, exhaustive = meta[cid]
        head = "CASE %s\n%s\n" % (cid, lp_block(lp))
        for (k, cs, rs, o, d3, v0, d5) in rec:
            qid = "%s.%d" % (cid, k)
            mo = verdict_m(ans.get(qid + ".o"), False)
            md = verdict_m(ans.get(qid + ".d"), True)
            co, cd = verdict_c(o), verdict_c(d3)
            nverd += 4 + (1 if d5 is not None else 0)
            key = (repr(lp["cols"]), repr(lp["rows"]), lp["max"], cs, rs)
            ck.count(key, nontrivial=(mo is not None and mo[0] == "res"))
            if mo is None or md is None:
                ck.violation("model_%s.txt" % qid, head + "BOPT %s %s\n" % (cs, rs), "model driver gave no answer for %s" % qid, no_input=True)
                continue
            bump("model/" + mo[0] + ("%d" % mo[1] if mo[0] == "res" else ""))
            if mo[0] == "sing":
                # singular basis: the library repairs it in an unmodelled order; it must never be called optimal
                bump("singular/C-bopt=%s" % (co[1] if co[0] == "res" else "err"))
                if co[0] == "res" and co[1] == 1:
                    ck.violation("singular_optimal_%s.txt" % qid, head + "BOPT %s %s\n" % (cs, rs),
                                 "QSexact_basis_optimalstatus answered 'optimal' for a singular basis (%s %s)" % (cs, rs),
                                 match=dict(kind="singular-optimal"))
                # the same for the dual status (all three entry points): a singular basis has no basic solution, the answer is 'no'
                # (the library used to repair the basis in LU pivot order and answer for the repaired one; that order is not modelled
                # and, since the verdict functions refuse singular bases, no longer observable through them)
                for nm, t in (("QSexact_basis_dualstatus (prepared stack)", d3), ("QSexact_basis_dualstatus", v0[0]), ("QSexact_verify (no prestep)", v0[1])):
                    cv = verdict_c(t)
                    bump("singular/C-bdual=%s" % (cv[1] if cv[0] == "res" else "err"))
                    if cv[0] == "res" and cv[1] == 1:
                        ck.violation("singular_dual_%s.txt" % qid, head + "%s %s %s\n" % (t[0], cs, rs),
                                     "%s answered 'dual feasible' for a singular basis (%s %s)" % (nm, cs, rs), match=dict(kind="singular-dual-feasible"))
                continue
            if not same(co, mo, False):
                ck.violation("corr_bopt_%s.txt" % qid, head + "BOPT %s %s\n# model: %s  C: %s\n" % (cs, rs, mo, co),
                             "correspondence Basis.lib_optimalstatus vs QSexact_basis_optimalstatus broke on basis %s %s: C %s, model %s "
                             "(the model verdict is the exact primal+dual feasibility of the basic solution of the basis as loaded: theorem lib_optimalstatus_iff)" % (cs, rs, co, mo),
                             match=dict(kind="corr-bopt"))
            if not same(cd, md, True):
                ck.violation("corr_bdual_%s.txt" % qid, head + "BDUALP %d %s %s\n# model: %s  C: %s\n" % (NEUTRAL_G, cs, rs, md, cd),
                             "correspondence Basis.lib_dualstatus vs QSexact_basis_dualstatus broke on basis %s %s: C %s, model %s" % (cs, rs, cd, md),
                             match=dict(kind="corr-bdual"))
            else:
                # the same calls as an ordinary caller makes them (separate process, stack never prepared)
                for nm, t in (("QSexact_basis_dualstatus", v0[0]), ("QSexact_verify (no prestep)", v0[1])):
                    cv = verdict_c(t)
                    bump("plain-dual/" + ("agree" if same(cv, md, True) else "differ"))
                    if not same(cv, md, True):
                        ck.violation("uninit_%s.txt" % qid, scripts[cid].split("BOPT")[0] + "# ... all ops of the case up to:\n%s %s %s\n# exact answer: %s  got: %s\n" % (t[0], cs, rs, md, cv),
                                     "%s answered %s for basis %s %s whose exact dual status is %s (uninitialised fi.pstatus)" % (nm, cv, cs, rs, md), match=dict(kind="pstatus-garbage"))
            if d5 is not None:
                mg = verdict_m(ans.get(qid + ".g"), True)
                c5 = verdict_c(d5)
                bump("poison5/" + ("flipped" if c5 != cd else "same"))
                if c5 != cd:
                    # the real function reads the stack value; the model with pstatus = 5 must predict what it did
                    if not same(c5, mg, True):
                        ck.violation("corr_bdual5_%s.txt" % qid, head + "BDUALP 5 %s %s\n# model: %s  C: %s\n" % (cs, rs, mg, c5),
                                     "correspondence of basis_dualstatus with pstatus = 5 broke: C %s, model %s" % (c5, mg), no_input=True, match=dict(kind="corr-bdual5"))
                    ck.violation("pstatus5_%s.txt" % qid, head + "BDUALP %d %s %s\nBDUALP 5 %s %s\n" % (NEUTRAL_G, cs, rs, cs, rs),
                                 "QSexact_basis_dualstatus: the verdict for basis %s %s depends on the uninitialised fi.pstatus: %s with stack value 3, %s with stack value 5"
                                 % (cs, rs, cd, c5), match=dict(kind="pstatus-garbage"))
            if co[0] == "res" and co[1] == 1:
                a = ans.get(qid + ".k")
                if a and a[0] in ("0", "1"):
                    kkt, nbok, v, lpok = a[0] == "1", a[1] == "1", a[3], a[4] == "1"
                    bump("optimal-verdict/kkt=%d,nonbasic_ok(loaded)=%d,lp_bounds_ok=%d" % (kkt, nbok, lpok))
                    if lpok and not nbok:
                        ck.violation("nbok_%s.txt" % qid, head + "BOPT %s %s\n" % (cs, rs),
                                     "internal: lp_bounds_ok holds but the loaded basis is not nonbasic_ok (contradicts theorem nonbasic_ok_loaded)", no_input=True)
                    if nbok and not kkt:
                        ck.violation("optimal_not_kkt_%s.txt" % qid, head + "BOPT %s %s\n" % (cs, rs),
                                     "basis %s %s is called optimal but the exact basic solution of the basis as loaded fails the verified KKT checker" % (cs, rs), match=dict(kind="optimal-not-kkt"))
                    if kkt:
                        optvals.setdefault(cid, set()).add(fq(v))
                        ck.sample(dict(lp=lp_to_json(lp), basis=[cs, rs], verdict=1, objval=v), limit=3)
        # all certified optimal bases of one LP have the same value
        if len(optvals.get(cid, ())) > 1:
            ck.violation("two_optima_%s.txt" % cid, head, "two bases of one LP certified optimal with different values %s" % sorted(optvals[cid]), match=dict(kind="two-optima"))
    ck.cov["verdict_calls"] = nverd
    ck.cov["exhaustive_lps"] = len(small)
    ck.cov["random_basis_lps"] = len(larger)

    # ------------------------------------------------------------------ 2. bases returned with OPTIMAL
    lps = family_stream(rng, 600 if T else 50, big=False) + family_stream(rng, 200 if T else 14, big=True) + load_corpus("C12")
    rcases, rmeta = [], {}
    for li, lp in enumerate(lps):
        for ci in range(4 if T else 3):
            entry = ["EXACT P", "EXACT D", "PRIMAL", "DUAL"][(li + ci) % 4]
            pp, dp, sc = rng.choice(PPRICE), rng.choice(DPRICE), rng.choice([0, 1])
            kept = "KEPTE" if entry.startswith("EXACT") else "KEPT"
            warm = rng.choice(["PRIMAL", "DUAL"])
            cid = "b%d.%d" % (li, ci)
            s = ["CASE %s" % cid, lp_block(lp), "PARAM 0 %d" % pp, "PARAM 2 %d" % dp, "PARAM 7 %d" % sc, "SOLVE " + entry, "KEEPBASIS", "ACCESS", "DUMP",
                 lp_block(lp), "BOPT %s -" % kept, lp_block(lp), "BDUALP %d %s -" % (NEUTRAL_G, kept),
                 lp_block(lp), "LOADBASIS %s -" % kept, "SOLVE " + warm, "ITCNT", "ACCESS"]
            rcases.append((cid, "\n".join(s) + "\n"))
            rmeta[cid] = (lp, entry, warm, (pp, dp, sc))
    t1 = time.time()
    M2, routs, rcr = run_cases("h_fac", rcases, per_case_timeout=15)
    print("# phase 2 harness %.1fs" % (time.time() - t1), file=sys.stderr)
    rscripts = dict(rcases)
    ck.cov["crashes_seen"] = [dict(case=c, rc=rc) for c, rc, e in crashes + rcr]
    qs2, want2 = [], {}
    nret = 0
    for cid, toks in routs.items():
        fo = FacOut(toks)
        lp, entry, warm, cfg = rmeta[cid]
        if not fo.ilp:
            continue
        sv = [t for t in fo.ops if t[0] == "SOLVE"]
        if not sv:
            continue
        first = sv[0]
        rv, st = (int(first[2]), int(first[3])) if first[1] != "EXACT" else (int(first[2]), int(first[3]))
        bump("returned/%s/%s" % (entry.split()[0], STATUS.get(st, st) if rv == 0 else "rval!=0"))
        if rv != 0 or st != 1:
            continue
        kb = [t for t in fo.ops if t[0] == ("EBASIS" if entry.startswith("EXACT") else "KEEPBASIS")]
        if not kb or kb[0][1] == "?":
            ck.violation("no_basis_%s.txt" % cid, rscripts[cid], "OPTIMAL from %s but no basis is handed back" % entry, match=dict(kind="no-basis", entry=entry.split()[0]))
            continue
        cs, rs = kb[0][1], kb[0][2]
        n, m = len(lp["cols"]), len(lp["rows"])
        nb = (cs.count("1") if cs != "-" else 0) + (rs.count("1") if rs != "-" else 0)
        nret += 1
        ck.count(("ret", repr(lp["cols"]), repr(lp["rows"]), lp["max"], entry, cfg))
        if nb != m or (len(cs) if cs != "-" else 0) != n or (len(rs) if rs != "-" else 0) != m:
            ck.violation("count_%s.txt" % cid, rscripts[cid], "basis returned with OPTIMAL by %s has %d basic entries for %d rows (%s %s)" % (entry, nb, m, cs, rs),
                         match=dict(kind="basic-count"))
            continue
        if model_weight(lp) <= MODEL_WEIGHT_LIMIT:
            qs2.append(basis_query(cid, "bkkt", fo.ilp_text(), sense_string(lp), cs, rs))
        else:
            bump("returned-basis/too-large-for-model")
        want2[cid] = (fo, cs, rs)
    t1 = time.time()
    ans2 = model_queries(qs2, M2 or M)
    print("# phase 2 model %.1fs (%d queries)" % (time.time() - t1, len(qs2)), file=sys.stderr)
    nsing = nconf = 0
    for cid, (fo, cs, rs) in want2.items():
        lp, entry, warm, cfg = rmeta[cid]
        a = ans2.get(cid)
        ops = fo.ops
        bopt = [t for t in ops if t[0] == "BOPT"]
        bdual = [t for t in ops if t[0] == "BDUALP"]
        sv = [t for t in ops if t[0] == "SOLVE"]
        itc = [t for t in ops if t[0] == "ITCNT"]
        accs = [t for t in ops if t[0] == "ACC" and t[1] == "objval"]
        if a is None and model_weight(lp) > MODEL_WEIGHT_LIMIT:
            # numbers too large for the extracted arithmetic: C-side confirmations only
            if bopt and verdict_c(bopt[0]) != ("res", 1, "0"):
                ck.violation("ret_bopt_%s.txt" % cid, rscripts[cid], "basis %s %s returned with OPTIMAL by %s is not confirmed by QSexact_basis_optimalstatus (%s)" % (cs, rs, entry, verdict_c(bopt[0])),
                             match=dict(kind="returned-not-optimal-basis", entry=entry.split()[0]))
            if len(sv) >= 2 and itc and (int(sv[-1][2]) != 0 or int(sv[-1][3]) != 1 or int(itc[-1][6]) != 0):
                ck.violation("warm_%s.txt" % cid, rscripts[cid], "warm start (%s) from the basis returned with OPTIMAL by %s does not confirm in 0 iterations" % (warm, entry),
                             match=dict(kind="warm-iterates", entry=entry.split()[0], warm=warm))
            continue
        if not a or a[0] == "err":
            ck.violation("ret_err_%s.txt" % cid, rscripts[cid], "returned basis %s %s is rejected by the basis model (%s)" % (cs, rs, a), match=dict(kind="returned-invalid"))
            continue
        if a[0] == "sing":
            nsing += 1
            bump("returned-singular")
            continue
        kkt, nbok, verdict, v = a[0] == "1", a[1] == "1", a[2] == "1", a[3]
        bar = a.index("|")
        z = a[bar + 1:a.index("|", bar + 1)]
        bump("returned-basis/kkt=%d,verdict=%d" % (kkt, verdict))
        # (a) exact basic solution = reported solution
        accx = [t for t in ops if t[0] == "ACC" and t[1] == "x"]
        accs_ = [t for t in ops if t[0] == "ACC" and t[1] == "slack"]
        if accx and accs_ and accx[0][2] == "0" and accs_[0][2] == "0":
            rep = [F(t) if t not in ("inf", "-inf") else t for t in accx[0][3:] + accs_[0][3:]]
            zz = [F(t) for t in z]
            MF = F(M)
            rep = [MF if t == "inf" else (-MF if t == "-inf" else t) for t in rep]
            if rep != zz:
                ck.violation("basic_solution_%s.txt" % cid, rscripts[cid] + "# exact basic solution of the returned basis: %s\n# reported: %s\n" % (z, accx[0][3:] + accs_[0][3:]),
                             "%s returned OPTIMAL with basis %s %s whose exact basic solution is not the reported solution" % (entry, cs, rs),
                             match=dict(kind="returned-not-basic", entry=entry.split()[0]))
        # (b) the verdict functions confirm
        if bopt:
            cb = verdict_c(bopt[0])
            if cb != ("res", 1, "0") or not verdict:
                ck.violation("ret_bopt_%s.txt" % cid, rscripts[cid] + "# model verdict %s, C verdict %s\n" % (verdict, cb),
                             "basis %s %s returned with OPTIMAL by %s is not confirmed by QSexact_basis_optimalstatus (C %s, exact verdict %s)" % (cs, rs, entry, cb, verdict),
                             match=dict(kind="returned-not-optimal-basis", entry=entry.split()[0]))
            else:
                nconf += 1
        if bdual:
            cd = verdict_c(bdual[0])
            bump("returned-basis/dualstatus=%s" % (cd[1] if cd[0] == "res" else "err"))
            if cd[0] == "res" and cd[1] == 1 and accs and accs[0][2] == "0" and kkt:
                d, ov = fq(cd[2]), fq(accs[0][3])
                if d != (-ov if lp["max"] else ov):
                    ck.violation("ret_dobj_%s.txt" % cid, rscripts[cid], "dual bound %s of the returned optimal basis differs from the optimal value %s (max=%s)" % (d, ov, lp["max"]),
                                 match=dict(kind="returned-dobj"))
        # (c) warm start confirms without iterating
        if len(sv) >= 2 and itc:
            w = sv[-1]
            wrv, wst, tot = int(w[2]), int(w[3]), int(itc[-1][6])
            bump("warm/%s/iters=%s" % (warm, "0" if tot == 0 else ">0"))
            if wrv != 0 or wst != 1 or tot != 0:
                ck.violation("warm_%s.txt" % cid, rscripts[cid], "warm start (%s) from the basis returned with OPTIMAL by %s: rval %d status %s after %d iterations" %
                             (warm, entry, wrv, STATUS.get(wst, wst), tot), match=dict(kind="warm-iterates", entry=entry.split()[0], warm=warm))
            elif len(accs) >= 2 and accs[0][2] == "0" and accs[-1][2] == "0" and fq(accs[0][3]) != fq(accs[-1][3]):
                ck.violation("warm_val_%s.txt" % cid, rscripts[cid], "warm start reports another optimal value", match=dict(kind="warm-value"))
        if len(ck.cov["samples"]) < 6:
            ck.sample(dict(lp=lp["name"], entry=entry, cfg=cfg, returned_basis=[cs, rs], exact_verdict=verdict, kkt=kkt, objval=v))

    # ------------------------------------------------------------------ 2b. QSexact_solver warm-started from a caller's basis
    # The caller's QSbasis is an in/out argument: whatever start it held, with OPTIMAL it must come back as an optimal basis.
    # Starts: the optimal basis itself; the optimal basis with nonbasic boxed columns / ranged rows moved to their other bound
    # (the dual simplex repairs those by bound flips, without a pivot); a random subset of those flips.
    wcases, wmeta = [], {}
    dcases, dmeta = [], {}
    def boxed(l, u):
        return l not in (INF, NINF) and u not in (INF, NINF) and F(l) != F(u)
    for cid, (fo, cs, rs) in want2.items():
        lp, entry, warm, cfg = rmeta[cid]
        if cs == "-" or rs == "-":
            continue
        fc = [j for j, c in enumerate(lp["cols"]) if cs[j] in "02" and boxed(c[2], c[3])]
        fr = [i for i, r in enumerate(lp["rows"]) if rs[i] in "02" and r[1] == "R" and F(r[3]) != 0]
        flip = lambda st, idx: "".join(("2" if ch == "0" else "0") if k in idx else ch for k, ch in enumerate(st))
        starts = [("same", cs, rs)]
        if fc or fr:
            starts.append(("flip-all", flip(cs, set(fc)), flip(rs, set(fr))))
            sc_, sr_ = set(j for j in fc if rng.random() < 0.5), set(i for i in fr if rng.random() < 0.5)
            if (sc_ or sr_) and (sc_, sr_) != (set(fc), set(fr)):
                starts.append(("flip-some", flip(cs, sc_), flip(rs, sr_)))
        for k, (what, c0, r0) in enumerate(starts):
            for algo in "PD":
                wid = "%s.w%d%s" % (cid, k, algo)
                pp, dp, sc = cfg
                wcases.append((wid, "\n".join(["CASE " + wid, lp_block(lp), "PARAM 0 %d" % pp, "PARAM 2 %d" % dp, "PARAM 7 %d" % sc, "SOLVE EXACT %s %s %s" % (algo, c0, r0),
                                               "ACCESS", lp_block(lp), "BOPT KEPTE -"]) + "\n"))
                wmeta[wid] = (lp, what, algo, c0, r0, cid)
                if what != "same":
                    # the same start through the direct entry points on an object that HOLDS an optimal solution: solve, load the
                    # other basis, solve again; the basis then handed back with OPTIMAL must be an optimal one
                    ent = "PRIMAL" if algo == "P" else "DUAL"
                    for lop in ("LOADBASIS", "LOADBASISQ"):     # mpq_QSload_basis_array / mpq_QSload_basis
                        did = "%s.d%d%s%s" % (cid, k, algo, lop[9:])
                        dcases.append((did, "\n".join(["CASE " + did, lp_block(lp), "PARAM 0 %d" % pp, "PARAM 2 %d" % dp, "PARAM 7 %d" % sc, "SOLVE " + ent, "%s %s %s" % (lop, c0, r0),
                                                       "SOLVE " + ent, "KEEPBASIS", "ACCESS", lp_block(lp), "BOPT KEPT -"]) + "\n"))
                        dmeta[did] = (lp, what, ent, c0, r0)
    _, wouts, wcr = run_cases("h_fac", wcases, per_case_timeout=15)
    wscripts = dict(wcases)
    ck.cov["crashes_seen"] += [dict(case=c, rc=rc) for c, rc, e in wcr]
    nwarm = 0
    for wid, toks in wouts.items():
        fo = FacOut(toks)
        lp, what, algo, c0, r0, cid = wmeta[wid]
        sv = [t for t in fo.ops if t[0] == "SOLVE"]
        eb = [t for t in fo.ops if t[0] == "EBASIS"]
        bo = [t for t in fo.ops if t[0] == "BOPT"]
        if not sv or not eb:
            continue
        rv, st = int(sv[0][2]), int(sv[0][3])
        bump("exact-warm/%s/%s/%s" % (what, algo, STATUS.get(st, st) if rv == 0 else "rval!=0"))
        if rv != 0 or st != 1:
            ck.violation("exactwarm_status_%s.txt" % wid, wscripts[wid], "QSexact_solver (%s) warm-started from %s (%s %s) of an LP solved to OPTIMAL before: rval %d status %s" %
                         (algo, what, c0, r0, rv, STATUS.get(st, st)), match=dict(kind="exact-warm-status", start=what, numbers=lp.get("numbers", "small"), got=STATUS.get(st, str(st)) if rv == 0 else "error"))
            continue
        nwarm += 1
        ck.count(("exact-warm", repr(lp["cols"]), repr(lp["rows"]), lp["max"], what, algo, c0, r0))
        b1, b2 = eb[0][1], eb[0][2]
        if not bo or verdict_c(bo[0]) != ("res", 1, "0"):
            ck.violation("exactwarm_basis_%s.txt" % wid, wscripts[wid] + "# handed back: %s %s\n" % (b1, b2),
                         "QSexact_solver (%s) warm-started from %s basis %s %s returned OPTIMAL but hands back basis %s %s, which QSexact_basis_optimalstatus does not confirm (%s)" %
                         (algo, what, c0, r0, b1, b2, verdict_c(bo[0]) if bo else None), match=dict(kind="returned-not-optimal-basis", entry="EXACT-WARM"))
    ck.cov["exact_warm_started_returns_checked"] = nwarm
    _, douts, dcr = run_cases("h_fac", dcases, per_case_timeout=15)
    dscripts = dict(dcases)
    ck.cov["crashes_seen"] += [dict(case=c, rc=rc) for c, rc, e in dcr]
    ndir = 0
    for did, toks in douts.items():
        fo = FacOut(toks)
        lp, what, ent, c0, r0 = dmeta[did]
        sv = [t for t in fo.ops if t[0] == "SOLVE"]
        kb = [t for t in fo.ops if t[0] == "KEEPBASIS"]
        bo = [t for t in fo.ops if t[0] == "BOPT"]
        ld = [t for t in fo.ops if t[0] == "LOADBASIS"]
        if len(sv) < 2 or not kb or not ld or ld[0][1] != "0":
            continue
        rv1, st1, rv2, st2 = int(sv[0][2]), int(sv[0][3]), int(sv[1][2]), int(sv[1][3])
        bump("solve-load-solve/%s/%s" % (ent, STATUS.get(st2, st2) if rv2 == 0 else "rval!=0"))
        if rv1 != 0 or st1 != 1 or rv2 != 0 or st2 != 1:
            continue
        ndir += 1
        ck.count(("solve-load-solve", repr(lp["cols"]), repr(lp["rows"]), lp["max"], ent, c0, r0))
        if not bo or verdict_c(bo[0]) != ("res", 1, "0"):
            ck.violation("loadsolve_%s.txt" % did, dscripts[did] + "# basis handed back: %s\n" % kb[0][1:3],
                         "mpq_QSopt_%s: solve, load basis %s %s (optimal basis with nonbasic entries at the other bound), solve again: OPTIMAL, but the basis handed back %s "
                         "is not confirmed by QSexact_basis_optimalstatus (%s)" % (ent.lower(), c0, r0, kb[0][1:3], verdict_c(bo[0]) if bo else None),
                         match=dict(kind="returned-not-optimal-basis", entry=ent + "-AFTER-LOAD"))
    ck.cov["solve_load_solve_returns_checked"] = ndir

    # ------------------------------------------------------------------ 3. verdict calls on an object with an edit history
    hl = small_lp_family(rng, 300 if T else 40) + [planted_lp(rng, rng.randint(2, 5), rng.randint(2, 6), "small", name="H%d" % i) for i in range(150 if T else 20)]
    hl = [lp for lp in hl if model_weight(lp) <= MODEL_WEIGHT_LIMIT]
    hcases, hplans = [], {}
    for li, lp in enumerate(hl):
        cid = "h%d" % li
        sc, plan = history_script(cid, rng, lp)
        hcases.append((cid, sc))
        hplans[cid] = (lp, plan)
    t1 = time.time()
    M3, houts, hcr = run_cases("h_fac", hcases, per_case_timeout=30)
    print("# phase 3 harness %.1fs" % (time.time() - t1), file=sys.stderr)
    hscripts = dict(hcases)
    for cid, rc, err in hcr:
        ck.violation("crash_%s.txt" % cid, hscripts[cid] + "\n# rc=%s\n# %s" % (rc, err[-1500:]), "h_fac crashed (rc %s) on verdict calls with an edit history (case %s)" % (rc, cid),
                     match=dict(kind="crash"))
    qs3, want3, finals = [], {}, {}
    for cid, toks in houts.items():
        lp, plan = hplans[cid]
        if not any(t[0] == "LP" and t[1] == "OK" for t in toks):
            continue
        senses = [r[1] for r in lp["rows"]]
        it = iter(toks)
        cur_ilp, nedits, k = None, 0, 0
        try:
            for step in plan:
                if step[0] == "DUMP":
                    blk = []
                    t = next(it)
                    while t[0] != "ILP":
                        t = next(it)
                    blk.append(t)
                    ncol = int(t[2])
                    for _ in range(ncol + 1):
                        blk.append(next(it))
                    cur_ilp = "\n".join(" ".join(x) for x in blk)
                elif step[0] == "CHG":
                    t = next(it)
                    while t[0] != "CHG":
                        t = next(it)
                    if t[1] == "0":
                        nedits += 1
                        if step[1] == "sense":
                            senses[int(step[2])] = step[3]
                    bump("history/edit-%s/rv=%s" % (step[1], t[1]))
                elif step[0] == "SOLVE":
                    t = next(it)
                    while t[0] != "SOLVE":
                        t = next(it)
                elif step[0] == "FINAL":
                    t = next(it)
                    while t[0] != "SOLVE":
                        t = next(it)
                    st_fin = (int(t[2]), int(t[3]))
                    t = next(it)
                    while not (t[0] == "ACC" and t[1] == "objval"):
                        t = next(it)
                    finals[cid] = (st_fin, t[3] if t[2] == "0" else None)
                else:
                    _, op, cs, rs = step
                    t = next(it)
                    while t[0] != op:
                        t = next(it)
                    qid = "%s.%d" % (cid, k)
                    k += 1
                    sense = "".join(senses) or "-"
                    qs3.append(basis_query(qid, "bopt" if op == "BOPT" else "bdual %d" % NEUTRAL_G, cur_ilp, sense, cs, rs))
                    want3[qid] = (cid, op, cs, rs, t, nedits, int(cur_ilp.split()[1]))
        except StopIteration:
            ck.violation("truncated_%s.txt" % cid, hscripts[cid], "harness output of history case %s is truncated" % cid, match=dict(kind="crash"))
    t1 = time.time()
    ans3 = model_queries(qs3, M3 or M)
    print("# phase 3 model %.1fs (%d queries)" % (time.time() - t1, len(qs3)), file=sys.stderr)
    nhist = 0
    for qid, (cid, op, cs, rs, t, nedits, ismax) in want3.items():
        with_d = op != "BOPT"
        mv = verdict_m(ans3.get(qid), with_d)
        cv = verdict_c(t)
        if mv is None:
            ck.violation("model_%s.txt" % qid, hscripts[cid], "model driver gave no answer for %s" % qid, no_input=True)
            continue
        if op == "VERIFY":
            # explored behaviour of the prestep path (not modelled): result 0 must mean 'not dual feasible' (the fall-back is the exact
            # test); result 1 comes with a number that is either the exact dual objective of the basis (internal sign) or the verified
            # optimal value of the LP reached by the double dual simplex from that basis
            nhist += 1
            fin = finals.get(cid)
            tail = "# call VERIFY 1 %s %s: library %s, exact dual status of the basis %s, exact solve of the final problem %s\n" % (cs, rs, cv, mv, fin)
            if cv[0] != "res":
                bump("verify-prestep/rv!=0")
                if mv[0] != "err":
                    ck.violation("verify1_err_%s.txt" % qid, hscripts[cid] + tail, "QSexact_verify (useprestep=1) fails for a basis the loader accepts", match=dict(kind="verify-prestep-error"))
                continue
            if cv[1] == 0:
                bump("verify-prestep/result=0,exact=%s" % (mv[1] if mv[0] == "res" else mv[0]))
                if mv[0] == "res" and mv[1] == 1:
                    ck.violation("verify1_miss_%s.txt" % qid, hscripts[cid] + tail, "QSexact_verify (useprestep=1) answers 'no' for a dual feasible basis (%s %s)" % (cs, rs), match=dict(kind="verify-prestep-misses"))
                continue
            d = fq(cv[2])
            if mv[0] == "res" and mv[1] == 1 and d == fq(mv[2]):
                bump("verify-prestep/result=1,value=exact-dual-objective-of-the-basis(internal-sign)")
                continue
            ov = fq(fin[1]) if fin and fin[0] == (0, 1) and fin[1] is not None else None
            if ov is not None and d == ov:
                bump("verify-prestep/result=1,value=LP-optimum(user-sign),basis-dual-feasible=%s" % (mv[1] if mv[0] == "res" else mv[0]))
                if ismax and ov != 0:
                    ck.violation("verify1_sign_%s.txt" % qid, hscripts[cid] + tail,
                                 "QSexact_verify reports dobjval in the user's sign on the prestep path (%s) but in the internal (minimisation) sign on the fall-back path for the same MAX problem" % cv[2],
                                 match=dict(kind="verify-prestep-sign"))
                continue
            if ov is not None and ismax and d == -ov:
                bump("verify-prestep/result=1,value=LP-optimum(internal-sign)")
                continue
            ck.violation("verify1_value_%s.txt" % qid, hscripts[cid] + tail, "QSexact_verify (useprestep=1) reports result 1 with a value (%s) that is neither the dual objective of the basis nor the optimal value of the LP" % cv[2],
                         match=dict(kind="verify-prestep-value"))
            continue
        nhist += 1
        ck.count(("hist", hscripts[cid], qid), nontrivial=(mv[0] == "res" and nedits > 0))
        if mv[0] == "sing":
            bump("history/singular")
            if cv[0] == "res" and cv[1] == 1:
                ck.violation("hist_singular_%s.txt" % qid, hscripts[cid] + "# call %s %s %s\n" % (op, cs, rs),
                             "%s answered 'yes' for a singular basis (%s %s) on an edited object" % (op, cs, rs), match=dict(kind="singular-optimal"))
            continue
        bump("history/after-%d-edits/%s" % (min(nedits, 3), "agree" if same(cv, mv, with_d) else "DIFFER"))
        if not same(cv, mv, with_d):
            ck.violation("hist_%s.txt" % qid, hscripts[cid] + "# call %s %s %s (after %d successful edits): exact answer for the CURRENT problem %s, library %s\n" % (op, cs, rs, nedits, mv, cv),
                         "QSexact_basis_%s on an object with an edit history (%d edits before the call) answers %s for basis %s %s; the exact verdict of the current problem is %s "
                         "(correspondence with Basis.lib_%s on the dump taken after the edits)" % ("optimalstatus" if op == "BOPT" else "dualstatus", nedits, cv, cs, rs, mv, "optimalstatus" if op == "BOPT" else "dualstatus"),
                         match=dict(kind="corr-history"))
    ck.cov["history_calls"] = nhist
    if not pr["ok"]:
        ck.violation("proof.txt", pr["log"], "proof obligation(s) of Properties_C12.v no longer check: %s" % pr["failed"], no_input=not ck.violations)
    ck.cov["rule"] = ("part 1: every (basic set, at-lower/at-upper/free of the rest) of small LPs (<= 3 rows x 4 columns; all bound shapes, senses incl. ranged, MIN/MAX, "
                      "duplicate/zero columns) plus random bases of LPs up to 7x9, each through QSexact_basis_optimalstatus, _dualstatus (stack prepared) and QSexact_verify; "
                      "verdict and dual bound compared with the extracted model; non-trivial = the basis is accepted by the loader and non-singular (a verdict exists); distinct by LP data + basis. "
                      "part 2: every basis returned with OPTIMAL by QSexact_solver / mpq_QSopt_primal / _dual under random pricing/scaling: count, exact basic solution = reported solution, "
                      "verdict functions, warm start with 0 iterations. part 3: the same correspondence on ONE object with an edit history: verdict calls, then rounds of 1-3 edits (bound, objective coefficient, rhs, coefficient, sense, objective sense; sometimes a solve in between), each followed by verdict calls for 5 bases judged by the model on the dump taken after the edits")
    ck.cov["histogram"] = dict(sorted(hist.items()))
    ck.cov["returned_bases_judged"] = nret
    ck.cov["returned_bases_confirmed"] = nconf
    ck.cov["returned_bases_singular"] = nsing
    ck.cov["exhaustive"] = False
    ck.cov["traces_validated_against_impl"] = nverd
    ck.cov["evaluations"] = nverd + len(rcases) + nhist
    ck.cov["not_covered"] = ("singular bases: no verdict in the model, the library must answer 'no' through every entry point (the repair order of ILLbasis_factor is not modelled; it is no longer "
                             "observable through the verdict functions); QSexact_verify with prestep (floating point path) is explored, not modelled: result 0 must mean 'not dual feasible', result 1 must come "
                             "with the exact dual objective of the basis or the verified optimum of the LP; dual feasibility of returned bases is explored, not proved")
    ck.assumptions = ["Coq kernel; extraction (ExtrOcamlBasic) + OCaml compiler", "harness h_fac + text protocol", "GMP = exact rational arithmetic",
                      "the LU factorization is replaced by exact Gauss-Jordan in the model (C13 covers the LU code)"]
    ck.finish(trusted_base=["coqc 8.16.1 kernel", "OCaml extraction (ExtrOcamlBasic only)", "harness h_fac.c + checks/C12.py + checks/fac_common.py"])


main_guard(main)
