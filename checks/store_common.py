"""Script generation / output parsing for the store domain (h_store <-> drv_store).

A *script* is a list of op lines (see harness/h_store.c).  Both sides answer every op with
one record: either a single "R <OP> <OK|ERR|SKIP|NA> ..." line or a block ending in "END".
A *shadow* (sizes, names, senses; no numbers) steers the generators so that op arguments
are aimed at what currently exists; it is never used as a judge."""
from fractions import Fraction as F
import os, subprocess, random
from lib import *
from gen_lp import qs, rand_q, INF, NINF

BLOCK_OPS = ("DUMP", "DUMPI", "DUMPM", "DUMPMF", "ACCESS", "DUMPALL", "DUMPDBL", "DUMPMPF")
INT_MAX = 2147483647


# ----------------------------------------------------------------------------- running both sides

def run_c(script_text, asan=False, timeout=600):
    rc, out, err = run_harness("h_store", script_text, asan=asan, timeout=timeout)
    return rc, out, err


# which matrix_addrow the library has: "orig" (as found: exit(1) when a row repeats a column index and the store is nearly
# full, open finding F-C06-matrix-addrow-exit) or "fixed" (notes/repo_patches/matrix_addrow_repeated_column.diff).  The model
# has both (Store.Matrix: parameter `fixed`); the driver takes the variant from QSX_L2_ADDROW.
ADDROW_PROBE = ["CREATE h0 p MIN", "NEWROW h0 0 L -", "NEWROW h0 0 L -", "NEWROW h0 0 L -",
                "ADDCOL h0 0 0 inf a 3 0 1 1 1 2 1", "ADDCOL h0 0 0 inf b 993" + " 0 1" * 993, "DELROW h0 2",
                "ADDROW h0 0 L - 2 0 5 0 7", "Q h0 counts"]
_l2_variant = None


def l2_variant():
    """probe the library once: column 0 (two entries) is followed by one hole, matfree = 1, the new row lists column 0 twice"""
    global _l2_variant
    if _l2_variant is None:
        rc, out, err = run_harness("h_store", "CASE probe\nRESET\n" + "\n".join(ADDROW_PROBE) + "\n", timeout=60)
        recs = records(out)[1].get("probe", [])
        done = len(recs) == len(ADDROW_PROBE) + 1 and rec_status(recs[-2]) == "OK" and rec_payload(recs[-1]) == ["2", "3", "997"]
        died_there = len(recs) == len(ADDROW_PROBE) - 1 and rc != 0
        _l2_variant = "fixed" if (rc == 0 and done) else ("orig" if died_there else "unknown")
        os.environ["QSX_L2_ADDROW"] = "orig" if _l2_variant == "orig" else "fixed"
    return _l2_variant


def run_m(script_text, M, timeout=600):
    build_model()
    l2_variant()
    exe = os.path.join(VERIF, "ocaml", "gen", "drv_store")
    r = sh([exe], timeout=timeout, input="M %s\n" % M + script_text)
    if r.returncode != 0:
        raise Fail("drv_store failed: " + r.stderr[-2000:])
    return r.stdout


def records(out):
    """output text -> (M, {case id: [record]}); record = list of token lists (1 for single lines).
    Lines of forked children are part of the stream like any other."""
    M, cases, cur, block = None, {}, None, None
    for line in out.splitlines():
        t = line.replace("\x00", "\\0").split()
        if not t:
            continue
        if t[0] == "M" and len(t) == 2 and M is None:
            M = t[1]
            continue
        if t[0] == "CASE":
            cur = cases.setdefault(t[1], [])
            block = None
            continue
        if cur is None:
            continue
        if block is not None:
            block.append(t)
            if t[0] == "END":
                block = None
            continue
        if t[0] in ("R", "FORKEND", "ECHO"):
            cur.append([t])
        else:
            block = [t]
            cur.append(block)
            if t[0] == "END":
                block = None
    return M, cases


def rec_status(rec):
    t = rec[0]
    if t[0] == "R":
        return t[2]
    if t[0] == "FORKEND":
        return "FORKEND"
    return "BLOCK"


def norm_ur(l):
    """the range value of a row that is not ranged is not problem data (QSget_ranged_rows reports what an earlier
    'R' life of the row left in rangeval; a copy reports 0): compare it as 0"""
    if l and l[0] == "UR" and len(l) > 4 and l[2] != "R":
        return l[:4] + ["0"] + l[5:]
    return l


def rec_payload(rec, op=None):
    t = rec[0]
    if t[0] == "R":
        pl = [x for x in t[3:] if not x.startswith("rv=")]
        if op is not None and op.split()[2:3] in (["rrows"], ["rrowslist"]):
            # segments: | name sense rhs range cnt (ind val)*
            for i, x in enumerate(pl):
                if x == "|" and i + 4 < len(pl) and pl[i + 2] != "R":
                    pl[i + 4] = "0"
        return pl
    return [" ".join(norm_ur(l)) for l in rec]


def run_cases_both(cases, asan=False, jobs=16, per_case_timeout=60):
    """cases: [(cid, [op lines])] -> (M, {cid: c_records}, {cid: m_records}, crashes)"""
    texts = [(cid, "CASE %s\nRESET\n" % cid + "\n".join(ops) + "\n") for cid, ops in cases]
    M, couts, crashes = run_cases_raw("h_store", texts, asan=asan, jobs=jobs, per_case_timeout=per_case_timeout)
    # the model side in parallel chunks as well (cases are independent: each starts with CASE / RESET); one serial run of the
    # extracted model over a whole thorough tier exceeded its time limit once the per-cell coefficient sweeps were added
    from concurrent.futures import ThreadPoolExecutor
    build_model()
    nch = max(1, min(len(texts), jobs))
    chunks = ["".join(t for _, t in texts[i::nch]) for i in range(nch)]
    with ThreadPoolExecutor(max_workers=jobs) as ex:
        mouts = list(ex.map(lambda c: run_m(c, M, timeout=1800), chunks))
    mrec = {}
    for mo in mouts:
        mrec.update(records(mo)[1])
    return M, couts, mrec, crashes


def run_cases_raw(harness, cases, asan=False, per_case_timeout=60, jobs=16):
    """like lib.run_cases but keeps blocks (uses records())"""
    from concurrent.futures import ThreadPoolExecutor
    if not cases:
        return None, {}, []
    nchunks = max(1, min(len(cases), jobs * 2))
    chunks = [cases[i::nchunks] for i in range(nchunks)]

    def run_chunk(ch):
        rc, out, err = run_harness(harness, "".join(s for _, s in ch), timeout=per_case_timeout * len(ch) + 30, asan=asan)
        if rc == 0:
            return [(out, None)]
        if len(ch) == 1:
            return [(out, (ch[0][0], rc, err[-3000:]))]
        res = []
        for c in ch:
            rc1, out1, err1 = run_harness(harness, c[1], timeout=per_case_timeout + 30, asan=asan)
            res.append((out1, None if rc1 == 0 else (c[0], rc1, err1[-3000:])))
        return res

    M, allc, crashes = None, {}, []
    with ThreadPoolExecutor(max_workers=jobs) as ex:
        for res in ex.map(run_chunk, chunks):
            for out, crash in res:
                m, cs = records(out)
                M = M or m
                allc.update(cs)
                if crash:
                    crashes.append(crash)
    return M, allc, crashes


# ----------------------------------------------------------------------------- comparison

def compare_case(ops, crec, mrec):
    """ops: op lines (without the leading RESET).  Returns list of (op index, kind, detail).
    kinds: valid-rejected (model OK, lib ERR), invalid-accepted (model ERR, lib OK),
    payload (both OK, different answers), dump (DUMP blocks differ), nzcount, missing"""
    diffs = []
    last_both_err = False
    any_both_err = False        # a failed edit happened earlier: later divergences may be its residue (C07: phantom names ...)
    # record 0 is RESET
    for k, op in enumerate(ops):
        i = k + 1
        if i >= len(crec) or i >= len(mrec):
            diffs.append((k, "missing", "C records %d, model records %d" % (len(crec), len(mrec))))
            break
        c, m = crec[i], mrec[i]
        sc, sm = rec_status(c), rec_status(m)
        if sm == "NA":
            continue
        name = op.split()[0]
        if name in BLOCK_OPS:
            if sc == "BLOCK" and sm == "BLOCK":
                if rec_payload(c) != rec_payload(m):
                    diffs.append((k, "state-after-failed-call" if (last_both_err or any_both_err) else ("rawstore" if name.startswith("DUMPM") else "dump"), first_diff(rec_payload(c), rec_payload(m))))
            elif sc != sm:
                diffs.append((k, "dump", "C %s / model %s" % (sc, sm)))
            continue
        if sc == "SKIP" or sm == "SKIP":
            if sc != sm:
                diffs.append((k, "skip", "C %s / model %s" % (" ".join(c[0]), " ".join(m[0]))))
            continue
        last_both_err = (sm == "ERR" and sc == "ERR")
        if last_both_err and name != "Q":
            any_both_err = True
        if sm == "OK" and sc == "ERR":
            diffs.append((k, "state-after-failed-call" if any_both_err else "valid-rejected", op))
        elif sm == "ERR" and sc == "OK":
            diffs.append((k, "invalid-accepted", op))
        elif sm == "OK" and sc == "OK":
            pc, pm = rec_payload(c, op), rec_payload(m, op)
            if pc != pm:
                if op.split()[2:3] == ["counts"] and pc[:2] == pm[:2]:
                    diffs.append((k, "nzcount", "library %s, model %s" % (pc[2], pm[2])))
                else:
                    diffs.append((k, "state-after-failed-call" if any_both_err else "payload", "library: %s | model: %s" % (" ".join(pc)[:300], " ".join(pm)[:300])))
    return diffs


def first_diff(a, b):
    for x, y in zip(a, b):
        if x != y:
            return "library: %s | model: %s" % (x[:200], y[:200])
    return "library %d lines, model %d lines" % (len(a), len(b))


# ----------------------------------------------------------------------------- shadow + generators

def gen_name(pre, names):
    base = "%s%d" % (pre, len(names) + 1)
    if base not in names:
        return base
    k = 0
    while "%s_%d" % (base, k) in names:
        k += 1
    return "%s_%d" % (base, k)


class Shadow:
    def __init__(self):
        self.cols = []      # names
        self.rows = []      # names
        self.senses = []
        self.colent = []    # per column: list of row indices with a stored entry (duplicates kept)

    def copy(self):
        s = Shadow()
        s.cols, s.rows, s.senses = list(self.cols), list(self.rows), list(self.senses)
        s.colent = [list(e) for e in self.colent]
        return s

    def add_col(self, nm, rows):
        self.cols.append(nm if nm != "-" else gen_name("x", self.cols))
        self.colent.append(list(rows))

    def add_row(self, nm, sense, cols):
        i = len(self.rows)
        self.rows.append(nm if nm != "-" else gen_name("c", self.rows))
        self.senses.append(sense)
        for j in cols:
            self.colent[j].append(i)

    def del_rows(self, ds):
        for i in sorted(set(ds), reverse=True):
            del self.rows[i]
            del self.senses[i]
            self.colent = [[(k - 1 if k > i else k) for k in e if k != i] for e in self.colent]

    def del_cols(self, ds):
        for j in sorted(set(ds), reverse=True):
            del self.cols[j]
            del self.colent[j]

    def nz(self):
        return sum(len(e) for e in self.colent)


class Gen:
    """random valid edit/query ops aimed at the shadow state of handle h"""

    def __init__(self, rng, h="h0", numkind=None, tag=""):
        self.rng = rng
        self.h = h
        self.sh = Shadow()
        self.kind = numkind or rng.choice(["small", "small", "frac", "awkward", "huge"])
        self.tag = tag
        self.ctr = 0
        self.hist = {}

    def q(self, zero_ok=True):
        r = self.rng.random()
        if zero_ok and r < 0.08:
            return "0"
        if r < 0.12:
            return self.rng.choice(["inf", "-inf"])
        return qs(rand_q(self.rng, self.kind))

    def bound_pair(self):
        lo, up = self.rng.choice([(0, INF), (NINF, INF), (0, 0), (1, 4), (NINF, 3), (-2, INF), (2, 2), (5, 1)])
        return qs(lo), qs(up)

    def fresh(self, pre, names):
        r = self.rng.random()
        if r < 0.3:
            return "-"
        if r < 0.4:      # names of the generated shape, to collide with later generated names
            cand = "%s%d" % ("c" if pre == "r" else "x", self.rng.randint(1, len(names) + 3))
            if self.rng.random() < 0.3:
                cand += "_%d" % self.rng.randint(0, 1)
            return cand if cand not in names else "-"
        self.ctr += 1
        return "%s%s%d" % (pre, self.tag, self.ctr)

    def sparse(self, n, dup=True, maxk=6):
        if n == 0:
            return []
        k = self.rng.randint(0, min(maxk, n + 1))
        idx = [self.rng.randrange(n) for _ in range(k)]
        if not dup or self.rng.random() < 0.7:
            idx = list(dict.fromkeys(idx))
        return idx

    def ent_text(self, idx):
        return "%d%s" % (len(idx), "".join(" %d %s" % (i, self.q()) for i in idx))

    def count(self, k):
        self.hist[k] = self.hist.get(k, 0) + 1

    # --- single ops: each returns a list of op lines (usually one) and updates the shadow
    def op(self, weights=None):
        sh, rng, h = self.sh, self.rng, self.h
        n, m = len(sh.cols), len(sh.rows)
        choices = ["NEWCOL", "ADDCOL", "NEWROW", "ADDROW", "ADDRROW", "ADDCOLS", "ADDROWS", "ADDRROWS", "CHGOBJSENSE", "SETPARAM", "SETPARAMQ", "QUERY", "QUERY"]
        if n:
            choices += ["DELCOL", "DELCOLS", "DELSETCOLS", "DELNCOL", "DELNCOLS", "CHGOBJ", "CHGBND", "CHGBNDS", "MARKINT", "QUERYC"]
        if m:
            choices += ["DELROW", "DELROWS", "DELSETROWS", "DELNROW", "DELNROWS", "CHGRHS", "CHGSENSE", "CHGSENSES", "QUERYR"]
        if n and m:
            choices += ["CHGCOEF", "CHGCOEF", "CHGCOEF", "QCOEF"]
        if "R" in sh.senses:
            choices += ["CHGRANGE"]
        if weights:
            choices = [c for c in choices if weights.get(c, 1) > 0 for _ in range(weights.get(c, 1))]
        k = rng.choice(choices)
        self.count(k)
        if k == "NEWCOL":
            lo, up = self.bound_pair()
            nm = self.fresh("v", sh.cols)
            sh.add_col(nm, [])
            return ["NEWCOL %s %s %s %s %s" % (h, self.q(), lo, up, nm)]
        if k == "ADDCOL":
            lo, up = self.bound_pair()
            nm = self.fresh("v", sh.cols)
            idx = self.sparse(m)
            sh.add_col(nm, idx)
            return ["ADDCOL %s %s %s %s %s %s" % (h, self.q(), lo, up, nm, self.ent_text(idx))]
        if k == "ADDCOLS":
            num = rng.randint(0, 3)
            parts = []
            for _ in range(num):
                lo, up = self.bound_pair()
                nm = self.fresh("v", sh.cols)
                idx = self.sparse(m)
                sh.add_col(nm, idx)
                parts.append("%s %s %s %s %s" % (self.q(), lo, up, nm, self.ent_text(idx)))
            return ["ADDCOLS %s %d %s" % (h, num, " ".join(parts))]
        if k == "NEWROW":
            nm = self.fresh("r", sh.rows)
            s = rng.choice("LGER")
            sh.add_row(nm, s, [])
            return ["NEWROW %s %s %s %s" % (h, self.q(), s, nm)]
        if k in ("ADDROW", "ADDRROW"):
            nm = self.fresh("r", sh.rows)
            s = rng.choice("LGER") if k == "ADDROW" else rng.choice("RRRLGE")
            idx = self.sparse(n)
            sh.add_row(nm, s, idx)
            if k == "ADDROW":
                return ["ADDROW %s %s %s %s %s" % (h, self.q(), s, nm, self.ent_text(idx))]
            return ["ADDRROW %s %s %s %s %s %s" % (h, self.q(), s, self.q(), nm, self.ent_text(idx))]
        if k in ("ADDROWS", "ADDRROWS"):
            num = rng.randint(0, 3)
            parts = []
            for _ in range(num):
                nm = self.fresh("r", sh.rows)
                s = rng.choice("LGER")
                idx = self.sparse(n)
                sh.add_row(nm, s, idx)
                if k == "ADDROWS":
                    parts.append("%s %s %s %s" % (self.q(), s, nm, self.ent_text(idx)))
                else:
                    parts.append("%s %s %s %s %s" % (self.q(), s, self.q(), nm, self.ent_text(idx)))
            return ["%s %s %d %s" % (k, h, num, " ".join(parts))]
        if k in ("DELROW", "DELCOL"):
            cnt = m if k == "DELROW" else n
            i = rng.randrange(cnt)
            (sh.del_rows if k == "DELROW" else sh.del_cols)([i])
            return ["%s %s %d" % (k, h, i)]
        if k in ("DELROWS", "DELCOLS"):
            cnt = m if k == "DELROWS" else n
            ds = rng.sample(range(cnt), rng.randint(0, min(cnt, 4)))
            (sh.del_rows if k == "DELROWS" else sh.del_cols)(ds)
            return ["%s %s %d %s" % (k, h, len(ds), " ".join(map(str, ds)))]
        if k in ("DELSETROWS", "DELSETCOLS"):
            cnt = m if k == "DELSETROWS" else n
            flags = [rng.choice([0, 0, 0, 1, 2]) for _ in range(cnt)]
            ds = [i for i, f in enumerate(flags) if f == 1]
            (sh.del_rows if k == "DELSETROWS" else sh.del_cols)(ds)
            return ["%s %s %d %s" % (k, h, cnt, " ".join(map(str, flags)))]
        if k in ("DELNROW", "DELNCOL"):
            names = sh.rows if k == "DELNROW" else sh.cols
            i = rng.randrange(len(names))
            nm = names[i]
            (sh.del_rows if k == "DELNROW" else sh.del_cols)([i])
            return ["%s %s %s" % (k, h, nm)]
        if k in ("DELNROWS", "DELNCOLS"):
            names = sh.rows if k == "DELNROWS" else sh.cols
            ds = rng.sample(range(len(names)), rng.randint(0, min(len(names), 3)))
            nms = [names[i] for i in ds]
            (sh.del_rows if k == "DELNROWS" else sh.del_cols)(ds)
            return ["%s %s %d %s" % (k, h, len(nms), " ".join(nms))]
        if k == "CHGCOEF":
            j = rng.randrange(n)
            if sh.colent[j] and rng.random() < 0.5:
                i = rng.choice(sh.colent[j])
            else:
                i = rng.randrange(m)
                if i not in sh.colent[j]:
                    sh.colent[j].append(i)
            return ["CHGCOEF %s %d %d %s" % (h, i, j, self.q())]
        if k == "CHGOBJ":
            return ["CHGOBJ %s %d %s" % (h, rng.randrange(n), self.q())]
        if k == "CHGRHS":
            return ["CHGRHS %s %d %s" % (h, rng.randrange(m), self.q())]
        if k == "CHGRANGE":
            i = rng.choice([i for i, s in enumerate(sh.senses) if s == "R"])
            return ["CHGRANGE %s %d %s" % (h, i, self.q())]
        if k == "CHGSENSE":
            i = rng.randrange(m)
            s = rng.choice("LGER")
            sh.senses[i] = s
            return ["CHGSENSE %s %d %s" % (h, i, s)]
        if k == "CHGSENSES":
            kk = rng.randint(0, min(m, 3))
            parts = []
            for _ in range(kk):
                i = rng.randrange(m)
                s = rng.choice("LGER")
                sh.senses[i] = s
                parts.append("%d %s" % (i, s))
            return ["CHGSENSES %s %d %s" % (h, kk, " ".join(parts))]
        if k == "CHGBND":
            return ["CHGBND %s %d %s %s" % (h, rng.randrange(n), rng.choice("LUB"), self.q())]
        if k == "CHGBNDS":
            kk = rng.randint(0, min(n, 3))
            return ["CHGBNDS %s %d %s" % (h, kk, " ".join("%d %s %s" % (rng.randrange(n), rng.choice("LUB"), self.q()) for _ in range(kk)))]
        if k == "CHGOBJSENSE":
            return ["CHGOBJSENSE %s %s" % (h, rng.choice(["MIN", "MAX"]))]
        if k == "SETPARAM":
            pid, vals = rng.choice([(0, [1, 2, 3, 4]), (2, [6, 7, 8, 9]), (4, [0, 1, 2, 3]), (5, [1, 7, 500000, INT_MAX]), (7, [0, 1])])
            return ["SETPARAM %s %d %d" % (h, pid, rng.choice(vals))]
        if k == "SETPARAMQ":
            pid = rng.choice([6, 8, 9])
            v = rng.choice(["1", "1/2", "1024", "123", "inf", "-inf", "-5", "7/4"]) if pid != 6 else rng.choice(["1", "1/2", "1024", "3/4", "65536"])
            return ["SETPARAMQ %s %d %s" % (h, pid, v)]
        if k == "MARKINT":
            return ["MARKINT %s %d" % (h, rng.randrange(n))]
        if k == "QCOEF":
            return ["Q %s coef %d %d" % (h, rng.randrange(m), rng.randrange(n))]
        if k == "QUERY":
            w = rng.choice(["counts", "obj", "rhs", "senses", "bounds", "objsense", "rows", "rrows", "cols", "rownames", "colnames", "intflags", "intcount",
                            "params", "param %d" % rng.choice([0, 2, 4, 5, 7]), "paramq %d" % rng.choice([6, 8, 9])])
            return ["Q %s %s" % (h, w)]
        if k == "QUERYC":
            kk = rng.randint(0, 3)
            l = " ".join(str(rng.randrange(n)) for _ in range(kk))
            w = rng.choice(["objlist %d %s" % (kk, l), "boundslist %d %s" % (kk, l), "colslist %d %s" % (kk, l),
                            "bound %d %s" % (rng.randrange(n), rng.choice("LU")), "colidx %s" % rng.choice(sh.cols)])
            return ["Q %s %s" % (h, w)]
        if k == "QUERYR":
            kk = rng.randint(0, 3)
            l = " ".join(str(rng.randrange(m)) for _ in range(kk))
            w = rng.choice(["rowslist %d %s" % (kk, l), "rrowslist %d %s" % (kk, l), "rowidx %s" % rng.choice(sh.rows)])
            return ["Q %s %s" % (h, w)]
        raise AssertionError(k)

    def load(self, n, m, dens=0.5, named=True):
        """LOAD op creating an n x m problem (names partly absent)"""
        rng, h = self.rng, self.h
        self.sh = Shadow()
        rows = []
        for i in range(m):
            nm = ("R%s%d" % (self.tag, i)) if (named and rng.random() < 0.8) else "-"
            s = rng.choice("LGE")
            rows.append((nm, s, self.q()))
        # rows exist before the columns are added
        for nm, s, _ in rows:
            self.sh.add_row(nm, s, [])
        cols = []
        for j in range(n):
            nm = ("V%s%d" % (self.tag, j)) if (named and rng.random() < 0.8) else "-"
            lo, up = self.bound_pair()
            idx = [i for i in range(m) if rng.random() < dens]
            if idx and rng.random() < 0.15:
                idx.append(rng.choice(idx))
            self.sh.add_col(nm, idx)
            cols.append("%s %s %s %s %s" % (nm, self.q(), lo, up, self.ent_text(idx)))
        if not any(c.split()[0] != "-" for c in cols):
            pass
        self.count("LOAD")
        return ["LOAD %s p %s %d %d %s %s" % (h, rng.choice(["MIN", "MAX"]), n, m, " ".join(cols),
                                              " ".join("%s %s %s" % r for r in rows))]


def shrink(ops, still_fails, budget=80):
    """greedy delta debugging on the op list; still_fails(ops) -> bool (keeps the last op)"""
    cur = list(ops)
    tries = 0
    chunk = max(1, len(cur) // 2)
    while chunk >= 1 and tries < budget:
        i = 0
        changed = False
        while i < len(cur) - 1 and tries < budget:
            cand = cur[:i] + cur[i + chunk:] if i + chunk < len(cur) else cur[:i] + cur[-1:]
            if len(cand) < len(cur) and cand:
                tries += 1
                if still_fails(cand):
                    cur = cand
                    changed = True
                    continue
            i += chunk
        if not changed:
            chunk //= 2
    return cur


def crash_signature(ops):
    """re-run a script under ASan/UBSan and return (crashed, first diagnostic line)"""
    rc, out, err = run_harness("h_store", "CASE x\nRESET\n" + "\n".join(ops) + "\n", asan=True, timeout=300)
    diagnosed = any(("runtime error:" in l or "ERROR: AddressSanitizer" in l) for l in err.splitlines())
    if rc == 0 or not diagnosed:
        # the sanitizer build does not show it (layout dependent, e.g. an uninitialised size field): ask valgrind about the plain build
        rc2, _, err2 = run_harness("h_store", "CASE x\nRESET\n" + "\n".join(ops) + "\n", asan=False, timeout=300, env={"QSX_LOG": "1"})
        logs = [l for l in err2.splitlines() if l.startswith("LOG ")]
        if rc2 == 1 and logs and "WHAT:" in logs[-1]:
            # matrix_addrow's internal consistency test: the library calls exit(1)
            return True, "library called exit(1) in matrix_addrow (log: %s) @ matrix_addrow qsopt_ex/lib.c" % logs[-1][4:]
        vg = valgrind_first_error(ops)
        if rc2 == 0 and rc == 0 and not vg:
            return False, ""
        return True, "plain build rc=%d, sanitizer build rc=%d; valgrind: %s" % (rc2, rc, vg or "-")
    for l in err.splitlines():
        if "runtime error:" in l or "ERROR: AddressSanitizer" in l:
            sig = l.strip()
            break
    else:
        sig = "rc=%d" % rc
    site = ""
    for l in err.splitlines():
        l = l.strip()
        if l.startswith("#") and " in " in l and "qsopt_ex/" in l:
            site = l.split(" in ", 1)[1]
            break
    if "runtime error" in sig:
        site = sig.split(":")[0]
    return True, (sig[:160] + " @ " + site)


def valgrind_first_error(ops):
    """first memcheck error with library frames: 'kind: f1 < f2 < f3 ...' (innermost first)"""
    import shutil, re
    if not shutil.which("valgrind"):
        return ""
    exe = os.path.join(build_repo(), "h_store")
    try:
        r = sh(["valgrind", "-q", "--error-limit=no", exe], input="CASE x\nRESET\n" + "\n".join(ops) + "\n", timeout=600)
    except subprocess.TimeoutExpired:
        return ""
    lines = [l.split("== ", 1)[-1] for l in r.stderr.splitlines()]
    errs = []
    for i, l in enumerate(lines):
        if l.startswith("Conditional jump") or l.startswith("Invalid ") or l.startswith("Use of uninitialised"):
            frames = []
            for l2 in lines[i + 1:i + 12]:
                m = re.match(r"\s+(?:at|by) 0x[0-9A-F]+: (\w+)", l2)
                if not m:
                    break
                frames.append(m.group(1))
            lib = [f for f in frames if re.match(r"(mpq|dbl|mpf)_(ILL|QS)|QS|ILL", f)]
            if lib:
                errs.append((l.strip(), lib))
    if not errs:
        return ""
    # an error inside ILLlib_addrows (uninitialised rownorms_size) explains the later invalid writes: prefer it
    for kind, lib in errs:
        if any("ILLlib_addrows" in f for f in lib):
            return "%s: %s" % (kind, " < ".join(lib[:5]))
    inv = [e for e in errs if e[0].startswith("Invalid")]
    kind, lib = (inv or errs)[0]
    return "%s: %s" % (kind, " < ".join(lib[:5]))


def crash_site(sig):
    """coarse site key used in known-finding matches: function (or source file) of the first library frame"""
    import re
    if sig.startswith("plain build"):
        if "ILLlib_addrows" in sig:
            return "ILLlib_addrows"
        m = re.search(r"valgrind: [^:]*: (\w+)", sig)
        return re.sub(r"^(mpq|dbl|mpf)_", "", m.group(1)) if m else "plain-build-only"
    m = re.search(r"@ (?:0x[0-9a-f]+ in )?(\w+) qsopt_ex/", sig)
    if m:
        return re.sub(r"^(mpq|dbl|mpf)_", "", m.group(1))
    m = re.search(r"qsopt_ex/(\w+?)(?:_mpq|_dbl|_mpf)?\.c", sig)
    return m.group(1) if m else "?"
