"""Script building / output parsing for the solve domain (h_solve <-> drv_solve)."""
from fractions import Fraction as F
from gen_lp import lp_block

STATUS = {1: "OPTIMAL", 2: "INFEASIBLE", 3: "UNBOUNDED", 4: "ITER_LIMIT", 5: "TIME_LIMIT", 6: "UNSOLVED", 7: "ABORTED", 8: "NUMERR", 9: "OBJ_LIMIT", 100: "MODIFIED"}
PPRICE = [1, 2, 3, 4]
DPRICE = [6, 7, 9, 8]
ENTRIES = ["EXACT P", "EXACT D", "PRIMAL", "DUAL"]


def config_lines(cfg):
    """cfg: dict(entry, pp, dp, scale, maxit(optional), warm in {none, kept, arb})"""
    out = []
    if cfg.get("pp") is not None:
        out.append("PARAM 0 %d" % cfg["pp"])
    if cfg.get("dp") is not None:
        out.append("PARAM 2 %d" % cfg["dp"])
    if cfg.get("scale") is not None:
        out.append("PARAM 7 %d" % cfg["scale"])
    if cfg.get("maxit") is not None:
        out.append("PARAM 5 %d" % cfg["maxit"])
    return out


def solve_line(cfg):
    e = cfg["entry"]
    if e.startswith("EXACT"):
        w = cfg.get("warm", "none")
        if w == "kept":
            return "SOLVE %s KEPT" % e
        if w == "arb" and cfg.get("basis"):
            return "SOLVE %s %s %s" % (e, cfg["basis"][0], cfg["basis"][1])
        return "SOLVE " + e
    return "SOLVE " + e


def case_script(cid, lp, cfg):
    lines = ["CASE %s" % cid, lp_block(lp)]
    w = cfg.get("warm", "none")
    if w == "kept":
        # a first plain solve provides the basis that is then re-used
        lines += ["SOLVE EXACT P", "KEEPBASIS"]
        if not cfg["entry"].startswith("EXACT"):
            lines += ["LOADKEPT"]
    elif w == "arb" and cfg.get("basis") and not cfg["entry"].startswith("EXACT"):
        lines += ["LOADBASIS %s %s" % cfg["basis"]]
    lines += config_lines(cfg)
    lines += [solve_line(cfg), "ACCESS", "GETBASIS", "DUMP"]
    return "\n".join(lines) + "\n"


class CaseOut:
    """parsed output of one case"""
    def __init__(self, toks):
        self.lines = toks
        self.solves = []      # (kind, rval, status)
        self.acc = {}
        self.x = self.y = None
        self.ilp = []         # raw token lines of ILP block
        self.ulp = []
        self.basis = None
        self.ebasis = None
        self.lp_ok = None
        self.other = []
        for t in toks:
            k = t[0]
            if k == "LP":
                self.lp_ok = t[1] == "OK"
            elif k == "SOLVE":
                if t[1] == "EXACT":
                    self.solves.append(("EXACT", int(t[2]), int(t[3])))
                else:
                    self.solves.append((t[1], int(t[2]), int(t[3])))
                self.acc = {}
            elif k == "X":
                self.x = t[1:]
            elif k == "Y":
                self.y = t[1:]
            elif k == "ACC":
                self.acc[t[1]] = (int(t[2]), t[3:])
            elif k in ("ILP", "C", "B"):
                self.ilp.append(t)
            elif k in ("ULP", "UC", "UR"):
                self.ulp.append(t)
            elif k == "BASIS":
                self.basis = (t[1], t[2])
            elif k == "EBASIS":
                self.ebasis = (t[1], t[2])
            else:
                self.other.append(t)

    def last(self):
        return self.solves[-1] if self.solves else None

    def dims(self):
        h = self.ilp[0]
        return int(h[2]), int(h[3]), int(h[4])   # ncols, nrows, nstruct

    def ilp_text(self):
        return "\n".join(" ".join(t) for t in self.ilp)

    def ulp_text(self):
        return "\n".join(" ".join(t) for t in self.ulp)


def frac(tok, M=None):
    if tok == "inf":
        return M
    if tok == "-inf":
        return -M
    return F(tok)
