"""Script building / output parsing for the solve domain (h_solve <-> drv_solve)."""
from fractions import Fraction as F
from gen_lp import lp_block, INF, NINF, pick_basic_set

STATUS = {1: "OPTIMAL", 2: "INFEASIBLE", 3: "UNBOUNDED", 4: "ITER_LIMIT", 5: "TIME_LIMIT", 6: "UNSOLVED", 7: "ABORTED", 8: "NUMERR", 9: "OBJ_LIMIT", 100: "MODIFIED"}
PPRICE = [1, 2, 3, 4]
DPRICE = [6, 7, 9, 8]
ENTRIES = ["EXACT P", "EXACT D", "PRIMAL", "DUAL"]


def config_lines(cfg):
    """cfg: dict(entry, pp, dp, scale, maxit(optional), warm in {none, kept, arb})"""
    out = []
    if cfg.get("pp") is not None:
        out.append("PARAM 0 %d" % cfg["pp"])
    if cfg.get("dp") is not None:
        out.append("PARAM 2 %d" % cfg["dp"])
    if cfg.get("scale") is not None:
        out.append("PARAM 7 %d" % cfg["scale"])
    if cfg.get("maxit") is not None:
        out.append("PARAM 5 %d" % cfg["maxit"])
    return out


def solve_line(cfg):
    e = cfg["entry"]
    if e.startswith("EXACT"):
        w = cfg.get("warm", "none")
        if w == "kept":
            return "SOLVE %s KEPT" % e
        if w == "arb" and cfg.get("basis"):
            return "SOLVE %s %s %s" % (e, cfg["basis"][0], cfg["basis"][1])
        return "SOLVE " + e
    return "SOLVE " + e


def case_script(cid, lp, cfg):
    lines = ["CASE %s" % cid, lp_block(lp)]
    w = cfg.get("warm", "none")
    if w == "kept":
        # a first plain solve provides the basis that is then re-used
        lines += ["SOLVE EXACT P", "KEEPBASIS"]
        if not cfg["entry"].startswith("EXACT"):
            lines += ["LOADKEPT"]
    elif w == "arb" and cfg.get("basis") and not cfg["entry"].startswith("EXACT"):
        lines += ["LOADBASIS %s %s" % cfg["basis"]]
    lines += config_lines(cfg)
    lines += [solve_line(cfg), "ACCESS", "INTSOL", "GETBASIS", "DUMP"]
    return "\n".join(lines) + "\n"


class CaseOut:
    """parsed output of one case"""
    def __init__(self, toks):
        self.lines = toks
        self.solves = []      # (kind, rval, status)
        self.acc = {}
        self.x = self.y = None
        self.ilp = []         # raw token lines of ILP block
        self.ulp = []
        self.basis = None
        self.intsol = None
        self.ebasis = None
        self.lp_ok = None
        self.other = []
        self.traces = []      # one event list per EXACT solve
        cur_trace = []
        for t in toks:
            if t[0] == "TRACE":
                cur_trace.append((int(t[1]), int(t[2]), int(t[3])))
                continue
            if t[0] == "SOLVE" and t[1] == "EXACT":
                self.traces.append(cur_trace)
                cur_trace = []
            k = t[0]
            if k == "LP":
                self.lp_ok = t[1] == "OK"
            elif k == "SOLVE":
                if t[1] == "EXACT":
                    self.solves.append(("EXACT", int(t[2]), int(t[3])))
                else:
                    self.solves.append((t[1], int(t[2]), int(t[3])))
                self.acc = {}
            elif k == "X":
                self.x = t[1:]
            elif k == "Y":
                self.y = t[1:]
            elif k == "ACC":
                self.acc[t[1]] = (int(t[2]), t[3:])
            elif k in ("ILP", "C", "B"):
                self.ilp.append(t)
            elif k in ("ULP", "UC", "UR"):
                self.ulp.append(t)
            elif k == "INTSOL":
                self.intsol = t[1:]
            elif k == "BASIS":
                self.basis = (t[1], t[2])
            elif k == "EBASIS":
                self.ebasis = (t[1], t[2])
            else:
                self.other.append(t)

    def last(self):
        return self.solves[-1] if self.solves else None

    def dims(self):
        h = self.ilp[0]
        return int(h[2]), int(h[3]), int(h[4])   # ncols, nrows, nstruct

    def ilp_text(self):
        return "\n".join(" ".join(t) for t in self.ilp)

    def ulp_text(self):
        return "\n".join(" ".join(t) for t in self.ulp)


def frac(tok, M=None):
    if tok == "inf":
        return M
    if tok == "-inf":
        return -M
    return F(tok)


# ----------------------------------------------------------------------------- correspondence of the exact tests

def perturb_q(rng, tok):
    if tok in ("inf", "-inf"):
        return "0"
    v = F(tok)
    return str(v + rng.choice([F(1), F(-1), F(1, 3), F(1, 10 ** 12), -v if v != 0 else F(2)]))


def opttest_variants(rng, co, k=6):
    """co: CaseOut of a solved case (OPTIMAL).  Returns list of (label, cstat, rstat, xs, ys)."""
    nc, m, ns = co.dims()
    a = co.acc
    x = list(a["x"][1]) + list(a["slack"][1])
    y = list(a["pi"][1])
    cs, rs = co.basis if co.basis and co.basis[0] != "-" or ns == 0 else ("0" * ns, "1" * m)
    if cs == "-":
        cs = ""
    if rs == "-":
        rs = ""
    out = [("true-cert", cs, rs, x, y)]
    for _ in range(k):
        kind = rng.choice(["x", "y", "cstat", "rstat", "garb", "free", "allbasic", "scale"])
        cs2, rs2, x2, y2 = cs, rs, list(x), list(y)
        if kind == "x" and nc:
            j = rng.randrange(nc)
            x2[j] = perturb_q(rng, x2[j])
        elif kind == "y" and m:
            i = rng.randrange(m)
            y2[i] = perturb_q(rng, y2[i])
        elif kind == "cstat" and ns:
            j = rng.randrange(ns)
            cs2 = cs[:j] + rng.choice("0123") + cs[j + 1:]
        elif kind == "rstat" and m:
            i = rng.randrange(m)
            rs2 = rs[:i] + rng.choice("012") + rs[i + 1:]
        elif kind == "garb" and (ns + m):
            if ns and rng.random() < 0.5:
                j = rng.randrange(ns)
                cs2 = cs[:j] + rng.choice("4x9") + cs[j + 1:]
            elif m:
                i = rng.randrange(m)
                rs2 = rs[:i] + rng.choice("3x4") + rs[i + 1:]
        elif kind == "free" and ns:
            j = rng.randrange(ns)
            cs2 = cs[:j] + "3" + cs[j + 1:]
        elif kind == "allbasic":
            cs2, rs2 = "1" * ns, "1" * m
        elif kind == "scale":
            y2 = [str(F(t) * 2) for t in y2]
        out.append((kind, cs2, rs2, x2, y2))
    return out


def opttest_script(cid, lp, cs, rs, xs, ys):
    return "CASE %s\n%s\nOPTTEST %s %s %s %s\nDUMP\n" % (cid, lp_block(lp), cs or "-", rs or "-", " ".join(xs), " ".join(ys))


def opttest_query(cid, co, cs, rs, xs, ys):
    return "Q %s opttest\n%s\nBAS %s %s\nX %s\nY %s" % (cid, co.ilp_text(), cs or "-", rs or "-", " ".join(xs), " ".join(ys))


def parse_opttest_out(toks):
    """returns (verdict, cache dict or None)"""
    v, acc = None, {}
    for t in toks:
        if t[0] == "OPTTEST":
            v = int(t[1])
        elif t[0] == "ACC":
            acc[t[1]] = (int(t[2]), t[3:])
    return v, acc


def trace_query(qid, trace, algo, eb):
    return "Q %s trace %s %d %d %s" % (qid, algo, 1 if eb else 0, len(trace), " ".join("%d %d %d" % e for e in trace))


def trace_exit(trace):
    """(rval!=0, status) from the exit event"""
    for e, l, v in trace:
        if e == 11:
            return (1 if l != 0 else 0, v)
    return None


def trace_levels(trace):
    return max([l for e, l, v in trace if e != 11] or [0])


def configs(rng, lp, k):
    n, m = len(lp["cols"]), len(lp["rows"])
    out = []
    extra = 8 if lp.get("dep_cols") else 0          # singular warm starts: direct solves under every pricing rule
    for i in range(k + extra):
        e = ENTRIES[i % 4] if i < 4 else rng.choice(ENTRIES)
        cfg = dict(entry=e, pp=rng.choice(PPRICE), dp=rng.choice(DPRICE), scale=rng.choice([0, 1]),
                   warm=rng.choice(["none", "none", "kept", "arb"]))
        if i >= k:
            cfg.update(entry=["PRIMAL", "DUAL"][i % 2], pp=PPRICE[(i // 2) % 4], dp=DPRICE[(i // 2) % 4], warm="arb")
        if rng.random() < 0.15:
            cfg["maxit"] = rng.randint(1, 6)
        if cfg["warm"] == "arb":
            # arbitrary basis string: exactly m basics among n+m, the rest at a bound
            bas = pick_basic_set(rng, lp)
            def cst(j):
                lo, up = lp["cols"][j][2], lp["cols"][j][3]
                opts = ([] if lo == NINF else ["0"]) + ([] if up == INF else ["2"])
                return rng.choice(opts) if opts else "3"
            def rst(i_):
                s_ = lp["rows"][i_][1]
                return rng.choice("02") if s_ == "R" else "0"
            cs = "".join("1" if j in bas else cst(j) for j in range(n))
            rs = "".join("1" if (n + i_) in bas else rst(i_) for i_ in range(m))
            cfg["basis"] = (cs or "-", rs or "-")
        out.append(cfg)
    return out


