#!/usr/bin/env python3
"""C14  A basis file reads back as the same basis; writing does not consume the basis."""
import sys, os, itertools
sys.path.insert(0, os.path.dirname(os.path.abspath(__file__)))
from io_common import *
import io_gen as G


def is_free(c):
    return c[2] == NINF and c[3] == INF


def all_bases(P, rng, limit):
    """status strings with as many basic entries as rows (what qsbasis_to_illbasis accepts); '3' also on non-free columns"""
    n, m = len(P["cols"]), len(P["rows"])
    out = []
    for cs in itertools.product("0123", repeat=n):
        for rs in itertools.product("012", repeat=m):
            if cs.count("1") + rs.count("1") == m:
                out.append(("".join(cs), "".join(rs)))
    rng.shuffle(out)
    return out[:limit]


def random_bases(P, rng, k):
    """k random status strings with as many basic entries as rows (for problems too large to enumerate)"""
    n, m = len(P["cols"]), len(P["rows"])
    out = []
    for _ in range(k):
        basic = set(rng.sample(range(n + m), m))
        cs = "".join("1" if j in basic else rng.choice("023" if is_free(P["cols"][j]) else "02") for j in range(n))
        rs = "".join("1" if (n + i) in basic else rng.choice("02") for i in range(m))
        out.append((cs, rs))
    return out


def model_text(P, lines):
    names = [c[0] for c in P["cols"]] + [r[0] for r in P["rows"]]
    t = "NAME    %s\n" % P["name"]
    for l in lines:
        w = l.split(":")
        t += " %s %s\n" % (w[0], " ".join(names[int(x) - 1] for x in w[1:]))
    return t + "ENDATA\n"


def main():
    ck = Check("C14", "proof")
    build_repo()
    pr = ck.proofs()
    rng = ck.rng
    nprob = 400 if ck.thorough() else 26
    per = 400 if ck.thorough() else 90
    cases, meta = [], {}
    for i in range(nprob):
        n, m = rng.choice([(1, 1), (2, 1), (2, 2), (3, 2), (3, 3), (4, 2), (4, 3)])
        P = G.small_problem(rng, n, m, name="b%d" % i)
        cols = list(P["cols"])
        if i % 2 == 0:     # make sure free columns and ranged rows occur
            j = rng.randrange(n)
            cols[j] = (cols[j][0], cols[j][1], NINF, INF, False)
            rows = list(P["rows"])
            k = rng.randrange(m)
            rows[k] = (rows[k][0], "R", rows[k][2], F(rng.randint(1, 5)), rows[k][4] or [(cols[0][0], F(1))])
            P = dict(P, cols=cols, rows=rows)
        bases = all_bases(P, rng, per)
        # a few invalid ones (wrong number of basic entries): the wrapper must refuse them and leave no damage
        bad = [("1" * n, "1" * m), ("0" * n, "0" * m)] if n + m > m else []
        cid = "p%d" % i
        s = ["CASE " + cid, load_block(0, P)]
        for k, (cs, rs) in enumerate(bases):
            s += ["WRITEBASIS h0 f%d.bas %s %s" % (k, cs, rs), "CAT f%d.bas" % k, "READBASIS h0 f%d.bas" % k]
        for k, (cs, rs) in enumerate(bad):
            if cs.count("1") + rs.count("1") != m:
                s += ["WRITEBASIS h0 g%d.bas %s %s" % (k, cs, rs)]
        # the problem's own basis
        # control handle h1: the same calls without the write
        s += [load_block(1, P), "OPT h1 PRIMAL", "GETBASIS h1", "OPT h1 PRIMAL", "GETBASIS h1"]
        s += ["OPT h0 PRIMAL", "GETBASIS h0", "WRITEBASIS h0 own.bas OWN", "CAT own.bas", "GETBASIS h0", "OPT h0 PRIMAL", "GETBASIS h0",
              "READBASIS h0 own.bas"]
        # same basic solution: the exact verdict on the basis read back equals the verdict on the original (valid bases: a non-basic free column has status 3, no other column has)
        vb = [(cs, rs) for (cs, rs) in bases if all((st in "13") if is_free(c) else (st != "3") for st, c in zip(cs, P["cols"]))][:12]
        for k, (cs, rs) in enumerate(vb):
            back = "".join(("3" if is_free(c) else "0") if st in "03" else st for st, c in zip(cs, P["cols"]))
            s += ["BOPT h1 %s %s" % (cs, rs), "BOPT h1 %s %s" % (back, rs)]
        # histories: (h2) the same round trip after a non-last column / row was deleted (name tables and indices no longer line up),
        # (h3) solve, load a DIFFERENT basis without solving again, write the problem's own basis: the file must hold the loaded one
        hist = None
        if n >= 2:
            j = rng.randrange(n - 1)
            i2 = rng.randrange(m - 1) if (m >= 2 and rng.random() < 0.5) else None
            P2 = dict(P, cols=[c for k, c in enumerate(P["cols"]) if k != j])
            P2["rows"] = [(r[0], r[1], r[2], r[3], [e for e in r[4] if e[0] != P["cols"][j][0]]) for k, r in enumerate(P["rows"]) if k != i2]
            b2 = all_bases(P2, rng, 24)
            s += [load_block(2, P), "EDIT h2 delcol %d" % j] + (["EDIT h2 delrow %d" % i2] if i2 is not None else [])
            for k, (cs, rs) in enumerate(b2):
                s += ["WRITEBASIS h2 e%d.bas %s %s" % (k, cs, rs), "READBASIS h2 e%d.bas" % k]
            lb = vb[:6]
            s += [load_block(3, P), "OPT h3 PRIMAL", "GETBASIS h3"]
            for k, (cs, rs) in enumerate(lb):
                s += ["LOADBASIS h3 %s %s" % (cs, rs), "GETBASIS h3", "WRITEBASIS h3 l%d.bas OWN" % k, "READBASIS h3 l%d.bas" % k, "GETBASIS h3"]
            hist = (P2, i2 is not None, b2, lb)
        cases.append((cid, "\n".join(s) + "\n"))
        meta[cid] = (P, bases, bad, vb, hist)
    # several deletes on one problem (rows and columns, never the last one), a basis round trip after each: the name tables
    # re-use freed slots, so slot order, index order and the cached name -> index maps drift apart step by step
    mdmeta = {}
    for i in range(60 if ck.thorough() else 8):
        P = G.small_problem(rng, rng.randint(3, 5), rng.randint(5, 7), name="md%d" % i)
        cid = "md%d" % i
        s = ["CASE " + cid, load_block(0, P)]
        cur, steps = P, []
        for d in range(rng.randint(2, 4)):
            n_, m_ = len(cur["cols"]), len(cur["rows"])
            if m_ > 2 and (n_ <= 2 or rng.random() < 0.7):
                k_ = rng.randrange(m_ - 1)
                s.append("EDIT h0 delrow %d" % k_)
                cur = dict(cur, rows=[r for q_, r in enumerate(cur["rows"]) if q_ != k_])
            elif n_ > 2:
                k_ = rng.randrange(n_ - 1)
                s.append("EDIT h0 delcol %d" % k_)
                nm_ = cur["cols"][k_][0]
                cur = dict(cur, cols=[c for q_, c in enumerate(cur["cols"]) if q_ != k_],
                           rows=[(r[0], r[1], r[2], r[3], [e for e in r[4] if e[0] != nm_]) for r in cur["rows"]])
            else:
                break
            bs = random_bases(cur, rng, 8)
            for q_, (cs, rs) in enumerate(bs):
                s += ["WRITEBASIS h0 m%d_%d.bas %s %s" % (d, q_, cs, rs), "READBASIS h0 m%d_%d.bas" % (d, q_)]
            steps.append((cur, bs))
        cases.append((cid, "\n".join(s) + "\n"))
        mdmeta[cid] = steps
    scripts = dict(cases)
    M, outs, crashes, _ = run_io_cases(cases, tag="C14", per_case_timeout=300)
    if crashes:
        for c in crashes[:3]:
            ck.violation("crash_%s.txt" % c[0], scripts[c[0]], "harness died (rc %s) while writing/reading basis files" % c[1], match=dict(kind="crash"))
    q = []
    for cid, (P, bases, bad, vb, hist) in meta.items():
        free = "".join("1" if is_free(c) else "0" for c in P["cols"])
        for k, (cs, rs) in enumerate(bases):
            q.append("Q %s.%d basis %s %s %s" % (cid, k, cs, free, rs))
    ans = run_model_par("drv_io", q)
    nb = nown = nopt = nhist = nload = 0
    own_hist = {}
    for cid, (P, bases, bad, vb, hist) in meta.items():
        if cid not in outs or cid in [c[0] for c in crashes]:
            continue
        o = RtOut(outs[cid])
        o.next("LOAD")
        free = [is_free(c) for c in P["cols"]]
        for k, (cs, rs) in enumerate(bases):
            w, cat, rd = o.next("WRITEBASIS"), o.next("CAT"), o.next("READBASIS")
            a = ans.get("%s.%d" % (cid, k))
            nb += 1
            ck.count((problem_text(P), cs, rs))
            txt = cat_bytes(cat)
            if a is None or a[0] == "NONE":
                ck.violation("model_%s_%d.txt" % (cid, k), scripts[cid], "model refuses a basis with the right number of basic entries: %s %s -> %s" % (cs, rs, a),
                             no_input=True, match=dict(kind="corr-bas"))
                continue
            cut = a.index("|")
            lines = [] if a[:cut] == ["EMPTY"] else a[:cut]
            want_text = model_text(P, lines).encode("latin-1")
            want_back = a[cut + 1:]
            if w[0][1] != "0" or txt != want_text:
                ck.violation("bytes_%s_%d.txt" % (cid, k), scripts[cid] + "\n# basis %s %s\n# model text:\n%s\n# file:\n%s\n" % (cs, rs, want_text.decode(), (txt or b"").decode("latin-1")),
                             "basis file bytes differ from the model for basis %s %s of %s (write rv %s)" % (cs, rs, cid, w[0][1]), no_input=True, match=dict(kind="corr-bas"))
                continue
            got = rd[0][2:4] if rd[0][1] == "OK" else ["FAIL"]
            # the theorem's statement, on the real reader: same basic set, same at-upper set, differences only on non-basic free / free-marked columns
            exp_c = "".join(("3" if fr else "0") if s in "03" else s for s, fr in zip(cs, free))
            if got != [exp_c or "-", rs or "-"]:
                ck.violation("roundtrip_%s_%d.txt" % (cid, k), scripts[cid] + "\n# basis %s %s came back as %s\n" % (cs, rs, got),
                             "basis %s %s of %s came back as %s from its own file" % (cs, rs, cid, got), match=dict(kind="roundtrip"))
            elif got != want_back:
                ck.violation("reader_%s_%d.txt" % (cid, k), scripts[cid] + "\n# model reader %s, mpq_QSread_basis %s\n" % (want_back, got),
                             "model reader and mpq_QSread_basis disagree on the file of basis %s %s" % (cs, rs), no_input=True, match=dict(kind="corr-bas"))
            elif len(ck.cov["samples"]) < 3:
                ck.sample(dict(problem=cid, basis=[cs, rs], file=txt.decode("latin-1"), read_back=got))
        for k, (cs, rs) in enumerate(bad):
            if cs.count("1") + rs.count("1") != len(P["rows"]):
                w = o.next("WRITEBASIS")
                if w[0][1] == "0":
                    ck.violation("invalid_%s_%d.txt" % (cid, k), scripts[cid], "a basis with the wrong number of basic entries (%s %s) was written without error" % (cs, rs), match=dict(kind="invalid-accepted"))
        # own basis
        o.next("LOAD")
        c_opt1, c_b1, c_opt2, c_b2 = o.next("OPT"), o.next("BASIS"), o.next("OPT"), o.next("BASIS")
        opt1, b1, w, cat, b2, opt2, b3, rd = (o.next("OPT"), o.next("BASIS"), o.next("WRITEBASIS"), o.next("CAT"), o.next("BASIS"), o.next("OPT"), o.next("BASIS"), o.next("READBASIS"))
        if opt1[0][1] != "0" or b1[0][1] == "-" and b1[0][2] == "-":
            own_hist["no basis after first solve"] = own_hist.get("no basis after first solve", 0) + 1
            continue
        nown += 1
        ck.count((problem_text(P), "own"))
        why = None
        if w[0][1] != "0":
            why = "mpq_QSwrite_basis(p, NULL, file) failed (rv %s) although the problem has a basis %s" % (w[0][1], b1[0][1:3])
        elif b2[0][1:3] != b1[0][1:3]:
            why = "after mpq_QSwrite_basis(p, NULL, file) mpq_QSget_basis returns %s instead of %s" % (b2[0][1:3], b1[0][1:3])
        elif opt2[0][1:4] != c_opt2[0][1:4] or b3[0][1:3] != c_b2[0][1:3]:
            why = "after mpq_QSwrite_basis(p, NULL, file) the next solve gives %s / basis %s; without the write it gives %s / %s" % (opt2[0][1:4], b3[0][1:3], c_opt2[0][1:4], c_b2[0][1:3])
        if why:
            own_hist["consumed"] = own_hist.get("consumed", 0) + 1
            ck.violation("own_%s.txt" % cid, scripts[cid] + "\n# %s\n" % why, "writing the problem's own basis does not leave it in place: " + why,
                         match=dict(kind="write-own-basis-consumed"))
        else:
            own_hist["kept"] = own_hist.get("kept", 0) + 1
        # the file written from the own basis must be the file of that basis, and read back as it
        cs, rs = b1[0][1], b1[0][2]
        exp_c = "".join(("3" if fr else "0") if s in "03" else s for s, fr in zip(cs, free))
        if rd[0][1] != "OK" or rd[0][2:4] != [exp_c, rs]:
            ck.violation("ownfile_%s.txt" % cid, scripts[cid], "the file written from the problem's own basis %s %s reads back as %s" % (cs, rs, rd[0][1:4]), match=dict(kind="roundtrip"))
        v1 = v2 = ()
        for k, (cs, rs) in enumerate(vb):
            v1, v2 = o.next("BOPT"), o.next("BOPT")
            if v1 is None or v2 is None:
                break
            nopt += 1
            if v1[0][1:] != v2[0][1:]:
                ck.violation("verdict_%s_%d.txt" % (cid, k), scripts[cid], "QSexact_basis_optimalstatus differs between basis %s %s and the basis read back from its file: %s vs %s" % (cs, rs, v1[0][1:], v2[0][1:]),
                             match=dict(kind="verdict"))
        if hist is None or v1 is None or v2 is None:
            continue
        P2, delrow, b2, lb = hist
        o.next("LOAD")
        eds = [o.next("EDIT")] + ([o.next("EDIT")] if delrow else [])
        free2 = [is_free(c) for c in P2["cols"]]
        edits_ok = all(e and e[0][1] == "0" for e in eds)
        for k, (cs, rs) in enumerate(b2):
            w, rd = o.next("WRITEBASIS"), o.next("READBASIS")
            if not edits_ok or w is None or rd is None:
                continue
            nhist += 1
            ck.count((problem_text(P2), "after-delete", cs, rs))
            exp_c = "".join(("3" if fr else "0") if st in "03" else st for st, fr in zip(cs, free2))
            got = rd[0][2:4] if rd[0][1] == "OK" else ["FAIL"]
            if w[0][1] != "0" or got != [exp_c or "-", rs or "-"]:
                ck.violation("afterdelete_%s_%d.txt" % (cid, k), scripts[cid] + "\n# on h2 (after the deletes) basis %s %s came back as %s (write rv %s)\n" % (cs, rs, got, w[0][1]),
                             "after deleting a non-last column%s, basis %s %s of the remaining problem came back as %s from its own file" % (" and a row" if delrow else "", cs, rs, got),
                             match=dict(kind="roundtrip-after-delete"))
        o.next("LOAD")
        o3, g3 = o.next("OPT"), o.next("BASIS")
        for k, (cs, rs) in enumerate(lb):
            ld, gb, w, rd, ga = o.next("LOADBASIS"), o.next("BASIS"), o.next("WRITEBASIS"), o.next("READBASIS"), o.next("BASIS")
            if ga is None or ld[0][1] != "0" or gb[0][1] == "-":
                continue
            nload += 1
            ck.count((problem_text(P), "loaded-own", cs, rs))
            cur = gb[0][1:3]
            exp_c = "".join(("3" if fr else "0") if st in "03" else st for st, fr in zip(cur[0], free))
            got = rd[0][2:4] if rd[0][1] == "OK" else ["FAIL"]
            if w[0][1] != "0" or got != [exp_c, cur[1]]:
                ck.violation("loadedown_%s_%d.txt" % (cid, k), scripts[cid] + "\n# h3: after LOADBASIS %s %s mpq_QSget_basis says %s, the file written by mpq_QSwrite_basis(p, NULL) reads back as %s\n" % (cs, rs, cur, got),
                             "after solving and then loading basis %s %s, mpq_QSwrite_basis(p, NULL, file) does not write the problem's current basis %s: the file reads back as %s" % (cs, rs, cur, got),
                             match=dict(kind="write-own-basis-stale"))
            elif ga[0][1:3] != cur:
                ck.violation("loadedown_consumed_%s_%d.txt" % (cid, k), scripts[cid], "mpq_QSwrite_basis(p, NULL, file) changed the loaded basis %s into %s" % (cur, ga[0][1:3]),
                             match=dict(kind="write-own-basis-consumed"))
    nmd = 0
    for cid, steps in mdmeta.items():
        if cid not in outs or cid in [c[0] for c in crashes]:
            continue
        o = RtOut(outs[cid])
        o.next("LOAD")
        ok_ = True
        for d, (Pk, bs) in enumerate(steps):
            e = o.next("EDIT")
            ok_ = ok_ and e is not None and e[0][1] == "0"
            fr = [is_free(c) for c in Pk["cols"]]
            for (cs, rs) in bs:
                w, rd = o.next("WRITEBASIS"), o.next("READBASIS")
                if not ok_ or w is None or rd is None:
                    continue
                nmd += 1
                ck.count((problem_text(Pk), "multi-delete", d, cs, rs))
                exp_c = "".join(("3" if f_ else "0") if st in "03" else st for st, f_ in zip(cs, fr))
                got = rd[0][2:4] if rd[0][1] == "OK" else ["FAIL"]
                if w[0][1] != "0" or got != [exp_c or "-", rs or "-"]:
                    ck.violation("multidelete_%s_%d.txt" % (cid, d), scripts[cid] + "\n# after delete number %d: basis %s %s came back as %s (write rv %s)\n" % (d + 1, cs, rs, got, w[0][1]),
                                 "after %d deletes of non-last rows / columns, basis %s %s of the remaining problem came back as %s from its own file" % (d + 1, cs, rs, got),
                                 match=dict(kind="roundtrip-after-delete"))
    ck.cov["roundtrips_after_several_deletes"] = nmd
    if not pr["ok"]:
        ck.violation("proof.txt", pr["log"], "proof obligation(s) of Properties_C14.v no longer check: %s" % pr["failed"], no_input=not ck.violations)
    ck.cov["bases_compared"] = nb
    ck.cov["exact_verdicts_compared"] = nopt
    ck.cov["roundtrips_after_delete"] = nhist
    ck.cov["loaded_then_written_own"] = nload
    ck.cov["own_basis_cases"] = dict(total=nown, **own_hist)
    ck.cov["rule"] = ("small LPs (1-4 columns, 1-3 rows, plain names, ranged rows and free columns forced in every second one) x a shuffled sample of ALL status "
                      "assignments over {0,1,2,3}^n x {0,1,2}^m with as many basic entries as rows (incl. status 3 on non-free columns, rows at upper): "
                      "mpq_QSwrite_basis(p, B, file) bytes vs the extracted write_basis text; mpq_QSread_basis vs the extracted read_basis and vs the statement of "
                      "basis_roundtrip; bases with a wrong basic count must be refused; then the problem's own basis: solve, get_basis, write_basis(p, NULL), "
                      "get_basis, solve again, read the file; histories: the round trip on the problem left after deleting a non-last column (and a row), "
                      "and solve / load another basis / write_basis(p, NULL) / read back = get_basis; non-trivial = every basis; distinct by problem + basis")
    ck.cov["not_covered"] = "the byte layout of a line and the NAME/ENDATA frame are compared, not proved; names needing repair are outside the property"
    ck.assumptions = ["Coq kernel; extraction; OCaml", "harness h_io.c", "status characters 0123 map to Lo Ba Up Fr"]
    cleanup_scratch()
    ck.finish(trusted_base=["coqc 8.16.1 kernel", "OCaml extraction", "harness/h_io.c + checks/io_common.py + checks/C14.py"])


main_guard(main)
