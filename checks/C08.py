#!/usr/bin/env python3
"""C08  Writing a problem in LP format and reading it back yields the same problem."""
import sys, os
sys.path.insert(0, os.path.dirname(os.path.abspath(__file__)))
from io_common import *
import io_gen as G


def main():
    ck = Check("C08", "exploration")
    build_repo()
    pr = ck.proofs()
    run_roundtrip_check(ck, "LP", pr, G)
    ck.cov["rule"] = ("problems by name over every sense (ranges incl. range 0), every bound shape (default, free, fixed, boxes, one-sided, negative upper with "
                      "finite/infinite lower), integer marks, rationals up to 10^3 digits, names: plain / keywords / generated-name clashes (x1 c2 obj) / "
                      "symbols / e-like / names needing repair (digit first, illegal characters, blanks) / 40..1000 characters, rows long enough to wrap; "
                      "each: mpq_QSwrite_prob LP -> mpq_QSget_prob (error memory) -> dump by name of both -> Coq-extracted equiv_by_name after applying the "
                      "renames the writer announced; second generation; plain/.gz/.bz2 targets (EGio and independent decompression); QSexact_solver on both "
                      "when all magnitudes are within 1e-40..1e40 and dropped empty rows are satisfiable; non-trivial = comparison reached; distinct by problem text + stage")
    ck.cov["not_covered"] = ("token/byte-level model of ILLwrite_lp / ILLread_lp (fix_names, term layout, wrapping) is not proved: the round trip itself is explored, "
                             "its sub-codecs (numbers, bound elision, range splitting) and the comparison oracle are proved")
    ck.assumptions = ["Coq kernel; extraction (ExtrOcamlBasic, ExtrOcamlString); OCaml", "harness h_io.c dumps through the query API", "names interned to N by checks/io_common.py"]
    ck.finish(trusted_base=["coqc 8.16.1 kernel", "OCaml extraction", "harness/h_io.c + checks/io_common.py + checks/C08.py"])


main_guard(main)
