#!/usr/bin/env python3
"""C08  Writing a problem in LP format and reading it back yields the same problem."""
import sys, os
sys.path.insert(0, os.path.dirname(os.path.abspath(__file__)))
from io_common import *
import io_gen as G


def main():
    ck = Check("C08", "proof")
    build_repo()
    pr = ck.proofs()
    run_roundtrip_check(ck, "LP", pr, G)
    ck.cov["rule"] = ("problems by name over every sense (ranges incl. range 0), every bound shape (default, free, fixed, boxes, one-sided, negative upper with "
                      "finite/infinite lower), integer marks, rationals up to 10^3 digits, names: plain / keywords / generated-name clashes (x1 c2 obj) / "
                      "symbols / e-like / names needing repair (digit first, illegal characters, blanks) / 40..1000 characters, rows long enough to wrap; "
                      "each: mpq_QSwrite_prob LP -> mpq_QSget_prob (error memory) -> dump by name of both -> Coq-extracted equiv_by_name after applying the "
                      "renames the writer announced; second generation; plain/.gz/.bz2 targets (EGio and independent decompression); QSexact_solver on both "
                      "when all magnitudes are within 1e-40..1e40 and dropped empty rows are satisfiable; non-trivial = comparison reached; distinct by problem text + stage")
    ck.cov["rule"] += ("; families added for the writer model: long objectives/rows that wrap several times with both signs around the wrap points, "
                       "columns named like keywords with free / one-sided bounds, half of the problems built with rows added before some columns "
                       "(structmap not the identity); every file written by the library is compared byte for byte with the extracted IO/LpWrite.write_lp "
                       "applied to the dump of the problem (after the announced renames)")
    ck.cov["not_covered"] = ("theorem C08_lp_roundtrip is about the line-level models (IO/LpWrite.v, IO/LpRead.v): tied to the library by whole-file comparison "
                             "(writer, here) and by outcome comparison on rendered / mutated / written files (reader, C10), not proved about the C code; "
                             "fix_names (name repair) is modelled and proved to give valid distinct names (C08_fix_names_ok, compared with the announced renames on every file) "
                             "but its composition with the round trip is evaluated per instance (wf_lpb on the repaired problem), not one theorem; bytes vs lines: "
                             "C08_lp_roundtrip_bytes covers files whose lines fit the 131069-byte line buffer, longer lines and .gz/.bz2 explored only")
    ck.assumptions = ["Coq kernel; extraction (ExtrOcamlBasic, ExtrOcamlString); OCaml", "harness h_io.c dumps through the query API (plus lp->objname and intmarker != NULL)", "names interned to N by checks/io_common.py",
                      "write_lp / read_lp_res are models: equality with ILLwrite_lp is checked on every file written in the run, with ILLread_lp in C10"]
    ck.finish(trusted_base=["coqc 8.16.1 kernel", "OCaml extraction", "harness/h_io.c + checks/io_common.py + checks/C08.py"])


main_guard(main)
