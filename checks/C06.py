#!/usr/bin/env python3
"""C06  Query functions always reflect exactly the edits made (model conformance).

Proof part: coq/Props/Properties_C06.v (invariant of the reference model for all histories, name lookup
inverse, transpose, to_internal compatibility).
Tie: the extracted reference model (drv_store) and the library (h_store) run the same op histories and are
compared after every op: every successful call's answer, and the full canonical dump through the query API."""
import sys, os, itertools
sys.path.insert(0, os.path.dirname(os.path.abspath(__file__)))
from lib import *
from store_common import *


def history(rng, tag, nops, start, dump_every=1, weights=None, numkind=None):
    g = Gen(rng, "h0", numkind=numkind, tag=tag)
    ops = []
    if start == "empty":
        ops.append("CREATE h0 p %s" % rng.choice(["MIN", "MAX"]))
    else:
        n, m = start
        ops += g.load(n, m, dens=rng.choice([0.2, 0.5, 0.9]))
    ops.append("DUMP h0")
    for t in range(nops):
        ops += g.op(weights)
        if (t + 1) % dump_every == 0:
            ops.append("DUMP h0")
        if rng.random() < 0.15:
            ops.append("Q h0 counts")
    ops += ["Q h0 counts", "Q h0 rows", "Q h0 cols", "Q h0 rownames", "Q h0 colnames", "DUMP h0"]
    ops += coef_sweep(rng, len(g.sh.rows), len(g.sh.cols))
    return ops, g


def coef_sweep(rng, m, n, cap=400):
    """mpq_QSget_coef on every cell (a sample of `cap` cells on large problems): the single-coefficient query walks the stored column
    itself, so it is the one observer that depends on the ORDER of a column's entries (fill-in from mpq_QSchange_coef and
    mpq_QSadd_col with unsorted rows store entries out of row order)"""
    cells = [(i, j) for i in range(m) for j in range(n)]
    if len(cells) > cap:
        cells = rng.sample(cells, cap)
    return ["Q h0 coef %d %d" % c for c in cells]


def threshold_history(rng, tag, which):
    """histories that cross the growth thresholds of the store: 100 rows / 100 cols (EXTRA_ROWS/COLS), 1000 non-zeros (EXTRA_MAT)"""
    g = Gen(rng, "h0", numkind="small", tag=tag)
    ops = ["CREATE h0 p MIN"]
    off = lambda ks: {k: 0 for k in ks}
    noq = ["SETPARAM", "SETPARAMQ", "QUERY", "QUERYC", "QUERYR", "QCOEF", "CHGOBJSENSE"]
    cap = 4000
    if which == "rows":
        for _ in range(4):
            ops += g.op({"NEWCOL": 1, **off(["ADDCOL", "NEWROW", "ADDROW", "ADDRROW", "ADDCOLS", "ADDROWS", "ADDRROWS"] + noq)})
        target = rng.randint(205, 230)
        while len(g.sh.rows) < target and len(ops) < cap:
            ops += g.op({"NEWROW": 3, "ADDROW": 6, "ADDRROW": 3, "ADDROWS": 3, "ADDRROWS": 3,
                         **off(["NEWCOL", "ADDCOL", "ADDCOLS", "DELCOL", "DELCOLS", "DELSETCOLS", "DELNCOL", "DELNCOLS", "DELSETROWS", "MARKINT"] + noq)})
            if rng.random() < 0.04:
                ops.append("DUMP h0")
    elif which == "cols":
        for _ in range(3):
            ops += g.op({"NEWROW": 1, **off(["ADDCOL", "NEWCOL", "ADDROW", "ADDRROW", "ADDCOLS", "ADDROWS", "ADDRROWS"] + noq)})
        target = rng.randint(205, 230)
        while len(g.sh.cols) < target and len(ops) < cap:
            ops += g.op({"NEWCOL": 3, "ADDCOL": 6, "ADDCOLS": 4,
                         **off(["NEWROW", "ADDROW", "ADDRROW", "ADDROWS", "ADDRROWS", "DELROW", "DELROWS", "DELSETROWS", "DELNROW", "DELNROWS", "DELSETCOLS"] + noq)})
            if rng.random() < 0.04:
                ops.append("DUMP h0")
    else:   # non-zeros: a moderately sized dense-ish problem, many coefficient edits and row/col additions
        ops = g.load(rng.randint(20, 30), rng.randint(20, 30), dens=0.9)
        target = rng.randint(2100, 2400)
        g2 = lambda: g.op({"CHGCOEF": 8, "ADDCOL": 4, "ADDROW": 4, "ADDRROW": 1, "DELROW": 1, "DELCOL": 1,
                           **off(["DELROWS", "DELCOLS", "DELSETROWS", "DELSETCOLS", "DELNROWS", "DELNCOLS", "DELNROW", "DELNCOL", "NEWROW", "NEWCOL"] + noq)})
        while g.sh.nz() < target and len(ops) < cap:
            ops += g2()
            if rng.random() < 0.03:
                ops.append("DUMP h0")
    # then shrink it again below the thresholds with deletes, and grow once more
    for _ in range(rng.randint(10, 25)):
        ops += g.op({"DELROWS": 4, "DELCOLS": 4, "DELSETROWS": 2, "DELSETCOLS": 2, "DELNROWS": 2, "DELNCOLS": 2, "CHGCOEF": 3, "ADDROW": 2, "ADDCOL": 2})
        if rng.random() < 0.3:
            ops.append("DUMP h0")
    ops += ["Q h0 counts", "Q h0 rows", "Q h0 cols", "DUMP h0"]
    return ops, g


def with_dumpm(ops, h="h0"):
    """after every op that can change the store: the raw arrays of the column store (library) / of the extracted L2 model"""
    out = []
    for o in ops:
        out.append(o)
        t = o.split()
        if t[0] not in ("Q", "DUMP", "DUMPM", "DUMPMF", "DUMPI") and len(t) > 1 and t[1] == h:
            out.append("DUMPM %s" % h)
    return out


def reloc_history(rng, tag, repeat=False):
    """repeat=True: rows list some column twice or three times (the reference semantics stores every entry) - on a nearly full
    store this is where matrix_addrow as found runs into exit(1) and where the repaired loop falls back to matrix_addrow_end.
    relocation-heavy histories on a small problem: few columns, rows with entries in many (distinct) columns, coefficient
    edits that create new entries, deletes that leave holes - columns fill their gaps, move behind the used part, and the
    array is rebuilt (matrix_addrow_end) once the free tail (EXTRA_MAT = 1000 slots) is used up"""
    ops = ["CREATE h0 p MIN"]
    n = rng.randint(3, 12)
    m = 0
    small = lambda: str(rng.choice([1, 2, 3, -1, -2, 5])) if rng.random() < 0.8 else "%d/%d" % (rng.randint(-9, 9), rng.randint(1, 7))
    for _ in range(n):
        ops.append("NEWCOL h0 %s 0 inf -" % small())
    target = rng.randint(120, 260)
    while len(ops) < target:
        r = rng.random()
        if r < 0.40 or m == 0:
            k = rng.randint(max(1, n // 2), n) if n else 0
            cols = rng.sample(range(n), k) if n else []
            if repeat and cols and rng.random() < 0.7:
                cols += [rng.choice(cols) for _ in range(rng.randint(1, 3))]
                rng.shuffle(cols)
            ops.append("ADDROW h0 %s %s - %d%s" % (small(), rng.choice("LGE"), len(cols), "".join(" %d %s" % (j, small()) for j in cols)))
            m += 1
        elif r < 0.65 and n:
            ops.append("CHGCOEF h0 %d %d %s" % (rng.randrange(m), rng.randrange(n), small()))
        elif r < 0.75:
            k = rng.randint(0, min(m, 6))
            rows = rng.sample(range(m), k)
            ops.append("ADDCOL h0 %s 0 inf - %d%s" % (small(), len(rows), "".join(" %d %s" % (i, small()) for i in rows)))
            n += 1
        elif r < 0.82 and m > 1:
            ops.append("DELROW h0 %d" % rng.randrange(m)); m -= 1
        elif r < 0.86 and m > 3:
            rows = rng.sample(range(m), rng.randint(2, 3))
            ops.append("DELROWS h0 %d %s" % (len(rows), " ".join(map(str, rows)))); m -= len(rows)
        elif r < 0.90 and n > 3:
            ops.append("DELCOL h0 %d" % rng.randrange(n)); n -= 1
        elif r < 0.93:
            ops.append("NEWROW h0 %s %s -" % (small(), rng.choice("LGER"))); m += 1
        elif r < 0.96 and m:
            ops.append("CHGSENSE h0 %d %s" % (rng.randrange(m), rng.choice("LGER")))
        else:
            ops.append("NEWCOL h0 %s 0 inf -" % small()); n += 1
    ops += ["Q h0 counts", "DUMP h0"]
    ops += coef_sweep(rng, m, n)
    return ops


def dec(fr):
    """a rational with denominator 1, 2, 4, 5 or 10 as a decimal literal of the file formats"""
    from fractions import Fraction
    fr = Fraction(fr)
    if fr.denominator == 1:
        return str(fr.numerator)
    s = "%.4f" % float(fr)
    return s.rstrip("0")


def read_case(rng, tag, fmt, outdir):
    """A problem file for mpq_QSread_prob and what it says, for the model: READ h0 <file> <fmt> <objsense> nc nr cols rows with the
    columns' RAW lists in the order of rawlpdata's linked lists (ILLraw_add_col_coef prepends: reverse file order), duplicates of one
    (row, column) pair NOT merged - the model (Store.RawLoad) merges as buildMatrix does.  Features: repeated variables in one row,
    explicit zeros, columns that occur in the objective only (empty columns), MPS: extra 'N' rows (dropped, with the columns that occur
    only there), every sense, bounds."""
    from fractions import Fraction as Fr
    num = lambda: rng.choice([Fr(1), Fr(2), Fr(-1), Fr(3), Fr(-4), Fr(5, 2), Fr(1, 2), Fr(-7, 4), Fr(0), Fr(12), Fr(3, 10)])
    nz = lambda: rng.choice([Fr(1), Fr(2), Fr(-1), Fr(3), Fr(-4), Fr(5, 2), Fr(1, 2), Fr(-7, 4), Fr(12)])
    nvar = rng.randint(1, 9)
    nrow = rng.randint(1, 8)
    nextra = rng.randint(0, 2) if fmt == "MPS" else 0          # additional 'N' rows
    vars_ = ["x%s%d" % (tag, j) for j in range(nvar)]
    rows = []                                                   # (name, sense, rhs, [(var index, coef)])
    for i in range(nrow):
        k = rng.randint(1, min(nvar, 5))
        terms = [(j, num() if rng.random() < 0.25 else nz()) for j in rng.sample(range(nvar), k)]
        if rng.random() < 0.5:
            terms += [(rng.choice(terms)[0], nz()) for _ in range(rng.randint(1, 3))]     # the same variable again in this row
            rng.shuffle(terms)
        rows.append(("r%s%d" % (tag, i), rng.choice("LGE"), num(), terms))
    extra = [("n%s%d" % (tag, i), [(j, nz()) for j in rng.sample(range(nvar), rng.randint(1, nvar))]) for i in range(nextra)]
    obj = {j: nz() for j in range(nvar) if rng.random() < 0.6}
    bounds = {}
    for j in range(nvar):
        r = rng.random()
        if r < 0.2: bounds[j] = (Fr(-3), Fr(5))
        elif r < 0.3: bounds[j] = (None, None)                  # free
        elif r < 0.4: bounds[j] = (Fr(0), Fr(7, 2))
    maxi = fmt == "LP" and rng.random() < 0.4
    # ---- the file, and the order in which the reader meets variables and coefficients
    occ = {j: [] for j in range(nvar)}                          # per variable: (row index among non-N rows, coef) in file order
    order = []                                                  # variables in the order the reader creates them
    def meet(j):
        if j not in order: order.append(j)
    lines = []
    if fmt == "LP":
        if not obj:
            obj[rows[0][3][0][0]] = Fr(1)
        lines += ["Maximize" if maxi else "Minimize", " obj: " + " + ".join("%s %s" % (dec(c), vars_[j]) for j, c in obj.items()).replace("+ -", "- ")]
        for j in obj: meet(j)
        lines.append("Subject To")
        for i, (nm, sn, rhs, terms) in enumerate(rows):
            lines.append(" %s: %s %s %s" % (nm, " + ".join("%s %s" % (dec(c), vars_[j]) for j, c in terms).replace("+ -", "- "), {"L": "<=", "G": ">=", "E": "="}[sn], dec(rhs)))
            for j, c in terms:
                meet(j); occ[j].append((i, c))
        bl = []
        for j, (lo, up) in bounds.items():
            if j in order:
                bl.append(" %s free" % vars_[j] if lo is None else " %s <= %s <= %s" % (dec(lo), vars_[j], dec(up)))
        if bl: lines += ["Bounds"] + bl
        lines.append("End")
    else:
        lines += ["NAME p%s" % tag, "ROWS", " N obj"]
        # interleave the extra N rows with the constraint rows
        seq = [("c", i) for i in range(nrow)] + [("n", i) for i in range(nextra)]
        rng.shuffle(seq)
        for kind, i in seq:
            lines.append(" %s %s" % (("N", extra[i][0]) if kind == "n" else (rows[i][1], rows[i][0])))
        lines.append("COLUMNS")
        for j in range(nvar):
            ent = []
            if j in obj: ent.append(("obj", obj[j], None))
            for i, (nm, sn, rhs, terms) in enumerate(rows):
                for (jj, c) in terms:
                    if jj == j: ent.append((nm, c, i))
            for (nm, terms) in extra:
                for (jj, c) in terms:
                    if jj == j: ent.append((nm, c, None))
            rng.shuffle(ent)
            if not ent:
                continue
            meet(j)
            for a in range(0, len(ent), 2):
                lines.append("    %s  %s" % (vars_[j], "  ".join("%s %s" % (nm, dec(c)) for nm, c, _ in ent[a:a + 2])))
            for nm, c, i in ent:
                if i is not None: occ[j].append((i, c))
        lines.append("RHS")
        for nm, sn, rhs, _ in rows:
            if rhs != 0: lines.append("    RHS  %s %s" % (nm, dec(rhs)))
        bl = []
        for j, (lo, up) in bounds.items():
            if j in order:
                bl += [" FR BND %s" % vars_[j]] if lo is None else [" LO BND %s %s" % (vars_[j], dec(lo)), " UP BND %s %s" % (vars_[j], dec(up))]
        if bl: lines += ["BOUNDS"] + bl
        lines.append("ENDATA")
    os.makedirs(outdir, exist_ok=True)
    path = os.path.join(outdir, "rd_%s.%s" % (tag, fmt.lower()))
    with open(path, "w") as f:
        f.write("\n".join(lines) + "\n")
    # ---- what the file says: columns used in the objective or in a non-N row survive (whichColsAreUsed), in the reader's order
    used = [j for j in order if j in obj or occ[j]]
    q = lambda fr: qs(fr) if fr is not None else None
    cols = []
    for j in used:
        lo, up = bounds.get(j, (Fr(0), None))
        if j in bounds and bounds[j][0] is None: lo, up = None, None
        raw = list(reversed(occ[j]))
        cols.append("%s %s %s %s %d%s" % (vars_[j], qs(obj.get(j, Fr(0))), "-inf" if lo is None else qs(lo), "inf" if up is None else qs(up),
                                           len(raw), "".join(" %d %s" % (i, qs(c)) for i, c in raw)))
    if fmt == "MPS":
        rows_out = [rows[i] for kind, i in seq if kind == "c"]
        # row numbers follow the ROWS section: renumber
        newno = {}
        for kind, i in seq:
            if kind == "c": newno[i] = len(newno)
        cols = []
        for j in used:
            lo, up = bounds.get(j, (Fr(0), None))
            if j in bounds and bounds[j][0] is None: lo, up = None, None
            raw = [(newno[i], c) for i, c in reversed(occ[j])]
            cols.append("%s %s %s %s %d%s" % (vars_[j], qs(obj.get(j, Fr(0))), "-inf" if lo is None else qs(lo), "inf" if up is None else qs(up),
                                               len(raw), "".join(" %d %s" % (i, qs(c)) for i, c in raw)))
    else:
        rows_out = rows
    line = "READ h0 %s %s %s %d %d %s %s" % (path, fmt, "MAX" if maxi else "MIN", len(cols), len(rows_out), " ".join(cols),
                                             " ".join("%s %s %s" % (nm, sn, qs(rhs)) for nm, sn, rhs, _ in rows_out))
    dup = sum(1 for j in used if len(set(i for i, _ in occ[j])) < len(occ[j]))
    return line, lines, dict(dup_cols=dup, empty_cols=sum(1 for j in used if not occ[j]), dropped_cols=nvar - len(used), n_rows=nextra)


SEED_LP = "LOAD h0 p MIN 2 2 a 1 0 inf 2 0 2 1 1 b -1 -inf 4 1 0 3 r0 L 4 r1 G 1"
ALPHABET = [
    "NEWCOL h0 3 0 1 -", "ADDCOL h0 1 0 inf c1 2 0 1 0 2", "ADDCOL h0 2 1 1 x3 1 1 0",
    "NEWROW h0 5 E -", "ADDROW h0 2 L x1 2 0 1 0 1", "ADDRROW h0 1 R 3 - 2 1 1 0 1/2", "ADDROW h0 0 G c3 0",
    "DELROW h0 0", "DELROW h0 1", "DELCOL h0 0", "DELCOL h0 1", "DELNROW h0 r1", "DELNCOL h0 b", "DELSETROWS h0 2 1 1", "DELROWS h0 2 1 0",
    "CHGCOEF h0 0 0 0", "CHGCOEF h0 0 1 5/3", "CHGCOEF h0 1 1 7", "CHGOBJ h0 1 4", "CHGRHS h0 0 -1", "CHGSENSE h0 0 R", "CHGRANGE h0 0 2",
    "CHGSENSE h0 1 E", "CHGBND h0 0 B 2", "CHGBND h0 1 L -inf", "CHGOBJSENSE h0 MAX", "MARKINT h0 1", "COPY h0 h1 cp",
]
OBSERVE = ["Q h0 counts", "Q h0 rows", "Q h0 rrows", "Q h0 cols", "Q h0 obj", "Q h0 rhs", "Q h0 senses", "Q h0 bounds", "Q h0 objsense", "Q h0 rownames",
           "Q h0 colnames", "Q h0 intflags", "Q h0 coef 0 0", "Q h0 rowidx r0", "Q h0 colidx a", "Q h0 colidx x3", "DUMP h0"]


def main():
    ck = Check("C06", "proof")
    build_repo()
    pr = ck.proofs()
    rng = ck.rng
    variant = l2_variant()      # which matrix_addrow the library has; the extracted model runs the same variant
    if variant == "unknown":
        ck.violation("probe.txt", "CASE probe\nRESET\n" + "\n".join(ADDROW_PROBE) + "\n", "C06: on the probe history (a row repeating a column index, store nearly full) the library "
                     "neither finishes with the reference answer nor stops in matrix_addrow: it matches neither variant of the model", match=dict(kind="probe"))
    T = ck.thorough()
    cases, meta = [], {}
    # (0) corpus: stored replays of earlier findings run first
    import glob
    for f in sorted(glob.glob(os.path.join(VERIF, "corpus", "C06", "*.txt"))):
        ops = [l.strip() for l in open(f) if l.strip() and not l.startswith("#") and not l.startswith("CASE") and l.strip() != "RESET"]
        cid = "c_" + os.path.basename(f)[:-4]
        ops = with_dumpm(ops)
        cases.append((cid, ops))
        meta[cid] = ("corpus", None)
    # (a) random histories from empty and from loaded problems
    nrand = 900 if T else 70
    for i in range(nrand):
        start = "empty" if i % 3 == 0 else (rng.randint(0, 6), rng.randint(0, 6))
        ops, g = history(rng, "a%d_" % i, rng.randint(5, 60 if T else 40), start)
        ops = with_dumpm(ops)
        cases.append(("r%d" % i, ops))
        meta["r%d" % i] = ("random", g)
    # (b) growth thresholds
    for i, which in enumerate(["rows", "cols", "nz"] * (6 if T else 1)):
        ops, g = threshold_history(rng, "t%d_" % i, which)
        ops = with_dumpm(ops)
        cases.append(("t%d" % i, ops))
        meta["t%d" % i] = ("threshold-" + which, g)
    # (b2) relocation-heavy histories (columns move behind the used part, holes, rebuilds of the array)
    for i in range(60 if T else 6):
        cases.append(("m%d" % i, with_dumpm(reloc_history(rng, "m%d_" % i))))
        meta["m%d" % i] = ("relocation", None)
    # (b3) the same with rows that repeat a column index, and the probe history itself
    for i in range(40 if T else 5):
        cases.append(("p%d" % i, with_dumpm(reloc_history(rng, "p%d_" % i, repeat=True))))
        meta["p%d" % i] = ("relocation-repeated-columns", None)
    cases.append(("probe", with_dumpm(ADDROW_PROBE)))
    meta["probe"] = ("relocation-repeated-columns", None)
    # (b4) the matrix built by the readers: generated LP / MPS files read by mpq_QSread_prob, then a short edit history on top
    rd_stats = dict(files=0, dup_cols=0, empty_cols=0, dropped_cols=0, n_rows=0)
    rd_dir = os.path.join(os.environ.get("QSX_OUT", os.path.join(VERIF, "out")), "tmp", "C06_read_%d" % ck.seed)
    rd_text = {}
    for i in range(400 if T else 40):
        fmt = "LP" if i % 2 == 0 else "MPS"
        line, text, st = read_case(rng, "f%d" % i, fmt, rd_dir)
        for k_ in st: rd_stats[k_] += st[k_]
        rd_stats["files"] += 1
        ops = [line, "DUMP h0", "Q h0 counts"]
        # a few edits on top (valid on any problem with a row and a column): after a read matfree = 1, so the first addition rebuilds the array
        for o in ["CHGCOEF h0 0 0 3", "ADDROW h0 1 L - 2 0 1 0 2", "ADDCOL h0 1 0 inf - 1 0 2", "DELCOL h0 0", "DELROW h0 0"][:rng.randint(0, 5)]:
            ops += [o, "DUMP h0"]
        cid = "f%d" % i
        rd_text[cid] = text
        cases.append((cid, with_dumpm(ops) + ["Q h0 rows", "Q h0 cols", "Q h0 rownames", "Q h0 colnames"]))
        meta[cid] = ("reader-" + fmt, None)
    # (c) bounded-exhaustive: every history of length <= L over the alphabet on the seed LP
    L = 3 if T else 2
    k = 0
    for n in range(1, L + 1):
        for combo in itertools.product(ALPHABET, repeat=n):
            ops = [SEED_LP, "DUMPM h0"]
            for o in combo:
                ops.append(o)
                ops.append("DUMP h0")
                ops.append("DUMPM h0")
            ops += OBSERVE
            cases.append(("e%d" % k, ops))
            meta["e%d" % k] = ("exhaustive", None)
            k += 1
    M, crec, mrec, crashes = run_cases_both(cases, per_case_timeout=120)
    byid = dict(cases)
    stats = dict(ops=0, dumps=0, by_family={}, diffs={}, deferred_to_C07=0, max_rows=0, max_cols=0, max_nz=0,
                 raw_dumps=0, raw_digest_lines=0, wf_true=0, wf_skipped=0, max_matsize=0, matsize_changes=0, relocations=0, model_faults=0)
    wf_false = []
    ophist = {}
    shrunk_n = {}
    for cid, ops in cases:
        fam, g = meta[cid]
        stats["by_family"][fam] = stats["by_family"].get(fam, 0) + 1
        if g:
            for k_, v in g.hist.items():
                ophist[k_] = ophist.get(k_, 0) + v
        if cid not in crec or cid not in mrec:
            ck.violation("missing_%s.txt" % cid, "\n".join(ops) + "\n", "case produced no output on one side %s" % [c for c in crashes if c[0] == cid][:1],
                         match=dict(kind="harness-crash"))
            continue
        # the model's DUMPM block carries one extra line "WF <lwf_check of the model state>": strip and count it
        prev = None
        for k_, rec in enumerate(mrec[cid]):
            if rec and rec[0] and rec[0][0] == "MAT":
                stats["raw_dumps"] += 1
                if len(rec[0]) > 1 and rec[0][1] in ("FAULT", "REJ"):
                    stats["model_faults"] += 1
                for l in list(rec):
                    if l[0] == "WF":
                        rec.remove(l)
                        if l[1] == "true": stats["wf_true"] += 1
                        elif l[1] == "skipped": stats["wf_skipped"] += 1
                        else: wf_false.append((cid, k_))
                    elif l[0] in ("IND", "VAL") and len(l) > 1 and l[1].startswith("#"):
                        stats["raw_digest_lines"] += 1
                hd = dict(x.split("=") for x in rec[0][1:] if "=" in x)
                if "matsize" in hd:
                    stats["max_matsize"] = max(stats["max_matsize"], int(hd["matsize"]))
                    beg = [l for l in rec if l[0] == "BEG"]
                    cur = (int(hd["matsize"]), beg[0][1:] if beg else [])
                    if prev is not None:
                        if prev[0] != cur[0]: stats["matsize_changes"] += 1
                        stats["relocations"] += sum(1 for a, b in zip(prev[1], cur[1]) if a != b) if len(prev[1]) <= len(cur[1]) else 0
                    prev = cur
        diffs = compare_case(ops, crec[cid], mrec[cid])
        if diffs and diffs[-1][1] == "missing" and not any(d[1] == "invalid-accepted" for d in diffs):
            # the library died on a history the model considers valid: shrink on "still crashes", report with the sanitizer's diagnosis
            k_ = diffs[-1][0]
            prefix = [o for o in ops[:k_ + 1]]
            def still_crash(cand):
                mo = records(run_m("CASE s\nRESET\n" + "\n".join(cand) + "\n", M))[1].get("s", [])
                if len(mo) != len(cand) + 1 or any(rec_status(r) == "ERR" for r in mo):
                    return False        # keep the history valid in the model's eyes
                return crash_signature(cand)[0]
            small = shrink(prefix, still_crash, budget=40)
            crashed, sig = crash_signature(small)
            stats["diffs"]["crash"] = stats["diffs"].get("crash", 0) + 1
            mo = records(run_m("CASE s\nRESET\n" + "\n".join(small + ["DUMPM h0"]) + "\n", M))[1].get("s", [])
            pred = bool(mo) and mo[-1][0][:2] == ["MAT", "FAULT"]
            stats.setdefault("crash_predicted_by_L2_model", []).append(pred)
            text = "C06: library crashed on a valid history at op `%s`: %s" % (small[-1][:80], sig)
            ck.violation("crash_%s.txt" % cid, "CASE replay\nRESET\n" + "\n".join(small) + "\n# %s\n" % text, text,
                         match=dict(kind="crash", site=crash_site(sig)))
            diffs = diffs[:-1]
        stats["ops"] += len(ops)
        stats["dumps"] += sum(1 for o in ops if o.startswith("DUMP"))
        for line, rec in zip(ops, mrec[cid][1:]):
            if line.startswith("Q h0 counts") and rec_status(rec) == "OK":
                p = rec_payload(rec)
                stats["max_cols"] = max(stats["max_cols"], int(p[0])); stats["max_rows"] = max(stats["max_rows"], int(p[1])); stats["max_nz"] = max(stats["max_nz"], int(p[2]))
        ck.count((cid, tuple(ops)), nontrivial=any(rec_status(r) == "OK" for r in mrec[cid][2:]))
        seen_kinds = set()
        for (k_, kind, detail) in diffs:
            stats["diffs"][kind] = stats["diffs"].get(kind, 0) + 1
            if kind in ("invalid-accepted", "state-after-failed-call"):
                stats["deferred_to_C07"] += 1
                if ops[k_].startswith("Q "):
                    continue    # a query cannot make the states diverge
                break           # states diverge from here on; C07's business
            if kind in seen_kinds:
                continue
            seen_kinds.add(kind)
            prefix = ops[:k_ + 1]

            def still(cand, kind=kind):
                _, c1, m1, _ = run_cases_both([("s", cand)])
                if "s" not in c1 or "s" not in m1:
                    return False
                return any(kd == kind for (_, kd, _) in compare_case(cand, c1["s"], m1["s"]))
            shrunk_n[kind] = shrunk_n.get(kind, 0) + 1
            small = shrink(prefix, still, budget=40 if kind != "nzcount" else 12) if (len(prefix) < 400 and shrunk_n[kind] <= 3) else prefix
            text = "C06: op %d `%s`: %s -- %s" % (k_, ops[k_][:80], kind, detail)
            last = small[-1].split()
            opkey = "counts" if kind == "nzcount" else (last[0] + ":" + last[2] if last[0] == "Q" and len(last) > 2 else last[0])
            note = "".join("# file| %s\n" % l for l in rd_text.get(cid, []))
            ck.violation("%s_%s.txt" % (kind, cid), "CASE replay\nRESET\n" + "\n".join(small) + "\n# %s\n" % text + note, text,
                         match=dict(kind=kind, op=opkey))
            if kind in ("dump", "payload", "valid-rejected", "missing", "rawstore"):
                break
    for cid, k_ in wf_false[:3]:
        ck.violation("wf_%s.txt" % cid, "CASE replay\nRESET\n" + "\n".join(byid[cid][:k_]) + "\n", "C06: the extracted L2 model reaches a state that violates its own "
                     "representation invariant lwf_check (theorem WF-preservation or the extraction is broken) in case %s" % cid, match=dict(kind="model-wf"))
    ck.sample(dict(case="r0", script=byid["r0"][:12]))
    ck.sample(dict(case="e5", script=byid.get("e5", [])[:6]))
    if not pr["ok"]:
        ck.violation("proof.txt", pr["log"], "proof obligation(s) of Properties_C06.v no longer check: %s" % pr["failed"], no_input=not ck.violations)
    ck.cov["rule"] = ("op histories (random from empty / loaded problems, growth-threshold histories crossing 100 rows, 100 columns, 1000 non-zeros and "
                      "shrinking again, relocation-heavy histories on small problems, all histories of length <= %d over a %d-op alphabet on a 2x2 seed LP); after every op the answer of the call and the "
                      "canonical dump through the query API are compared with the extracted reference model, and the raw arrays of the column store (matbeg, matcnt, matind, matval of live slots, "
                      "matsize, matfree, matcolsize, structmap, rowmap, nzcount) with the arrays of the extracted L2 model (Store.Matrix) - equal entry by entry, long lines by FNV-1a digest; a case is non-trivial when at least one edit "
                      "succeeded; distinct by script text" % (L, len(ALPHABET)))
    ck.cov["evaluations"] = len(cases)
    ck.cov["ops_compared"] = stats["ops"]
    ck.cov["dumps_compared"] = stats["dumps"]
    ck.cov["families"] = stats["by_family"]
    ck.cov["op_histogram_random"] = ophist
    ck.cov["diff_kinds"] = stats["diffs"]
    ck.cov["max_sizes_reached"] = dict(rows=stats["max_rows"], cols=stats["max_cols"], nonzeros=stats["max_nz"], matsize=stats["max_matsize"])
    ck.cov["raw_store"] = dict(dumps_compared=stats["raw_dumps"], long_lines_compared_by_digest=stats["raw_digest_lines"], model_states_satisfying_lwf_check=stats["wf_true"],
                               lwf_check_skipped_large=stats["wf_skipped"], matsize_changes=stats["matsize_changes"], column_moves_observed=stats["relocations"],
                               reader_built=rd_stats, matrix_addrow_variant_found_by_probe=variant, model_fault_states=stats["model_faults"], crash_predicted_by_L2_model=stats.get("crash_predicted_by_L2_model", []))
    ck.cov["invalid_ops_accepted_by_library_deferred_to_C07"] = stats["deferred_to_C07"]
    ck.cov["harness_crashes"] = [dict(case=c, rc=rc) for c, rc, _ in crashes]
    ck.cov["traces_validated_against_impl"] = stats["ops"]
    ck.assumptions = ["Coq kernel; extraction (ExtrOcamlBasic/ExtrOcamlString) + OCaml compiler for the reference model",
                      "h_store harness, text protocol, GMP printing of rationals", "MARKINT is a white-box set-up step (no public setter for integer marks)"]
    ck.finish(trusted_base=["coqc 8.16.1 kernel", "OCaml extraction", "harness h_store.c + ocaml/drv_store.ml + checks/C06.py, store_common.py"],
              extra=dict(not_covered="the matrix built by the LP/MPS readers (rawlp.c) is not an L2 op (file loading is C08-C10's area); rows/columns arrays other than the column store "
                                     "(rhs, sense, bounds, names: packed by the same delete loops) are compared through the query API only"))


main_guard(main)
