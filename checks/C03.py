#!/usr/bin/env python3
"""C03  The reported status and optimal value equal the mathematical truth of the LP."""
import sys, os
sys.path.insert(0, os.path.dirname(os.path.abspath(__file__)))
from lib import *
from gen_lp import *
from solve_common import *
import ref_simplex as RS
from concurrent.futures import ProcessPoolExecutor


def ref_job(args):
    cid, ilp_lines = args
    P = RS.parse_ilp(ilp_lines)
    if P is None:
        return cid, ("unknown", "sentinel on the wrong side")
    try:
        return cid, RS.solve(P)
    except Exception as e:          # the reference is untrusted; a failure only means 'no ground truth'
        return cid, ("unknown", "exception %s" % e)


def error_site(trace):
    """which call made QSexact_solver return non-zero (from the decision trace)"""
    ex = trace_exit(trace)
    if not ex or ex[0] == 0:
        return None
    L = trace_levels(trace)
    ev = set((e, l) for e, l, v in trace)
    if L >= 1 and (2, L, 2) in set(trace) and (8, L) not in ev:
        return "mpf-infeas-array"
    if (10, L) in ev:
        return "objective-limit"
    return "other"


def main():
    ck = Check("C03", "exploration")
    build_repo()
    pr = ck.proofs()
    n_stream = 900 if ck.thorough() else 110
    n_exh = 1500 if ck.thorough() else 120
    lps = load_corpus("C03") + family_stream(ck.rng, n_stream, big=ck.thorough())
    exh = []
    for (m, n) in ((2, 2), (2, 3), (3, 2)):
        exh += list(small_exhaustive(m, n, limit=max(1, n_exh // (3 * 3 ** m)), rng=ck.rng))
    ck.rng.shuffle(exh)
    lps += exh[:n_exh]
    for k in (2, 3, 5):
        lps.append(degenerate(ck.rng, k, name="dg%d" % k))
    lps.append(beale())
    lps += [boxed_ranged(ck.rng, name="bx%d" % i) for i in range(150 if ck.thorough() else 30)]
    # entries / costs below the tolerances of the floating-point stages in shapes that scaling cannot repair
    for k_ in ((30, 35, 40, 45, 50, 60, 80, 120) if ck.thorough() else (35, 40, 60)):
        for r_ in range(2):
            lps.append(tiny_pivot(ck.rng, k_, name="tp%d_%d" % (k_, r_)))
    for k_ in ((6, 7, 8, 9, 10, 12, 15, 20, 30) if ck.thorough() else (7, 9, 12, 20)):
        for r_ in range(4 if ck.thorough() else 2):
            lps.append(tiny_cost(ck.rng, k_, name="tk%d_%d" % (k_, r_)))
    cases, meta = [], {}
    for li, lp in enumerate(lps):
        for ci, e in enumerate(("EXACT P", "EXACT D")):
            cid = "%d.%d" % (li, ci)
            cfg = dict(entry=e)
            cases.append((cid, case_script(cid, lp, cfg)))
            meta[cid] = (lp, cfg)
    M, outs, crashes = run_cases("h_solve", cases, per_case_timeout=60)
    ck.cov["crashes_seen"] = [dict(case=cid, rc=rc) for cid, rc, err in crashes]
    scripts = dict(cases)
    for cid, rc, err in crashes:
        if rc == -999:
            ck.violation("hang_%s.txt" % cid, scripts[cid], "QSexact_solver (%s) did not terminate within the time limit on LP %s" % (meta[cid][1]["entry"], meta[cid][0]["name"]),
                         match=dict(kind="hang", numbers=meta[cid][0].get("numbers", "small")))
    cos = {}
    for cid, toks in outs.items():
        co = CaseOut(toks)
        if co.lp_ok and co.ilp and co.last():
            cos[cid] = co
    # reference classification (one per LP: use the .0 case's dump)
    jobs = [(cid, co.ilp) for cid, co in cos.items() if cid.endswith(".0")]
    with ProcessPoolExecutor(max_workers=16) as ex:
        refs = dict(ex.map(ref_job, jobs, chunksize=8))
    q = ["M " + M]
    for cid, r in refs.items():
        co = cos[cid]
        if r[0] == "optimal":
            q.append("Q %s kkt inf\n%s\nZ %s\nY %s\nV %s" % (cid, co.ilp_text(), " ".join(map(RS.qstr, r[1])), " ".join(map(RS.qstr, r[2])), RS.qstr(r[3])))
        elif r[0] == "infeasible":
            q.append("Q %s farkas inf\n%s\nY %s" % (cid, co.ilp_text(), " ".join(map(RS.qstr, r[1]))))
        elif r[0] == "unbounded":
            q.append("Q %s ray inf\n%s\nZ %s\nD %s" % (cid, co.ilp_text(), " ".join(map(RS.qstr, r[1])), " ".join(map(RS.qstr, r[2]))))
    ans = run_model("drv_solve", "\n".join(q) + "\n")
    truth, skipped = {}, {}
    for cid, r in refs.items():
        li = cid.split(".")[0]
        if r[0] in ("optimal", "infeasible", "unbounded") and ans.get(cid) == ["true"]:
            truth[li] = (r[0], r[3] if r[0] == "optimal" else None)
        else:
            skipped[r[0] + (":" + str(r[1]) if r[0] == "unknown" else ":certificate-rejected")] = skipped.get(r[0] + (":" + str(r[1]) if r[0] == "unknown" else ":certificate-rejected"), 0) + 1
    hist = {}
    code = {"optimal": 1, "infeasible": 2, "unbounded": 3}
    for cid, co in cos.items():
        li = cid.split(".")[0]
        if li not in truth:
            continue
        lp, cfg = meta[cid]
        kind, rv, st = co.last()
        t, tv = truth[li]
        ck.count((repr(lp["cols"]), repr(lp["rows"]), lp["max"], cfg["entry"]))
        hist[t] = hist.get(t, 0) + 1
        fam = "".join(ch for ch in lp["name"] if not ch.isdigit())
        if rv != 0 or st != code[t]:
            ck.violation("truth_%s.txt" % cid, scripts[cid] + "\n# truth (certificate accepted by the verified checker): %s %s\n# library: rval=%d status=%d\n" % (t, tv, rv, st),
                         "LP %s is %s%s but QSexact_solver (%s) returned rval=%d status=%s" % (lp["name"], t, " with value %s" % tv if tv is not None else "", cfg["entry"], rv, STATUS.get(st, st)),
                         match=dict(kind="status-mismatch", truth=t, got=STATUS.get(st, str(st)) if rv == 0 else "error", family=fam, numbers=lp.get("numbers", "small"),
                                    site=error_site(co.traces[-1]) if co.traces else None))
        elif t == "optimal":
            got = co.acc.get("objval", (1, ["?"]))
            if got[0] != 0 or F(got[1][0]) != tv:
                ck.violation("value_%s.txt" % cid, scripts[cid] + "\n# true optimum %s, library %s\n" % (tv, got),
                             "optimal value differs from the true optimum: %s vs %s" % (got[1], tv), match=dict(kind="value-mismatch"))
            else:
                ck.sample(dict(lp=lp["name"], truth=t, value=str(tv), entry=cfg["entry"]))
        elif len(ck.cov["samples"]) < 6 and ck.rng.random() < 0.05:
            ck.sample(dict(lp=lp["name"], truth=t, entry=cfg["entry"]))
    if not pr["ok"]:
        ck.violation("proof.txt", pr["log"], "proof obligation(s) of Properties_C03.v no longer check: %s" % pr["failed"], no_input=not ck.violations)
    ck.cov["rule"] = ("families (random/planted/margins/face/degenerate/unbounded incl. hidden rays/near-parallel/Beale/empty rows+cols) plus a sample of the exhaustive "
                      "2x2, 2x3, 3x2 family over {-1,0,1,2} with all L/G/E sense vectors; each LP classified by the Python reference simplex whose certificate must be "
                      "accepted by the Coq-extracted checker; non-trivial = LP with accepted ground truth compared with QSexact_solver (primal and dual start); distinct by LP data + start")
    ck.cov["truth_histogram"] = hist
    ck.cov["without_ground_truth"] = skipped
    ck.cov["evaluations"] = len(cases)
    ck.cov["theorems"] = ck.cov.get("theorems")
    ck.cov["not_covered"] = "completeness (termination with a definitive status) is explored, not proved; UNBOUNDED answers of the library carry no certificate"
    ck.assumptions = ["reference simplex untrusted (certificates re-checked)", "Coq kernel; extraction; OCaml", "harness h_solve"]
    ck.finish(trusted_base=["coqc 8.16.1 kernel", "OCaml extraction (ExtrOcamlBasic only)", "harness h_solve.c + checks/C03.py"])


main_guard(main)
