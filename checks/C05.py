#!/usr/bin/env python3
"""C05  Re-solving after edits equals solving from scratch; no stale solution is served.

Proof part: coq/Props/Properties_C05.v (Api state machine over the reference model: sizes of basis and cache follow
the problem for all histories; every edit except the documented delete-basic-rows case drops the cache; accessors
succeed only from the cache; cache validity invariant under the solve-oracle hypothesis).
Exploration (the important part): histories of edits interleaved with solves through the three entry points, op
arguments aimed at the current basis.  A live h_store session is driven adaptively; after every solve
  * status and value are compared with an exact solve of a fresh problem rebuilt from the query API,
  * every OPTIMAL answer is judged by the extracted verified checker (check_kkt on to_internal of the query view),
and after every edit (before the next solve)
  * every accessor must fail, or the values must still be an exact optimality certificate of the LP as it now stands,
  * the library's internal arrays must equal to_internal(query view)  (logical columns follow sense/range edits)."""
import sys, os, subprocess, itertools, threading, re
sys.path.insert(0, os.path.dirname(os.path.abspath(__file__)))
from lib import *
from store_common import *
from gen_lp import *
from fractions import Fraction as F
from concurrent.futures import ThreadPoolExecutor

ENTRIES = ["EXACT P", "EXACT D", "PRIMAL", "DUAL"]
STAT = {1: "OPTIMAL", 2: "INFEASIBLE", 3: "UNBOUNDED", 4: "ITER_LIMIT", 5: "TIME_LIMIT", 6: "UNSOLVED", 7: "ABORTED", 8: "NUMERR", 9: "OBJ_LIMIT", 100: "MODIFIED"}


class Crash(Exception):
    pass


class Live:
    """an interactive h_store session"""

    def __init__(self, asan=False):
        b = build_repo()
        exe = os.path.join(b, "h_store" + ("_asan" if asan else ""))
        env = dict(os.environ, ASAN_OPTIONS="detect_leaks=0:abort_on_error=0:exitcode=99", UBSAN_OPTIONS="print_stacktrace=1:halt_on_error=1")
        self.p = subprocess.Popen([exe], stdin=subprocess.PIPE, stdout=subprocess.PIPE, stderr=subprocess.PIPE, text=True, bufsize=1, env=env, errors="replace")
        self.M = self.p.stdout.readline().split()[1]
        self.script = []
        self.out = []

    def send(self, op):
        self.script.append(op)
        try:
            self.p.stdin.write(op + "\n")
            self.p.stdin.flush()
        except (BrokenPipeError, OSError):
            raise Crash(self.diagnose())
        name = op.split()[0]
        first = self.p.stdout.readline()
        if not first:
            raise Crash(self.diagnose())
        lines = [first.rstrip("\n")]
        if name in BLOCK_OPS and not first.startswith("R "):
            while lines[-1] != "END":
                l = self.p.stdout.readline()
                if not l:
                    raise Crash(self.diagnose())
                lines.append(l.rstrip("\n"))
        self.out.append(lines)
        return lines

    def diagnose(self):
        try:
            self.p.stdin.close()
        except Exception:
            pass
        try:
            err = self.p.stderr.read()
            rc = self.p.wait(timeout=10)
        except Exception:
            err, rc = "", None
        sig = [l.strip() for l in err.splitlines() if "runtime error" in l or "ERROR: AddressSanitizer" in l or "SUMMARY" in l]
        return "rc=%s %s" % (rc, (sig[0] if sig else err[-200:]))

    def close(self):
        try:
            self.p.stdin.close()
            self.p.wait(timeout=20)
        except Exception:
            self.p.kill()


def parse_access(lines):
    a = {}
    for l in lines:
        t = l.split()
        if t and t[0] == "ACC":
            if t[1] == "state":
                a["state"] = dict(kv.split("=", 1) for kv in t[2:])
            elif t[1] == "basis":
                a["basis"] = (t[2], t[3])
            else:
                a[t[1]] = (int(t[2]), t[3:])
    return a


def rstatus(line):
    """'R SOLVE OK rv=0 <status> ...' -> (rv, status)"""
    t = line.split()
    if t[2] != "OK":
        return (1, None)
    return (0, int(t[4]))


class History:
    """adaptive driver of one history on handle h0"""

    def __init__(self, rng, lp, cid, asan=False):
        self.rng, self.lp, self.cid = rng, lp, cid
        self.L = Live(asan=asan)
        self.events = []        # checkpoints for the oracle: dict(kind, ...)
        self.acc = None
        self.n = self.m = 0
        self.senses = ""
        self.problems = []      # (kind, text) found online
        self.kinds_used = []
        self.ref_cache = None
        self.param_ops = []     # SETPARAM ops issued so far (a fresh copy gets the same parameters)

    # ---- plumbing
    def do(self, op):
        return self.L.send(op)

    def build(self):
        lp = self.lp
        self.do("CASE %s" % self.cid)
        self.do("RESET")
        self.do("CREATE h0 p %s" % ("MAX" if lp["max"] else "MIN"))
        for (nm, o, l, u) in lp["cols"]:
            self.do("NEWCOL h0 %s %s %s %s" % (qs(o), qs(l), qs(u), nm))
        for (nm, s, r, g, ent) in lp["rows"]:
            e = "%d %s" % (len(ent), " ".join("%d %s" % (j, qs(v)) for j, v in ent))
            if s == "R":
                self.do("ADDRROW h0 %s R %s %s %s" % (qs(r), qs(g), nm, e))
            else:
                self.do("ADDROW h0 %s %s %s %s" % (qs(r), s, nm, e))
        self.refresh()

    def refresh(self):
        t = self.do("Q h0 counts")[0].split()
        self.n, self.m = int(t[4]), int(t[5])
        s = self.do("Q h0 senses")[0].split()
        self.senses = "" if s[4] == "-" else s[4]

    def views(self):
        ulp = self.do("DUMP h0")
        ilp = self.do("DUMPI h0")
        return [l for l in ulp if l != "END"], [l for l in ilp if l != "END"]

    def access(self, h="h0"):
        return parse_access(self.do("ACCESS %s" % h))

    def reference(self, entry=None):
        """exact solve of a fresh problem rebuilt from the query view (the truth), and - for the C05 comparison proper -
        a solve of a second fresh rebuild through the same entry point"""
        r = self.do("CLONE h0 h1")
        if " OK " not in r[0]:
            return None
        s = rstatus(self.do("SOLVE h1 EXACT P")[0])
        a = self.access("h1")
        self.do("FREE h1")
        out = dict(rv=s[0], st=s[1], val=a.get("objval", (1, []))[1][:1], acc=a)
        if entry and not entry.startswith("EXACT"):
            self.do("CLONE h0 h2")
            for o in self.param_ops:
                self.do(o.replace(" h0 ", " h2 "))
            s2 = rstatus(self.do("SOLVE h2 %s" % entry)[0])
            a2 = self.access("h2")
            self.do("FREE h2")
            out["same"] = dict(rv=s2[0], st=s2[1], val=a2.get("objval", (1, []))[1][:1], acc=a2)
        return out

    # ---- checkpoints
    def after_solve(self, entry, line):
        rv, st = rstatus(line)
        a = self.access()
        self.acc = a if (rv == 0 and st == 1) else None
        ulp, ilp = self.views()
        ref = self.reference(entry)
        self.events.append(dict(kind="solve", entry=entry, rv=rv, st=st, acc=a, ulp=ulp, ilp=ilp, ref=ref, at=len(self.L.script)))

    def after_edit(self, what):
        a = self.access()
        ulp, ilp = self.views()
        ev = dict(kind="edit", what=what, acc=a, ulp=ulp, ilp=ilp, at=len(self.L.script))
        # an accessor that answers between edit and solve makes a claim; get the truth only then
        if a.get("x", (1,))[0] == 0 or a.get("status", (0, ["100"]))[1][:1] == ["1"]:
            ev["ref"] = self.reference()
        self.events.append(ev)

    def solve(self, entry):
        self.kinds_used.append("solve:" + entry)
        line = self.do("SOLVE h0 %s" % entry)[0]
        self.after_solve(entry, line)

    # ---- edits aimed at the current basis; each returns True if it issued something
    def basic_cols(self):
        b = self.acc and self.acc.get("basis")
        if not b or b[0] == "-":
            return [], []
        return [j for j, c in enumerate(b[0]) if c == "1"], [j for j, c in enumerate(b[0]) if c != "1"]

    def basic_rows(self):
        b = self.acc and self.acc.get("basis")
        if not b or b[1] == "-":
            return [], []
        return [i for i, c in enumerate(b[1]) if c == "1"], [i for i, c in enumerate(b[1]) if c != "1"]

    def xval(self):
        x = []
        if self.acc and self.acc.get("x", (1,))[0] == 0:
            x = [F(v) if v not in ("inf", "-inf") else F(0) for v in self.acc["x"][1]]
        return (x + [F(0)] * self.n)[:self.n]

    def pick(self, l, det):
        return l[0] if det else self.rng.choice(l)

    def edit(self, kind, det=False):
        """issue one edit of the given kind (if applicable), then the between-edit-and-solve checkpoint"""
        rng, n, m = self.rng, self.n, self.m
        bc, nbc = self.basic_cols()
        br, nbr = self.basic_rows()
        if len(bc) + len(nbc) != n or len(br) + len(nbr) != m:
            bc, nbc, br, nbr = [], list(range(n)), [], list(range(m))       # no usable basis: any index
        small = lambda: qs(F(1 if det else rng.randint(-4, 4), 1 if det else rng.choice([1, 1, 2, 3])))
        ops = None
        if kind == "chgcoef_basic" and bc and m:
            ops = ["CHGCOEF h0 %d %d %s" % (self.pick(list(range(m)), det), self.pick(bc, det), small())]
        elif kind == "chgcoef_nonbasic" and nbc and m:
            ops = ["CHGCOEF h0 %d %d %s" % (self.pick(list(range(m)), det), self.pick(nbc, det), small())]
        elif kind == "sense_basic" and br:
            i = self.pick(br, det)
            ops = ["CHGSENSE h0 %d %s" % (i, self.pick([s for s in "GLE" if s != self.senses[i]], det))]
        elif kind == "sense_tight" and nbr:
            i = self.pick(nbr, det)
            ops = ["CHGSENSE h0 %d %s" % (i, self.pick([s for s in "GLE" if s != self.senses[i]], det))]
        elif kind == "delrow_basic" and br:
            ops = ["DELROW h0 %d" % self.pick(br, det)]
        elif kind == "delrow_tight" and nbr:
            ops = ["DELROW h0 %d" % self.pick(nbr, det)]
        elif kind == "delrows_basic2" and len(br) >= 2:
            ops = ["DELROWS h0 2 %d %d" % (br[0], br[-1])]
        elif kind == "addrow_violated" and n:
            x = self.xval()
            js = list(range(n)) if det else rng.sample(range(n), rng.randint(1, n))
            co = [F(1) if det else F(rng.choice([1, 2, 3, -1])) for _ in js]
            act = sum(c * x[j] for c, j in zip(co, js))
            ops = ["ADDROW h0 %s L - %d %s" % (qs(act - 1), len(js), " ".join("%d %s" % (j, qs(c)) for j, c in zip(js, co)))]
        elif kind == "addrow_slack" and n:
            x = self.xval()
            js = list(range(n))
            act = sum(x[j] for j in js)
            ops = ["ADDROW h0 %s L - %d %s" % (qs(act + 3), len(js), " ".join("%d 1" % j for j in js))]
        elif kind == "chgbnd_nonbasic" and nbc:
            j = self.pick(nbc, det)
            x = self.xval()
            b0 = self.acc["basis"][0] if (self.acc and self.acc.get("basis")) else ""
            lu = "L" if (j < len(b0) and b0[j] == "0") else "U"
            ops = ["CHGBND h0 %d %s %s" % (j, lu, qs(x[j] + (1 if lu == "L" else -1)))]
        elif kind == "chgbnd_relax_nonbasic" and nbc:
            # the bound the non-basic column sits at moves outwards: the cached point stays feasible but need not stay optimal
            j = self.pick(nbc, det)
            x = self.xval()
            b0 = self.acc["basis"][0] if (self.acc and self.acc.get("basis")) else ""
            lu = "L" if (j < len(b0) and b0[j] == "0") else "U"
            ops = ["CHGBND h0 %d %s %s" % (j, lu, qs(x[j] + (-2 if lu == "L" else 2)))]
        elif kind == "chgbnd_loose_basic" and bc:
            # a bound of a basic column that does not cut off the cached point
            j = self.pick(bc, det)
            x = self.xval()
            ops = ["CHGBND h0 %d %s" % (j, "U %s" % qs(x[j] + 1) if (det or rng.random() < 0.5) else "L %s" % qs(x[j] - 1))]
        elif kind == "chgbnd_cut_basic" and bc:
            j = self.pick(bc, det)
            x = self.xval()
            ops = ["CHGBND h0 %d U %s" % (j, qs(x[j] - F(1, 2)))]
        elif kind == "chgobj_basic" and bc:
            ops = ["CHGOBJ h0 %d %s" % (self.pick(bc, det), qs(F(-3 if det else rng.randint(-6, 6))))]
        elif kind == "chgobj_nonbasic" and nbc:
            ops = ["CHGOBJ h0 %d %s" % (self.pick(nbc, det), qs(F(7 if det else rng.randint(-9, 9))))]
        elif kind == "chgrhs" and m:
            ops = ["CHGRHS h0 %d %s" % (self.pick(list(range(m)), det), small())]
        elif kind == "to_range" and m:
            i = self.pick(list(range(m)), det)
            ops = ["CHGSENSE h0 %d R" % i, "CHGRANGE h0 %d %s" % (i, qs(F(2 if det else rng.randint(1, 5))))]
        elif kind == "chgrange" and "R" in self.senses:
            i = self.pick([i for i, s in enumerate(self.senses) if s == "R"], det)
            ops = ["CHGRANGE h0 %d %s" % (i, qs(F(1 if det else rng.randint(0, 6))))]
        elif kind == "objsense":
            ops = ["CHGOBJSENSE h0 %s" % ("MIN" if self.do("Q h0 objsense")[0].split()[4] == "MAX" else "MAX")]
        elif kind == "addcol" and m:
            k = 1 if det else rng.randint(1, m)
            rows_ = list(range(k)) if det else rng.sample(range(m), k)
            ops = ["ADDCOL h0 %s 0 %s - %d %s" % (small(), qs(F(3 if det else rng.randint(1, 6))), len(rows_), " ".join("%d %s" % (i, small()) for i in rows_))]
        elif kind == "newcol":
            ops = ["NEWCOL h0 %s 0 2 -" % small()]
        elif kind == "delcol_basic" and bc:
            ops = ["DELCOL h0 %d" % self.pick(bc, det)]
        elif kind == "delcol_nonbasic" and nbc:
            ops = ["DELCOL h0 %d" % self.pick(nbc, det)]
        elif kind == "loadbasis_slack" and (n + m):
            # slack basis; every structural at a finite bound (at an infinite bound the library takes the sentinel as a value: C01's finding)
            b = self.do("Q h0 bounds")[0].split()[4:]
            lo, up = b[:n], b[n + 1:]
            cs = "".join("0" if l_ != "-inf" else ("2" if u_ != "inf" else "3") for l_, u_ in zip(lo, up))
            ops = ["LOADBASISARR h0 %s %s" % (cs or "-", "1" * m or "-")]
        elif kind == "loadbasis_kept":
            ops = ["GETBASIS h0 b0", "CHGRHS h0 0 %s" % small() if m else "Q h0 counts", "LOADBASIS h0 b0"]
        elif kind == "pricing":
            ops = ["SETPARAM h0 %d %d" % rng.choice([(0, 1), (0, 2), (0, 3), (2, 6), (2, 7), (2, 9)]) if not det else "SETPARAM h0 2 6"]
        elif kind == "scaling":
            ops = ["SETPARAM h0 7 %d" % (0 if det else rng.choice([0, 1]))]
        if not ops:
            return False
        self.kinds_used.append(kind)
        for o in ops:
            self.do(o)
            if o.startswith("SETPARAM"):
                self.param_ops.append(o)
        self.refresh()
        self.after_edit(kind)
        return True


EDIT_KINDS = ["chgcoef_basic", "chgcoef_nonbasic", "sense_basic", "sense_tight", "delrow_basic", "delrow_tight", "delrows_basic2", "addrow_violated", "addrow_slack",
              "chgbnd_nonbasic", "chgbnd_cut_basic", "chgbnd_relax_nonbasic", "chgbnd_loose_basic", "chgobj_basic", "chgobj_nonbasic", "chgrhs", "to_range", "chgrange", "objsense", "addcol", "newcol",
              "delcol_basic", "delcol_nonbasic", "loadbasis_slack", "loadbasis_kept", "pricing", "scaling"]
EXH_KINDS = ["chgcoef_basic", "chgcoef_nonbasic", "sense_basic", "sense_tight", "delrow_basic", "delrow_tight", "addrow_violated", "chgbnd_nonbasic",
             "chgbnd_cut_basic", "chgbnd_relax_nonbasic", "chgbnd_loose_basic", "chgobj_basic", "chgrhs", "to_range", "objsense", "addcol", "delcol_basic", "delcol_nonbasic", "loadbasis_slack"]

SEED_LPS = [
    mk("seedA", True, [(3, 0, 10), (2, 0, 10), (4, 0, 10)], [("L", 12, 0, [(0, 3), (1, 2), (2, 1)]), ("R", 2, 6, [(0, 1), (1, 1), (2, 2)]), ("G", 1, 0, [(0, 1), (2, 1)])]),
    mk("seedC", True, [(-1, 0, 10), (-2, 0, 10)], [("G", 2, 0, [(0, 1), (1, 1)]), ("L", 30, 0, [(0, 1), (1, 2)])]),      # tight G row with a negative dual
    mk("seedB", False, [(1, 0, INF), (2, 0, INF), (-1, 0, 4), (0, -2, 2)], [("G", 4, 0, [(0, 1), (1, 1), (2, 1)]), ("L", 10, 0, [(0, 2), (1, 1), (3, 1)]), ("E", 3, 0, [(0, 1), (2, 1), (3, 1)])]),
]


def run_history(args):
    """returns dict(cid, script, events, crash, kinds)"""
    mode, cid, seed, lp, plan, asan = args
    import random
    rng = random.Random(seed)
    H = History(rng, lp, cid, asan=asan)
    crash = None
    try:
        H.build()
        if mode == "random":
            nsteps = plan
            H.solve(rng.choice(ENTRIES))
            for _ in range(nsteps):
                for _ in range(rng.randint(1, 3)):
                    for _try in range(6):
                        if H.edit(rng.choice(EDIT_KINDS)):
                            break
                H.solve(rng.choice(ENTRIES))
        else:
            entry, kinds = plan
            H.solve(entry)
            for k in kinds:
                H.edit(k, det=True)
            H.solve(entry)
    except Crash as e:
        crash = str(e)
    finally:
        H.L.close()
    return dict(cid=cid, script=H.L.script, out=H.L.out, events=H.events, crash=crash, kinds=H.kinds_used, M=H.L.M)


def crossed_bounds(ulp):
    """a column with lower > upper (both finite) in the query view: the LP is infeasible by its bounds"""
    for l in ulp:
        t = l.split()
        if t and t[0] == "UC" and t[3] not in ("-inf", "inf") and t[4] not in ("-inf", "inf") and F(t[3]) > F(t[4]):
            return True
    return False


def api_model_script(r):
    """the h0-part of a live session as a script for the Api model: solves carry the library's answer as the oracle,
    QSexact_solver's effect on the state is adopted (SYNC), `ACCESS h0` becomes `STATE h0`.  Returns (lines, [C state dicts])"""
    sc, out = r["script"], r["out"]
    lines, cstates, flags = [], [], []
    bases = {}
    factor_unknown = False
    n = min(len(sc), len(out))
    for i in range(n):
        op = sc[i]
        t = op.split()
        if len(t) >= 2 and t[1] in ("h1", "h2"):
            continue
        if t[0] in ("DUMP", "DUMPI") or (t[0] == "Q" and t[2] != "state"):
            continue
        nxt = parse_access(out[i + 1]) if i + 1 < n and sc[i + 1] == "ACCESS h0" else None
        if t[0] == "ACCESS":
            a = parse_access(out[i])
            if "state" in a:
                lines.append("STATE h0")
                cstates.append(a["state"])
                flags.append(factor_unknown)
            continue
        if t[0] == "SOLVE":
            ok = out[i][0].split()[2] == "OK"
            if not ok or nxt is None or "state" not in nxt:
                return lines, cstates, flags          # stop the correspondence at a failing solve
            stt = out[i][0].split()[4]
            b = nxt.get("basis", ("-", "-"))
            pi = nxt["pi"][1] if nxt.get("pi", (1,))[0] == 0 else []
            if t[2] in ("PRIMAL", "DUAL"):
                lines.append("SOLVE h0 %s ORACLE %s %s %s PI %s" % (t[2], stt, b[0], b[1], " ".join(pi)))
            else:
                s_ = nxt["state"]
                has_b = s_.get("basis", "-") != "-"
                lines.append("SYNC h0 %s %s %s %s %s PI %s" % (s_["qstatus"], s_["factorok"], s_["cache"], b[0] if has_b else "none", b[1], " ".join(pi)))
            factor_unknown = False
            continue
        if t[0] == "GETBASIS":
            o = out[i][0].split()
            if o[2] == "OK":
                bases[t[2]] = (o[4], o[5])
            continue
        if t[0] == "LOADBASIS":
            if t[2] in bases and out[i][0].split()[2] == "OK":
                lines.append("MLOADBASIS h0 %s %s" % bases[t[2]])
            elif out[i][0].split()[2] == "OK":
                return lines, cstates, flags
            continue
        if t[0] in ("LOADBASISARR",):
            if out[i][0].split()[2] == "OK":
                lines.append("MLOADBASIS h0 %s %s" % (t[2], t[3]))
            continue
        if t[0] in ("ADDROW", "ADDRROW", "ADDROWS", "ADDRROWS"):
            factor_unknown = True       # depends on stored dual norms (not modelled)
        elif t[0] in ("NEWROW", "DELROW", "DELROWS", "DELCOL", "DELCOLS", "CHGCOEF", "CHGSENSE", "CHGSENSES", "CHGRANGE"):
            factor_unknown = False
        lines.append(op)
    return lines, cstates, flags


def status_vs_bounds(ulp, acc):
    """the stored basis marks a column FREE although it has a finite bound, or at a bound that is infinite
    (arises from QSchange_bound on a non-basic column: the status is not adjusted)"""
    b = acc.get("basis")
    if not b or b[0] == "-":
        return False
    cols = [l.split() for l in ulp if l.startswith("UC ")]
    if len(cols) != len(b[0]):
        return False
    for c, t in zip(b[0], cols):
        lo, up = t[3], t[4]
        if (c == "3" and (lo != "-inf" or up != "inf")) or (c == "0" and lo == "-inf") or (c == "2" and up == "inf"):
            return True
    return False


def zvec(a):
    return a["x"][1] + a["slack"][1]


def main():
    ck = Check("C05", "proof")
    build_repo()
    pr = ck.proofs()
    rng = ck.rng
    T = ck.thorough()
    jobs = []
    # (a) random adaptive histories on generated LPs (feasible bounded, random, degenerate ...)
    nrand = 700 if T else 60
    fam = family_stream(rng, nrand, big=False)
    for i, lp in enumerate(fam[:nrand]):
        if len(lp["cols"]) == 0:
            continue
        jobs.append(("random", "r%d" % i, rng.randrange(1 << 30), lp, rng.randint(2, 6 if T else 4), False))
    # (b) bounded-exhaustive: solve ; k1 ; [k2 ;] solve   on two seed LPs, entry points round-robin (all of them in the thorough tier)
    k = 0
    for li, lp in enumerate(SEED_LPS):
        for n_ in (1, 2) + ((3,) if T else ()):
            combos = list(itertools.product(EXH_KINDS, repeat=n_))
            if n_ == 3:
                combos = rng.sample(combos, 1200)
            for combo in combos:
                ents = ENTRIES[2:] + ENTRIES[:1] if not T else ENTRIES
                for e in (ents if (T or n_ == 1) else [ents[k % len(ents)]]):
                    jobs.append(("exh", "e%d" % k, 1, lp, (e, list(combo)), False))
                    k += 1
    with ThreadPoolExecutor(max_workers=14) as ex:
        results = list(ex.map(run_history, jobs))
    M = results[0]["M"] if results else "1"
    # ---- oracle queries: KKTU (drv_store) and toint (drv_solve)
    kq, tq = ["M " + M], ["M " + M]
    for r in results:
        for ei, ev in enumerate(r["events"]):
            qid = "%s.%d" % (r["cid"], ei)
            a = ev["acc"]
            have = all(a.get(k_, (1,))[0] == 0 for k_ in ("x", "pi", "slack", "objval"))
            ev["have"] = have
            if have and ev["ulp"] and ev["ulp"][0].startswith("ULP"):
                kq.append("KKTU %s\n%s\nZ %s\nY %s\nV %s" % (qid, "\n".join(ev["ulp"]), " ".join(zvec(a)), " ".join(a["pi"][1]), a["objval"][1][0]))
            if ev["ulp"] and ev["ulp"][0].startswith("ULP") and ev["ilp"] and ev["ilp"][0].startswith("ILP"):
                tq.append("Q %s toint\n%s\n%s" % (qid, "\n".join(ev["ilp"]), "\n".join(ev["ulp"])))
            ref = ev.get("ref")
            if ref and ref["rv"] == 0 and ref["st"] == 1 and all(ref["acc"].get(k_, (1,))[0] == 0 for k_ in ("x", "pi", "slack", "objval")):
                kq.append("KKTU %s.ref\n%s\nZ %s\nY %s\nV %s" % (qid, "\n".join(ev["ulp"]), " ".join(zvec(ref["acc"])), " ".join(ref["acc"]["pi"][1]), ref["acc"]["objval"][1][0]))
    build_model()
    r_ = sh([os.path.join(VERIF, "ocaml", "gen", "drv_store")], input="\n".join(kq) + "\n", timeout=3000)
    if r_.returncode != 0:
        raise Fail("drv_store KKTU failed: " + r_.stderr[-1000:])
    kans = {t[1]: t[2:] for t in (l.split() for l in r_.stdout.splitlines()) if len(t) >= 3 and t[0] == "A"}
    tans = run_model("drv_solve", "\n".join(tq) + "\n")
    # ---- correspondence Api model <-> library state (qstatus, cache presence and sizes, basis presence and sizes, factorok)
    api_cases, api_meta = [], {}
    for r in results:
        lines, cstates, flags = api_model_script(r)
        if cstates:
            api_cases.append("CASE %s\n" % r["cid"] + "\n".join(lines) + "\n")
            api_meta[r["cid"]] = (lines, cstates, flags, r)
    mout = run_m("".join(api_cases), M)
    _, mrec = records(mout)
    api_stats = dict(histories=0, states_compared=0, mismatches=0, factorok_skipped=0)
    for cid, (lines, cstates, flags, r) in api_meta.items():
        got = [dict(kv.split("=", 1) for kv in rec[0][4:]) for rec in mrec.get(cid, []) if rec[0][:2] == ["R", "STATE"] and rec[0][2] == "OK"]
        api_stats["histories"] += 1
        for k_, (cs_, ms_, fu) in enumerate(zip(cstates, got, flags)):
            api_stats["states_compared"] += 1
            keys = ["qstatus", "cache", "cache_dims", "basis"] + ([] if fu else ["factorok"])
            if fu:
                api_stats["factorok_skipped"] += 1
            cview = {k2: cs_.get(k2) for k2 in keys}
            mview = {k2: ms_.get(k2) for k2 in keys}
            if cview != mview:
                api_stats["mismatches"] += 1
                nstate = [i for i, l in enumerate(lines) if l == "STATE h0"][k_]
                tainted = [kd for kd in r["kinds"] if kd in ("to_range", "chgrange")]
                if tainted:
                    # the internal form already differs from the query view (known finding on range edits): bases the library
                    # produces there cannot be reloaded by ILLbasis_load, calls fail half-way; not a break of the Api model
                    api_stats["mismatches_in_range_tainted_histories"] = api_stats.get("mismatches_in_range_tainted_histories", 0) + 1
                    ck.violation("corr_api_%s.txt" % cid, "\n".join(r["script"]) + "\n", "Api state differs in a history after a range edit (%s): library %s, model %s" % (tainted[0], cview, mview),
                                 match=dict(kind="internal-form", after=tainted[0]))
                    break
                ck.violation("corr_api_%s.txt" % cid, "\n".join(r["script"]) + "\n# model script:\n# " + "\n# ".join(lines[:nstate + 1]) + "\n# library: %s\n# model:   %s\n" % (cview, mview),
                             "correspondence Store.Api vs library state broke after `%s`: library %s, model %s" % (lines[nstate - 1][:60], cview, mview),
                             no_input=True, match=dict(kind="corr-api", op=lines[nstate - 1].split()[0]))
                break
        if len(got) < len(cstates):
            pass
    ck.cov["corr_api"] = api_stats
    # ---- judging
    st = dict(solves=0, solves_optimal_judged=0, edits=0, accessor_answers_between=0, ref_mismatch=0, excluded_dual_unbounded=0, nondefinitive=0,
              status_hist={}, ref_not_certified=0, toint_checked=0)
    kind_hist = {}
    found = {}

    def report(key, r, ev, text, match):
        found.setdefault(key, []).append((r, ev, text, match))

    for r in results:
        for kd in r["kinds"]:
            kind_hist[kd] = kind_hist.get(kd, 0) + 1
        ck.count((r["cid"], tuple(r["script"])), nontrivial=any(ev["kind"] == "solve" and ev["rv"] == 0 for ev in r["events"]))
        if r["crash"]:
            last_edit = next((e_["what"] for e_ in reversed(r["events"]) if e_["kind"] == "edit"), "-")
            lastop = r["script"][-1].split()
            crashed, sig = crash_signature([o for o in r["script"] if not o.startswith("CASE") and o != "RESET"])
            site = crash_site(sig) if crashed else "?"
            report(("crash", lastop[0], site), r, None, "library crashed at `%s` after edit %s: %s" % (r["script"][-1][:80], last_edit, sig or r["crash"][:200]),
                   dict(kind="crash", op=lastop[0], site=site))
        last_edits = []
        taint = None            # the edit after which the internal arrays stopped matching the query view
        for ei, ev in enumerate(r["events"]):
            qid = "%s.%d" % (r["cid"], ei)
            a = ev["acc"]
            ti = tans.get(qid)
            if ti is not None:
                st["toint_checked"] += 1
                if ti != ["true"] and taint is None:
                    taint = ev.get("what") or ("solve:" + ev.get("entry", "?"))
                    report(("internal-form", taint), r, ev, "the solver's internal arrays (logical columns) differ from to_internal(query view) after edit %s: the problem solved is not the problem shown" % taint,
                           dict(kind="internal-form", after=taint))
            if taint is None and crossed_bounds(ev["ulp"]):
                taint = "crossed-bounds"
                st["histories_with_crossed_bounds"] = st.get("histories_with_crossed_bounds", 0) + 1
            if taint is None and status_vs_bounds(ev["ulp"], a):
                taint = "basis-status-vs-bounds"
                st["histories_with_status_vs_bounds"] = st.get("histories_with_status_vs_bounds", 0) + 1
            if ev["kind"] == "edit":
                st["edits"] += 1
                last_edits.append(ev["what"])
                claims = [k_ for k_ in ("x", "pi", "rc", "slack", "objval", "solution") if a.get(k_, (1,))[0] == 0]
                status_claim = a.get("status", (0, ["100"]))[1][:1] == ["1"]
                if claims == ["objval"] and not status_claim:
                    # QSget_objval answers after a non-optimal solve (value of the last iterate) while QSget_status says
                    # "not optimal" and no solution vector is served: not a solution claim
                    st["objval_only_answers"] = st.get("objval_only_answers", 0) + 1
                    claims = []
                if claims or status_claim:
                    st["accessor_answers_between"] += 1
                    ok = ev["have"] and kans.get(qid) == ["true"]
                    if not ok and ev["have"] is False and claims == ["objval"]:
                        ref = ev.get("ref")
                        ok = bool(ref and ref["rv"] == 0 and ref["st"] == 1 and ref["val"] == a["objval"][1][:1])
                    if not ok and not claims and status_claim:
                        ok = False
                    if not ok and taint is None and ev["what"].startswith("delrow") and a.get("state", {}).get("cache") == "1":
                        # ILLlib_delrows kept (repacked) the cache: the deleted rows were basic in the *stored basis* and had pi <= 0 -
                        # but the stored basis need not be the basis of the cached solution (QSload_basis*), and pi < 0 is not pi = 0 (DESIGN 10 #18)
                        taint = "delrows-kept-cache"
                        report(("delrows-kept-cache",), r, ev, "after %s the cached solution is kept and served with status OPTIMAL although it is not optimal for the reduced LP "
                               "(rows basic in the loaded basis, non-zero duals in the cached solution)" % ev["what"], dict(kind="delrows-kept-cache"))
                    elif not ok:
                        report(("stale", ev["what"]) if taint is None else ("consequence-of-internal-form", taint, "stale"), r, ev, "after edit %s and before the next solve accessors %s answer%s, but the values are not an exact optimality certificate of the LP as it now stands" %
                               (ev["what"], claims, " (QSget_status = OPTIMAL)" if status_claim else ""), dict(kind="stale-accessor", after=ev["what"]))
            else:
                st["solves"] += 1
                key = "%s/%s" % (ev["entry"], STAT.get(ev["st"], ev["st"]) if ev["rv"] == 0 else "rval!=0")
                st["status_hist"][key] = st["status_hist"].get(key, 0) + 1
                after = "+".join(last_edits[-3:]) or "-"
                ref = ev["ref"]
                same = ref.get("same") if ref else None
                if ev["rv"] == 0 and ev["st"] == 1:
                    st["solves_optimal_judged"] += 1
                    if not (ev["have"] and kans.get(qid) == ["true"]) and same and same["rv"] == 0 and same["st"] == 1 and \
                            same["val"] == a.get("objval", (1, []))[1][:1] and taint is None:
                        # the same entry point gives the same uncertified OPTIMAL on a fresh copy: not an effect of the history (C01/C03's business)
                        st["uncertified_optimal_also_on_fresh_copy"] = st.get("uncertified_optimal_also_on_fresh_copy", 0) + 1
                    elif not (ev["have"] and kans.get(qid) == ["true"]):
                        report(("not-optimal", ev["entry"], last_edits[-1] if last_edits else "-") if taint is None else ("consequence-of-internal-form", taint, "not-optimal"), r, ev,
                               "SOLVE %s after edits [%s] reports OPTIMAL but the accessor values are not an exact optimality certificate of the current LP (reference: %s %s)" %
                               (ev["entry"], after, STAT.get(ref["st"]) if ref else "?", ref["val"] if ref else ""), dict(kind="not-optimal", entry=ev["entry"], after=last_edits[-1] if last_edits else "-"))
                if ref is None or ref["rv"] != 0 or ref["st"] not in (1, 2, 3):
                    st["nondefinitive"] += 1
                    if same and same["rv"] == 0 and ev["rv"] == 0 and same["st"] in (1, 2, 3) and ev["st"] in (1, 2, 3) and taint is None and \
                            (same["st"] != ev["st"] or (ev["st"] == 1 and same["val"] != a.get("objval", (1, []))[1][:1])):
                        report(("differs-from-fresh", ev["entry"], last_edits[-1] if last_edits else "-"), r, ev,
                               "SOLVE %s after edits [%s]: %s %s, the same entry point on a fresh copy gives %s %s" %
                               (ev["entry"], after, STAT[ev["st"]], a.get("objval", (1, []))[1][:1], STAT[same["st"]], same["val"]),
                               dict(kind="differs-from-fresh", entry=ev["entry"], after=last_edits[-1] if last_edits else "-"))
                elif ref["st"] == 1 and kans.get(qid + ".ref") != ["true"]:
                    st["ref_not_certified"] += 1
                elif ev["rv"] != 0:
                    report(("solve-error", ev["entry"], last_edits[-1] if last_edits else "-") if taint is None else ("consequence-of-internal-form", taint, "solve-error"), r, ev, "SOLVE %s after edits [%s] fails (rval != 0) although a fresh copy solves to %s" % (ev["entry"], after, STAT[ref["st"]]),
                           dict(kind="solve-error", entry=ev["entry"], after=last_edits[-1] if last_edits else "-"))
                elif ev["st"] in (1, 2, 3):
                    eq = ev["st"] == ref["st"] and (ev["st"] != 1 or a.get("objval", (1, []))[1][:1] == ref["val"])
                    if not eq and same and same["rv"] == 0 and same["st"] == ev["st"] and (ev["st"] != 1 or same["val"] == a.get("objval", (1, []))[1][:1]) and taint is None:
                        st["wrong_but_same_as_fresh_same_entry"] = st.get("wrong_but_same_as_fresh_same_entry", 0) + 1     # entry point's own defect (C03/C04), not the history's
                    elif not eq:
                        if ev["entry"] == "DUAL" and ev["st"] == 2 and ref["st"] == 3:
                            st["excluded_dual_unbounded"] += 1      # C04's known finding F-dual-simplex-infeasible-on-unbounded
                        else:
                            st["ref_mismatch"] += 1
                            report(("differs-from-fresh", ev["entry"], last_edits[-1] if last_edits else "-") if taint is None else ("consequence-of-internal-form", taint, "differs-from-fresh"), r, ev,
                                   "SOLVE %s after edits [%s]: %s %s, a fresh copy of the current problem gives %s %s" %
                                   (ev["entry"], after, STAT[ev["st"]], a.get("objval", (1, []))[1][:1], STAT[ref["st"]], ref["val"]),
                                   dict(kind="differs-from-fresh", entry=ev["entry"], after=last_edits[-1] if last_edits else "-"))
                else:
                    st["nondefinitive"] += 1
                last_edits = last_edits if ev["rv"] != 0 else last_edits
    # one report per (kind, context): shortest script of the group as replay
    for key, items in sorted(found.items(), key=lambda kv: str(kv[0])):
        items.sort(key=lambda it: len(it[0]["script"]))
        r, ev, text, match = items[0]
        if key[0] == "consequence-of-internal-form":
            match = dict(kind="internal-form", after=key[1]) if key[1] not in ("crossed-bounds", "delrows-kept-cache", "basis-status-vs-bounds") else dict(kind=key[1])
        upto = ev["at"] if ev else len(r["script"])
        replay = "\n".join(r["script"][:upto]) + "\n# %s\n# %d histories show this; cases: %s\n" % (text, len(items), [it[0]["cid"] for it in items[:12]])
        ck.violation("%s_%s.txt" % ("_".join(str(k_).replace(" ", "") for k_ in key), r["cid"]), replay, "C05 %s (%d histories)" % (text, len(items)), match=match)
    if results:
        ck.sample(dict(case=results[0]["cid"], script=results[0]["script"][:14]))
        ex = [r for r in results if r["cid"].startswith("e")]
        if ex:
            ck.sample(dict(case=ex[len(ex) // 2]["cid"], script=ex[len(ex) // 2]["script"]))
    if not pr["ok"]:
        ck.violation("proof.txt", pr["log"], "proof obligation(s) of Properties_C05.v no longer check: %s" % pr["failed"], no_input=not ck.violations)
    ck.cov["rule"] = ("histories of edits interleaved with solves (QSexact_solver primal/dual start, mpq_QSopt_primal, mpq_QSopt_dual); random adaptive histories on generated LPs "
                      "with edit arguments aimed at the current basis (basic/non-basic columns, rows with basic/tight slack, rows cutting off x*, bounds of non-basic columns ...), and all "
                      "histories solve;k1;[k2;]solve over %d edit kinds on two seed LPs; a case is non-trivial when at least one solve returned; distinct by script text" % len(EXH_KINDS))
    ck.cov["evaluations"] = len(results)
    ck.cov["counts"] = st
    ck.cov["edit_kind_histogram"] = kind_hist
    ck.cov["finding_groups"] = {str(k_): len(v) for k_, v in found.items()}
    ck.cov["traces_validated_against_impl"] = st["solves"] + st["edits"]
    ck.assumptions = ["Coq kernel; extraction + OCaml for check_kkt / to_internal", "the reference answer is QSexact_solver on a problem rebuilt from the query API; OPTIMAL references are themselves "
                      "judged by check_kkt; INFEASIBLE/UNBOUNDED references rest on C02/C03", "GMP arithmetic exact"]
    ck.finish(trusted_base=["coqc 8.16.1 kernel", "OCaml extraction", "harness h_store.c (live session) + ocaml/drv_store.ml (KKTU) + drv_solve (toint) + checks/C05.py"],
              extra=dict(not_covered="the simplex and the LU factorization are oracles of the Api model (not modelled); factor/norm reuse is covered by exploration only; "
                                     "Inv_factor is not stated (factored matrix is not observable through the API); delete-rows-keeps-cache soundness is a hypothesis of the _partial theorem, monitored at run time"))


main_guard(main)
