"""Generators of the I/O-domain checks: numeric literals of the reader's grammar (with their exact value
computed independently), one-edit mutations, problems by name covering the shapes of C08/C09, the
independent LP/MPS renderers of C10 and the file mutators of C11."""
from fractions import Fraction as F
import string

INF, NINF = "inf", "-inf"

# ----------------------------------------------------------------------------- numeric literals


def gen_digits(rng, kmin, kmax, lead_zero_ok=True):
    k = rng.randint(kmin, kmax)
    return "".join(rng.choice("0123456789") for _ in range(k))


def gen_mant(rng, big=False, nonzero=False):
    """(text, Fraction) of one mantissa: sign? int-digits (. frac-digits)? ((e|E) sign? digits)?"""
    while True:
        sg = rng.choice(["", "", "+", "-"])
        L = rng.choice([200, 1200]) if big and rng.random() < 0.3 else 6
        shape = rng.choice(["int", "int", "dec", "dec", "lead", "trail"])
        if shape == "int":
            ip, fp = gen_digits(rng, 1, L), None
        elif shape == "dec":
            ip, fp = gen_digits(rng, 1, L), gen_digits(rng, 1, L)
        elif shape == "lead":
            ip, fp = "", gen_digits(rng, 1, L)
        else:
            ip, fp = gen_digits(rng, 1, L), ""
        ex = None
        if rng.random() < 0.4:
            ex = (rng.choice("eE"), rng.choice(["", "+", "-"]), gen_digits(rng, 1, 2 if rng.random() < 0.8 else 3))
        txt = sg + ip + ("." + fp if fp is not None else "") + ("".join(ex) if ex else "")
        val = F(int(ip or "0")) + (F(int(fp), 10 ** len(fp)) if fp else F(0))
        if ex:
            e = int(ex[2]) * (-1 if ex[1] == "-" else 1)
            val *= F(10) ** e
        if sg == "-":
            val = -val
        if nonzero and val == 0:
            continue
        return txt, val


def gen_lit(rng, big=False):
    t, v = gen_mant(rng, big)
    if rng.random() < 0.35:
        t2, v2 = gen_mant(rng, big, nonzero=True)
        return t + "/" + t2, v / v2
    return t, v


NUM_ALPHABET = "0123456789..eE++--//"
OTHER = " xX_\t:<=>\\*^abfi\x00\x7f\xff"


def one_edit(rng, s):
    k = rng.choice(["ins", "ins", "del", "sub", "dup", "swap"])
    if not s:
        k = "ins"
    i = rng.randrange(len(s) + 1) if k == "ins" else rng.randrange(len(s))
    ch = rng.choice(NUM_ALPHABET if rng.random() < 0.8 else OTHER)
    if k == "ins":
        return s[:i] + ch + s[i:]
    if k == "del":
        return s[:i] + s[i + 1:]
    if k == "sub":
        return s[:i] + ch + s[i + 1:]
    if k == "dup":
        return s[:i] + s[i] + s[i:]
    if i + 1 < len(s):
        return s[:i] + s[i + 1] + s[i] + s[i + 2:]
    return s


def exp_digits_ok(s, limit=4):
    """no run of digits directly after e/E (and an optional sign) longer than `limit` (resource bound of C11),
    counting dots that the scanner skips inside the exponent"""
    import re
    for m in re.finditer(r"[eE][+-]?([0-9.]*)", s):
        if sum(1 for c in m.group(1) if c.isdigit()) > limit:
            return False
    return True


def tail_for(rng):
    return rng.choice(["", "", " x", " ", "x1", "\n", " <= 3", ":", "\\", "\t", "*"])


# ----------------------------------------------------------------------------- problems by name (C08 / C09 / C14 / C19)

KEYWORD_NAMES = ["end", "st", "min", "max", "bounds", "bound", "free", "inf", "infinity", "integer", "int", "subject", "problem",
                 "minimize", "maximum", "End", "ST", "FREE", "Inf"]
CLASH_NAMES = ["x1", "x2", "x_1", "X1", "c1", "c2", "c3", "C2", "c2_0", "c1_0", "obj", "OBJ", "x", "c", "X_", "x_"]
MPS_SET_NAMES = ["RHS", "BOUND", "RANGE", "RANGES", "BOUNDS", "ROWS", "COLUMNS", "NAME", "ENDATA", "MARKER", "N", "L", "UP", "FR"]
LP_OK_FIRST = string.ascii_letters + "!\"#$%&()/,;?@_`'{}|~"
LP_OK_REST = LP_OK_FIRST + string.digits + "."
LP_BAD = "*^[]:<>=+-\\"


def rand_name(rng, kind, fmt):
    if kind == "plain":
        return rng.choice("xyzabvw") + str(rng.randint(0, 99)) + rng.choice(["", "_", "a", ".1"])
    if kind == "keyword":
        return rng.choice(KEYWORD_NAMES)
    if kind == "clash":
        return rng.choice(CLASH_NAMES)
    if kind == "setname":
        return rng.choice(MPS_SET_NAMES)
    if kind == "symbols":
        return rng.choice(LP_OK_FIRST) + "".join(rng.choice(LP_OK_REST) for _ in range(rng.randint(0, 6)))
    if kind == "e-like":
        return rng.choice(["e", "E", "e5", "E1x", "e+", "ee", "inf1", "infx", "free2", "Ex"])
    if kind == "digit-first":
        return rng.choice("0123456789.") + "".join(rng.choice(LP_OK_REST) for _ in range(rng.randint(0, 4)))
    if kind == "numeric":
        return rng.choice(["12", "1e5", "3.5", "0", "7/2", "-1", "+2", "1.e1"])
    if kind == "bad-char":
        s = "".join(rng.choice(LP_OK_REST) for _ in range(rng.randint(0, 4)))
        i = rng.randint(0, len(s))
        return "v" + s[:i] + rng.choice(LP_BAD) + s[i:]
    if kind == "blank":
        return "a" + rng.choice([" ", "\t"]) + "b" + str(rng.randint(0, 9))
    if kind == "long":
        return "L" + "".join(rng.choice(string.ascii_lowercase) for _ in range(rng.choice([40, 200, 300, 1000])))
    return "n%d" % rng.randint(0, 999)


def name_kinds(fmt, repair):
    base = ["plain"] * 6 + ["keyword", "clash", "clash", "symbols", "e-like", "setname", "long"]
    if repair:
        base += ["digit-first", "bad-char", "numeric"]
        if fmt == "LP":
            base += ["blank"]
    return base


def unique_names(rng, k, fmt, repair, taken):
    out = []
    kinds = name_kinds(fmt, repair)
    while len(out) < k:
        n = rand_name(rng, rng.choice(kinds), fmt)
        if fmt == "MPS" and (n.startswith("$") or n.startswith("*")):
            continue        # not expressible in MPS at all ('$' opens a comment in fields 3/5, '*' a comment line)
        if n not in taken and n != "-":
            taken.add(n)
            out.append(n)
    return out


def rand_num(rng, big=False, cap=None):
    k = rng.random()
    if big and k < 0.15:
        d = cap or rng.choice([60, 300, 1000])
        return F(rng.randint(-10 ** d, 10 ** d), rng.choice([1, rng.randint(1, 10 ** d)]))
    if k < 0.45:
        return F(rng.randint(-9, 9))
    if k < 0.75:
        return F(rng.randint(-99, 99), rng.randint(1, 12))
    if k < 0.9:
        return F(rng.randint(-10 ** 6, 10 ** 6), rng.choice([7919, 104729, 10 ** 9, 3]))
    return F(rng.choice([1, -1, 1, 1]))


def rand_bounds(rng, big=False):
    """(lo, up) over every shape: default, free, fixed, two-sided, one-sided, negative upper (finite or infinite lower), zero-width at 0"""
    k = rng.choice(["default", "default", "free", "fixed", "box", "lo", "up", "negup-inf", "negup-fin", "zero", "neglo", "up0", "fixedneg", "loinf-up0"])
    a, b = sorted([rand_num(rng, big, 60), rand_num(rng, big, 60)])   # bounds stay well inside the sentinel 1e150
    if k == "default":
        return F(0), INF
    if k == "free":
        return NINF, INF
    if k == "fixed":
        return a, a
    if k == "fixedneg":
        return -abs(a) - 1, -abs(a) - 1
    if k == "box":
        return a, b
    if k == "lo":
        return abs(a) + 1, INF
    if k == "neglo":
        return -abs(a) - 1, INF
    if k == "up":
        return F(0), abs(b) + 1
    if k == "up0":
        return F(0), F(0)
    if k == "negup-inf":
        return NINF, -abs(b) - 1
    if k == "loinf-up0":
        return NINF, rng.choice([F(0), abs(b)])
    if k == "negup-fin":
        return -abs(a) - abs(b) - 2, -abs(b) - 1
    return F(0), F(0)


def gen_problem(rng, fmt="LP", repair=True, big=True, ncols=None, nrows=None, ints=True, name=None):
    """problem by name covering the shapes listed in C08/C09; every column has a non-zero somewhere, >= 1 non-empty row"""
    n = ncols or rng.choice([1, 2, 3, 4, 5, 8, 8, 12] + ([60] if rng.random() < 0.15 else []))
    if n >= 60:
        big = False
    m = nrows or rng.choice([1, 2, 3, 4, 6])
    taken = set()
    cn = unique_names(rng, n, fmt, repair, taken)
    rn = unique_names(rng, m, fmt, repair, taken)
    cols = []
    for j in range(n):
        lo, up = rand_bounds(rng, big)
        obj = rand_num(rng, big) if rng.random() < 0.7 else F(0)
        cols.append([cn[j], obj, lo, up, ints and rng.random() < 0.2])
    rows = []
    for i in range(m):
        dens = rng.choice([0.0, 0.3, 0.6, 1.0]) if m > 1 and i > 0 else rng.choice([0.5, 1.0])
        ent = []
        for j in range(n):
            if rng.random() < dens:
                v = rand_num(rng, big)
                if v != 0:
                    ent.append((cn[j], v))
        s = rng.choice("LGEERR")
        rhs = rand_num(rng, big)
        rg = F(0)
        if s == "R":
            rg = abs(rand_num(rng, big)) + (0 if rng.random() < 0.05 else 1)
        if not ent and rng.random() < 0.8:
            # an empty row that 0 satisfies (the writers drop empty rows; an unsatisfiable one changes the problem, see empty_ok)
            rhs = {"L": abs(rhs), "G": -abs(rhs), "E": F(0), "R": -abs(rhs)}[s]
            if s == "R":
                rg = abs(rhs) + rg
        rows.append([rn[i], s, rhs, rg, ent])
    # precondition of C08: each column has a non-zero somewhere, one non-empty row
    for j in range(n):
        if cols[j][1] == 0 and not any(c == cn[j] for r in rows for c, _ in r[4]):
            r = rng.choice(rows)
            r[4].append((cn[j], rand_num(rng) or F(1)))
    if not any(r[4] for r in rows):
        rows[0][4].append((cn[0], F(1)))
    return dict(name=name or ("p" + str(rng.randint(0, 999))), max=rng.random() < 0.5,
                cols=[tuple(c) for c in cols], rows=[tuple(r) for r in rows])


def small_problem(rng, n=None, m=None, name="s"):
    """small LP with plain names (C14 / C19)"""
    return gen_problem(rng, "LP", repair=False, big=False, ncols=n or rng.randint(1, 5), nrows=m or rng.randint(1, 4), ints=False, name=name)


def magnitude_ok(P, lo=F(1, 10 ** 40), hi=F(10 ** 40)):
    """all non-zero numbers of P within [lo, hi] in absolute value (the float levels of the solver overflow otherwise)"""
    def ok(v):
        return isinstance(v, str) or v == 0 or lo <= abs(v) <= hi
    return all(ok(c[1]) and ok(c[2]) and ok(c[3]) for c in P["cols"]) and \
        all(ok(r[2]) and ok(r[3]) and all(ok(v) for _, v in r[4]) for r in P["rows"])


def empty_rows_ok(P):
    """every row without non-zero coefficient is satisfied by activity 0 (hypothesis empty_ok of IO/Equiv.v)"""
    for (n, s, rhs, rg, ent) in P["rows"]:
        acc = {}
        for c, v in ent:
            acc[c] = acc.get(c, F(0)) + v
        if all(v == 0 for v in acc.values()):
            if not {"L": 0 <= rhs, "G": rhs <= 0, "E": rhs == 0, "R": rhs <= 0 <= rhs + rg}[s]:
                return False
    return True
