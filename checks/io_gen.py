"""Generators of the I/O-domain checks: numeric literals of the reader's grammar (with their exact value
computed independently), one-edit mutations, problems by name covering the shapes of C08/C09, the
independent LP/MPS renderers of C10 and the file mutators of C11."""
from fractions import Fraction as F
import string

INF, NINF = "inf", "-inf"

# ----------------------------------------------------------------------------- numeric literals


def gen_digits(rng, kmin, kmax, lead_zero_ok=True):
    k = rng.randint(kmin, kmax)
    return "".join(rng.choice("0123456789") for _ in range(k))


def gen_mant(rng, big=False, nonzero=False):
    """(text, Fraction) of one mantissa: sign? int-digits (. frac-digits)? ((e|E) sign? digits)?"""
    while True:
        sg = rng.choice(["", "", "+", "-"])
        L = rng.choice([200, 1200]) if big and rng.random() < 0.3 else 6
        shape = rng.choice(["int", "int", "dec", "dec", "lead", "trail"])
        if shape == "int":
            ip, fp = gen_digits(rng, 1, L), None
        elif shape == "dec":
            ip, fp = gen_digits(rng, 1, L), gen_digits(rng, 1, L)
        elif shape == "lead":
            ip, fp = "", gen_digits(rng, 1, L)
        else:
            ip, fp = gen_digits(rng, 1, L), ""
        ex = None
        if rng.random() < 0.4:
            ex = (rng.choice("eE"), rng.choice(["", "+", "-"]), gen_digits(rng, 1, 2 if rng.random() < 0.8 else 3))
        txt = sg + ip + ("." + fp if fp is not None else "") + ("".join(ex) if ex else "")
        val = F(int(ip or "0")) + (F(int(fp), 10 ** len(fp)) if fp else F(0))
        if ex:
            e = int(ex[2]) * (-1 if ex[1] == "-" else 1)
            val *= F(10) ** e
        if sg == "-":
            val = -val
        if nonzero and val == 0:
            continue
        return txt, val


def gen_lit(rng, big=False):
    t, v = gen_mant(rng, big)
    if rng.random() < 0.35:
        t2, v2 = gen_mant(rng, big, nonzero=True)
        return t + "/" + t2, v / v2
    return t, v


NUM_ALPHABET = "0123456789..eE++--//"
OTHER = " xX_\t:<=>\\*^abfi\x00\x7f\xff"


def one_edit(rng, s):
    k = rng.choice(["ins", "ins", "del", "sub", "dup", "swap"])
    if not s:
        k = "ins"
    i = rng.randrange(len(s) + 1) if k == "ins" else rng.randrange(len(s))
    ch = rng.choice(NUM_ALPHABET if rng.random() < 0.8 else OTHER)
    if k == "ins":
        return s[:i] + ch + s[i:]
    if k == "del":
        return s[:i] + s[i + 1:]
    if k == "sub":
        return s[:i] + ch + s[i + 1:]
    if k == "dup":
        return s[:i] + s[i] + s[i:]
    if i + 1 < len(s):
        return s[:i] + s[i + 1] + s[i] + s[i + 2:]
    return s


def exp_digits_ok(s, limit=4):
    """no run of digits directly after e/E (and an optional sign) longer than `limit` (resource bound of C11),
    counting dots that the scanner skips inside the exponent"""
    import re
    for m in re.finditer(r"[eE][+-]?([0-9.]*)", s):
        if sum(1 for c in m.group(1) if c.isdigit()) > limit:
            return False
    return True


def tail_for(rng):
    return rng.choice(["", "", " x", " ", "x1", "\n", " <= 3", ":", "\\", "\t", "*"])
