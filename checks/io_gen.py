"""Generators of the I/O-domain checks: numeric literals of the reader's grammar (with their exact value
computed independently), one-edit mutations, problems by name covering the shapes of C08/C09, the
independent LP/MPS renderers of C10 and the file mutators of C11."""
from fractions import Fraction as F
import string

INF, NINF = "inf", "-inf"

# ----------------------------------------------------------------------------- numeric literals


def gen_digits(rng, kmin, kmax, lead_zero_ok=True):
    k = rng.randint(kmin, kmax)
    return "".join(rng.choice("0123456789") for _ in range(k))


def gen_mant(rng, big=False, nonzero=False):
    """(text, Fraction) of one mantissa: sign? int-digits (. frac-digits)? ((e|E) sign? digits)?"""
    while True:
        sg = rng.choice(["", "", "+", "-"])
        L = rng.choice([200, 1200]) if big and rng.random() < 0.3 else 6
        shape = rng.choice(["int", "int", "dec", "dec", "lead", "trail"])
        if shape == "int":
            ip, fp = gen_digits(rng, 1, L), None
        elif shape == "dec":
            ip, fp = gen_digits(rng, 1, L), gen_digits(rng, 1, L)
        elif shape == "lead":
            ip, fp = "", gen_digits(rng, 1, L)
        else:
            ip, fp = gen_digits(rng, 1, L), ""
        ex = None
        if rng.random() < 0.4:
            ex = (rng.choice("eE"), rng.choice(["", "+", "-"]), gen_digits(rng, 1, 2 if rng.random() < 0.8 else 3))
        txt = sg + ip + ("." + fp if fp is not None else "") + ("".join(ex) if ex else "")
        val = F(int(ip or "0")) + (F(int(fp), 10 ** len(fp)) if fp else F(0))
        if ex:
            e = int(ex[2]) * (-1 if ex[1] == "-" else 1)
            val *= F(10) ** e
        if sg == "-":
            val = -val
        if nonzero and val == 0:
            continue
        return txt, val


def gen_lit(rng, big=False):
    t, v = gen_mant(rng, big)
    if rng.random() < 0.35:
        t2, v2 = gen_mant(rng, big, nonzero=True)
        return t + "/" + t2, v / v2
    return t, v


NUM_ALPHABET = "0123456789..eE++--//"
OTHER = " xX_\t:<=>\\*^abfi\x00\x7f\xff"


def one_edit(rng, s):
    k = rng.choice(["ins", "ins", "del", "sub", "dup", "swap"])
    if not s:
        k = "ins"
    i = rng.randrange(len(s) + 1) if k == "ins" else rng.randrange(len(s))
    ch = rng.choice(NUM_ALPHABET if rng.random() < 0.8 else OTHER)
    if k == "ins":
        return s[:i] + ch + s[i:]
    if k == "del":
        return s[:i] + s[i + 1:]
    if k == "sub":
        return s[:i] + ch + s[i + 1:]
    if k == "dup":
        return s[:i] + s[i] + s[i:]
    if i + 1 < len(s):
        return s[:i] + s[i + 1] + s[i] + s[i + 2:]
    return s


def exp_digits_ok(s, limit=4):
    """no run of digits directly after e/E (and an optional sign) longer than `limit` (resource bound of C11),
    counting dots that the scanner skips inside the exponent"""
    import re
    for m in re.finditer(r"[eE][+-]?([0-9.]*)", s):
        if sum(1 for c in m.group(1) if c.isdigit()) > limit:
            return False
    return True


def tail_for(rng):
    return rng.choice(["", "", " x", " ", "x1", "\n", " <= 3", ":", "\\", "\t", "*"])


# ----------------------------------------------------------------------------- problems by name (C08 / C09 / C14 / C19)

KEYWORD_NAMES = ["end", "st", "min", "max", "bounds", "bound", "free", "inf", "infinity", "integer", "int", "subject", "problem",
                 "minimize", "maximum", "End", "ST", "FREE", "Inf"]
CLASH_NAMES = ["x1", "x2", "x_1", "X1", "c1", "c2", "c3", "C2", "c2_0", "c1_0", "obj", "OBJ", "x", "c", "X_", "x_"]
MPS_SET_NAMES = ["RHS", "BOUND", "RANGE", "RANGES", "BOUNDS", "ROWS", "COLUMNS", "NAME", "ENDATA", "MARKER", "N", "L", "UP", "FR"]
LP_OK_FIRST = string.ascii_letters + "!\"#$%&()/,;?@_`'{}|~"
LP_OK_REST = LP_OK_FIRST + string.digits + "."
LP_BAD = "*^[]:<>=+-\\"


def rand_name(rng, kind, fmt):
    if kind == "plain":
        return rng.choice("xyzabvw") + str(rng.randint(0, 99)) + rng.choice(["", "_", "a", ".1"])
    if kind == "keyword":
        return rng.choice(KEYWORD_NAMES)
    if kind == "clash":
        return rng.choice(CLASH_NAMES)
    if kind == "setname":
        return rng.choice(MPS_SET_NAMES)
    if kind == "symbols":
        return rng.choice(LP_OK_FIRST) + "".join(rng.choice(LP_OK_REST) for _ in range(rng.randint(0, 6)))
    if kind == "e-like":
        return rng.choice(["e", "E", "e5", "E1x", "e+", "ee", "inf1", "infx", "free2", "Ex"])
    if kind == "digit-first":
        return rng.choice("0123456789.") + "".join(rng.choice(LP_OK_REST) for _ in range(rng.randint(0, 4)))
    if kind == "numeric":
        return rng.choice(["12", "1e5", "3.5", "0", "7/2", "-1", "+2", "1.e1"])
    if kind == "bad-char":
        s = "".join(rng.choice(LP_OK_REST) for _ in range(rng.randint(0, 4)))
        i = rng.randint(0, len(s))
        return "v" + s[:i] + rng.choice(LP_BAD) + s[i:]
    if kind == "blank":
        return "a" + rng.choice([" ", "\t"]) + "b" + str(rng.randint(0, 9))
    if kind == "long":
        return "L" + "".join(rng.choice(string.ascii_lowercase) for _ in range(rng.choice([40, 200, 300, 1000])))
    return "n%d" % rng.randint(0, 999)


def name_kinds(fmt, repair):
    base = ["plain"] * 6 + ["keyword", "clash", "clash", "symbols", "e-like", "setname", "long"]
    if repair:
        base += ["digit-first", "bad-char", "numeric"]
        if fmt == "LP":
            base += ["blank"]
    return base


def unique_names(rng, k, fmt, repair, taken, plain=False):
    out = []
    kinds = ["plain"] if plain else name_kinds(fmt, repair)
    while len(out) < k:
        n = rand_name(rng, rng.choice(kinds), fmt)
        if fmt == "MPS" and (n.startswith("$") or n.startswith("*")):
            continue        # not expressible in MPS at all ('$' opens a comment in fields 3/5, '*' a comment line)
        if n not in taken and n != "-":
            taken.add(n)
            out.append(n)
    return out


def rand_num(rng, big=False, cap=None):
    k = rng.random()
    if big and k < 0.15:
        d = cap or rng.choice([60, 300, 1000])
        return F(rng.randint(-10 ** d, 10 ** d), rng.choice([1, rng.randint(1, 10 ** d)]))
    if k < 0.45:
        return F(rng.randint(-9, 9))
    if k < 0.75:
        return F(rng.randint(-99, 99), rng.randint(1, 12))
    if k < 0.9:
        return F(rng.randint(-10 ** 6, 10 ** 6), rng.choice([7919, 104729, 10 ** 9, 3]))
    return F(rng.choice([1, -1, 1, 1]))


def rand_bounds(rng, big=False):
    """(lo, up) over every shape: default, free, fixed, two-sided, one-sided, negative upper (finite or infinite lower), zero-width at 0"""
    k = rng.choice(["default", "default", "free", "fixed", "box", "lo", "up", "negup-inf", "negup-fin", "zero", "neglo", "up0", "fixedneg", "loinf-up0"])
    a, b = sorted([rand_num(rng, big, 60), rand_num(rng, big, 60)])   # bounds stay well inside the sentinel 1e150
    if k == "default":
        return F(0), INF
    if k == "free":
        return NINF, INF
    if k == "fixed":
        return a, a
    if k == "fixedneg":
        return -abs(a) - 1, -abs(a) - 1
    if k == "box":
        return a, b
    if k == "lo":
        return abs(a) + 1, INF
    if k == "neglo":
        return -abs(a) - 1, INF
    if k == "up":
        return F(0), abs(b) + 1
    if k == "up0":
        return F(0), F(0)
    if k == "negup-inf":
        return NINF, -abs(b) - 1
    if k == "loinf-up0":
        return NINF, rng.choice([F(0), abs(b)])
    if k == "negup-fin":
        return -abs(a) - abs(b) - 2, -abs(b) - 1
    return F(0), F(0)


def gen_problem(rng, fmt="LP", repair=True, big=True, ncols=None, nrows=None, ints=True, name=None, plain=False):
    """problem by name covering the shapes listed in C08/C09; every column has a non-zero somewhere, >= 1 non-empty row"""
    n = ncols or rng.choice([1, 2, 3, 4, 5, 8, 8, 12] + ([60] if rng.random() < 0.15 else []))
    if n >= 60:
        big = False
    m = nrows or rng.choice([1, 2, 3, 4, 6])
    taken = set()
    cn = unique_names(rng, n, fmt, repair, taken, plain)
    rn = unique_names(rng, m, fmt, repair, taken, plain)
    cols = []
    for j in range(n):
        lo, up = rand_bounds(rng, big)
        obj = rand_num(rng, big) if rng.random() < 0.7 else F(0)
        cols.append([cn[j], obj, lo, up, ints and rng.random() < 0.2])
    rows = []
    for i in range(m):
        dens = rng.choice([0.0, 0.3, 0.6, 1.0]) if m > 1 and i > 0 else rng.choice([0.5, 1.0])
        ent = []
        for j in range(n):
            if rng.random() < dens:
                v = rand_num(rng, big)
                if v != 0:
                    ent.append((cn[j], v))
        s = rng.choice("LGEERR")
        rhs = rand_num(rng, big)
        rg = F(0)
        if s == "R":
            rg = abs(rand_num(rng, big)) + (0 if rng.random() < 0.05 else 1)
        if not ent and rng.random() < 0.8:
            # an empty row that 0 satisfies (the writers drop empty rows; an unsatisfiable one changes the problem, see empty_ok)
            rhs = {"L": abs(rhs), "G": -abs(rhs), "E": F(0), "R": -abs(rhs)}[s]
            if s == "R":
                rg = abs(rhs) + rg
        rows.append([rn[i], s, rhs, rg, ent])
    # precondition of C08: each column has a non-zero somewhere, one non-empty row
    for j in range(n):
        if cols[j][1] == 0 and not any(c == cn[j] for r in rows for c, _ in r[4]):
            r = rng.choice(rows)
            r[4].append((cn[j], rand_num(rng) or F(1)))
    if not any(r[4] for r in rows):
        rows[0][4].append((cn[0], F(1)))
    return dict(name=name or ("p" + str(rng.randint(0, 999))), max=rng.random() < 0.5,
                cols=[tuple(c) for c in cols], rows=[tuple(r) for r in rows])


def gen_problem_wrap(rng, fmt="LP"):
    """long objective and rows: every column has a non-zero objective coefficient of random sign and appears in the
    first row, names of 8..40 characters and rationals of some length: the LP writer wraps the objective (>= 4 terms and
    >= 256 characters) and the rows (>= 256 characters) several times, with both signs on either side of the wrap points"""
    n = rng.choice([24, 40, 60])
    m = rng.choice([1, 2, 3])
    taken = set()
    cn = []
    while len(cn) < n:
        nm = rng.choice("xyzuvw") + "".join(rng.choice(string.ascii_lowercase + string.digits + "_") for _ in range(rng.choice([3, 7, 15, 39])))
        if nm not in taken and not nm.lower().startswith("inf") and not nm.lower().startswith("free"):
            taken.add(nm)
            cn.append(nm)
    rn = unique_names(rng, m, fmt, False, taken, plain=True)

    def num():
        k = rng.random()
        v = F(rng.randint(1, 9)) if k < 0.3 else F(rng.randint(1, 10 ** 6), rng.randint(1, 10 ** 4)) if k < 0.8 else F(1)
        return v if rng.random() < 0.5 else -v
    cols = []
    for j in range(n):
        lo, up = rand_bounds(rng, False)
        obj = num() if rng.random() < 0.9 else F(0)
        cols.append((cn[j], obj, lo, up, rng.random() < 0.1))
    rows = []
    for i in range(m):
        ent = [(cn[j], num()) for j in range(n) if i == 0 or rng.random() < 0.5]
        s = rng.choice("LGER")
        rows.append((rn[i], s, num(), (abs(num()) if s == "R" else F(0)), ent))
    return dict(name="w" + str(rng.randint(0, 999)), max=rng.random() < 0.5, cols=cols, rows=rows)


def gen_problem_kwbounds(rng, fmt="LP"):
    """columns whose names spell keywords of the LP format (a keyword is one only in column 1) with free, upper-only,
    lower-only, fixed and boxed bounds; some of them integer"""
    kws = ["end", "min", "max", "int", "st", "bound", "bounds", "integer", "subject", "minimize", "maximize", "End", "END", "Max", "ST", "Int",
           "problem", "prob", "minimum", "maximum",
           # names that only START like the words the bounds reader knows (inf, infinity, free)
           "free2", "freedom", "Free_x", "infx", "inf1", "INFINITYx", "Inf_", "infinit"]
    n = rng.choice([2, 3, 5, 8])
    rng.shuffle(kws)
    cn = kws[:n]
    if rng.random() < 0.5:
        cn[rng.randrange(n)] = "x%d" % rng.randint(0, 9)
    taken = set(cn)
    m = rng.choice([1, 2, 3])
    rn = unique_names(rng, m, fmt, False, taken)
    cols = []
    for j in range(n):
        k = rng.choice(["free", "free", "up", "up", "negup", "lo", "lo", "lo", "fixed", "box", "default"])
        a, b = sorted([F(rng.randint(-9, 9)), F(rng.randint(-9, 9), rng.randint(1, 3))])
        lo, up = {"free": (NINF, INF), "up": (F(0), abs(b) + 1), "negup": (NINF, -abs(b) - 1), "lo": (abs(a) + 1, INF), "fixed": (a, a),
                  "box": (a, b), "default": (F(0), INF)}[k]
        cols.append((cn[j], F(rng.randint(-5, 5)), lo, up, rng.random() < 0.25))
    # a name that starts like free / inf directly after a lower-bound-only column: the reader looks for the word "free" there
    for j in range(1, n):
        if cn[j].lower().startswith(("free", "inf")) and rng.random() < 0.8:
            c = cols[j - 1]
            cols[j - 1] = (c[0], c[1], F(rng.randint(1, 9)), INF, False)
    rows = []
    for i in range(m):
        ent = [(cn[j], F(rng.choice([-3, -2, -1, 1, 2, 3]))) for j in range(n) if i == 0 or rng.random() < 0.6]
        s = rng.choice("LGER")
        rows.append((rn[i], s, F(rng.randint(-9, 9)), (F(rng.randint(1, 5)) if s == "R" else F(0)), ent))
    return dict(name="k" + str(rng.randint(0, 999)), max=rng.random() < 0.5, cols=cols, rows=rows)


def small_problem(rng, n=None, m=None, name="s"):
    """small LP with plain names (C14 / C19)"""
    return gen_problem(rng, "LP", repair=False, big=False, ncols=n or rng.randint(1, 5), nrows=m or rng.randint(1, 4), ints=False, name=name, plain=True)


def magnitude_ok(P, lo=F(1, 10 ** 40), hi=F(10 ** 40)):
    """all non-zero numbers of P within [lo, hi] in absolute value (the float levels of the solver overflow otherwise)"""
    def ok(v):
        return isinstance(v, str) or v == 0 or lo <= abs(v) <= hi
    return all(ok(c[1]) and ok(c[2]) and ok(c[3]) for c in P["cols"]) and \
        all(ok(r[2]) and ok(r[3]) and all(ok(v) for _, v in r[4]) for r in P["rows"])


def empty_rows_ok(P):
    """every row without non-zero coefficient is satisfied by activity 0 (hypothesis empty_ok of IO/Equiv.v)"""
    for (n, s, rhs, rg, ent) in P["rows"]:
        acc = {}
        for c, v in ent:
            acc[c] = acc.get(c, F(0)) + v
        if all(v == 0 for v in acc.values()):
            if not {"L": 0 <= rhs, "G": rhs <= 0, "E": rhs == 0, "R": rhs <= 0 <= rhs + rg}[s]:
                return False
    return True


# ----------------------------------------------------------------------------- C10: independent renderers (known problem -> text)

def _terminating(q):
    d = q.denominator
    for p in (2, 5):
        while d % p == 0:
            d //= p
    return d == 1


def _dec_text(n, shift, rng):
    """decimal text of n / 10**shift (n >= 0, shift >= 0), with the lexical freedoms of the scanner"""
    s = str(n)
    if shift == 0:
        return s + rng.choice(["", "", ".", ".0", ".00"])
    s = s.rjust(shift + 1, "0")
    ip, fp = s[:-shift], s[-shift:]
    if rng.random() < 0.3:
        fp += "0" * rng.randint(1, 2)
    if ip == "0" and rng.random() < 0.4:
        ip = ""                       # ".5"
    elif rng.random() < 0.15:
        ip = "0" + ip                 # leading zero
    return ip + "." + fp


def spell_nonneg(rng, q):
    """text of a literal (no sign) whose value is exactly q >= 0: integer / decimal / exponent / fraction"""
    q = F(q)
    assert q >= 0

    def scaled(n, k):
        """n / 10**k with an optional exponent part"""
        if rng.random() < 0.45:
            t = 0
        else:
            t = rng.randint(-3, 4)
        kk = k + t
        if kk >= 0:
            m = _dec_text(n, kk, rng)
        else:
            m = _dec_text(n * 10 ** (-kk), 0, rng)
        if t == 0 and rng.random() < 0.8:
            return m
        return m + rng.choice("eE") + rng.choice(["", "+"] if t >= 0 else ["-"]) + str(abs(t)).rjust(rng.choice([1, 1, 2]), "0")

    style = rng.choice(["plain", "dec", "frac", "frac2"])
    if _terminating(q) and style in ("plain", "dec"):
        k = 0
        while (q * 10 ** k).denominator != 1:
            k += 1
        if style == "dec" and rng.random() < 0.5:
            k += rng.randint(0, 2)
        return scaled(int(q * 10 ** k), k)
    m = rng.choice([1, 1, 2, 3, 10]) if style == "frac2" else 1
    a, b = q.numerator * m, q.denominator * m
    if b == 1 and style != "frac2":
        return scaled(a, 0)
    return scaled(a, 0) + "/" + scaled(b, 0)


KNOWN_NAME_FIRST = string.ascii_letters + "_!\"#$%&(),;?@`'{}|~"


def known_name(rng, taken, kind="col"):
    while True:
        k = rng.random()
        if k < 0.6:
            n = rng.choice("xyzabuvw") + str(rng.randint(0, 30))
        elif k < 0.8:
            n = rng.choice(KNOWN_NAME_FIRST) + "".join(rng.choice(KNOWN_NAME_FIRST + string.digits + "./") for _ in range(rng.randint(0, 5)))
        elif k < 0.9:
            n = rng.choice(["e", "E", "e5", "E1x", "ee", "Ex", "x.e1", "a/b", "end1", "st_", "max2", "Minimize_", "boundsx", "integer_", "intx", "subject1"])
        else:
            n = rng.choice(["end", "st", "min", "max", "bounds", "integer", "int", "subject", "problem", "END", "ST"])    # keywords are names away from column 1
        low = n.lower()
        if low.startswith("inf") or low.startswith("free") or n in taken or n[0] in "$*":
            continue        # inf*/free*: known LP ambiguities (C08 findings); $ and * open comments in MPS
        taken.add(n)
        return n


def gen_known(rng, fmt="LP", big=True):
    """known problem for the renderers: every column used, rows non-empty, names valid in both formats"""
    n = rng.choice([1, 2, 3, 4, 6])
    m = rng.choice([1, 2, 3, 4])
    taken = set()
    cn = [known_name(rng, taken) for _ in range(n)]
    rn = [known_name(rng, taken) for _ in range(m)]
    cols = []
    for j in range(n):
        lo, up = rand_bounds(rng, False)
        it = rng.random() < 0.25
        if it and rng.random() < 0.5:
            lo, up = F(0), F(1)
        cols.append((cn[j], rand_num(rng, big, 60) if rng.random() < 0.7 else F(0), lo, up, it))
    rows = []
    for i in range(m):
        ent = [(cn[j], rand_num(rng, big, 60)) for j in range(n) if rng.random() < 0.6]
        ent = [(c, v) for c, v in ent if v != 0] or [(rng.choice(cn), F(rng.randint(1, 5)))]
        rows.append((rn[i], rng.choice("LGE"), rand_num(rng, big, 60), F(0), ent))
    for j in range(n):
        if cols[j][1] == 0 and not any(c == cn[j] for r in rows for c, _ in r[4]):
            i = rng.randrange(m)
            rows[i] = rows[i][:4] + (rows[i][4] + [(cn[j], F(rng.randint(1, 9)))],)
    return dict(name="k%d" % rng.randint(0, 999), max=rng.random() < 0.5, cols=cols, rows=rows)


def _case(rng, w):
    k = rng.random()
    return w.upper() if k < 0.3 else w.lower() if k < 0.6 else w.capitalize() if k < 0.8 else "".join(rng.choice([c.upper(), c.lower()]) for c in w)


class LpLayout:
    """token stream -> text with random blanks, line breaks and comments; continuation lines are indented"""
    def __init__(self, rng, colon_in_comment=False):
        self.rng = rng
        self.lines = []
        self.cur = ""
        self.colon = colon_in_comment
        self.used_colon_comment = False

    def comment(self):
        r = self.rng
        if r.random() < 0.25:
            words = ["note", "x1 <= 3", "end", "2 y", "\\\\", "free", ">= 7"]
            if self.colon and r.random() < 0.5:
                words += ["c9: x", "a:b"]
            t = r.choice(words)
            if ":" in t:
                self.used_colon_comment = True
            return r.choice(["", " ", " ", " ", "\t", "  "]) + "\\" + r.choice(["", " "]) + t
        return ""

    def newline(self, indent=True):
        self.lines.append(self.cur + self.comment())
        if self.rng.random() < 0.1:
            self.lines.append(self.rng.choice(["", "   ", "\\ a whole comment line", "\t"]))
        self.cur = self.rng.choice([" ", "  ", "\t", "    "]) if indent else ""

    def tok(self, t, glue_ok=False, may_break=True):
        r = self.rng
        if may_break and self.cur.strip() and r.random() < 0.12:
            self.newline()
        sep = "" if (glue_ok and r.random() < 0.5) else r.choice([" ", " ", "  ", "\t"])
        if not self.cur.strip() and self.cur == "":
            sep = ""
        self.cur += sep + t

    def keyword_line(self, t):
        """keywords start in column 1"""
        if self.cur != "":
            self.lines.append(self.cur + self.comment())
        self.cur = t

    def text(self):
        if self.cur != "":
            self.lines.append(self.cur)
            self.cur = ""
        return "\n".join(self.lines) + "\n"


def render_lp(rng, K, colon_in_comment=False, final_newline=True):
    """LP text denoting exactly K; returns (text, flags)"""
    L = LpLayout(rng, colon_in_comment)
    if rng.random() < 0.6:
        L.keyword_line(_case(rng, rng.choice(["PROBLEM", "PROB"])))
        L.tok(K["name"], may_break=True)
    L.keyword_line(_case(rng, rng.choice(["MAX", "MAXIMUM", "MAXIMIZE"] if K["max"] else ["MIN", "MINIMUM", "MINIMIZE"])))
    L.newline()

    def expr(ent):
        """terms with all spelling freedoms; ent = [(name, coef)] possibly with repeats"""
        terms = []
        for c, v in ent:
            if rng.random() < 0.2 and v != 0:
                a = F(rng.randint(-3, 3), rng.randint(1, 4))
                terms += [(c, a), (c, v - a)]          # repeated terms add up
            else:
                terms.append((c, v))
        if len(terms) > 1 and rng.random() < 0.5:
            rng.shuffle(terms)
        first = True
        for c, v in terms:
            neg = v < 0
            mag = -v if neg else v
            if neg:
                L.tok("-")
            elif not first or rng.random() < 0.3:
                L.tok("+")
            if mag != 1 or rng.random() < 0.3:
                L.tok(spell_nonneg(rng, mag), glue_ok=True)
            L.tok(c)                     # always a blank before a name (the writer does the same)
            first = False

    objent = [(c[0], c[1]) for c in K["cols"] if c[1] != 0]
    if rng.random() < 0.15:
        zc = [c[0] for c in K["cols"] if c[1] == 0]
        if zc:
            objent.append((rng.choice(zc), F(0)))      # explicit zero coefficient
    named_obj = rng.random() < 0.6 or not objent
    if named_obj:
        L.tok(rng.choice(["obj", "cost", "z_", "OBJ1"]), may_break=False)
        L.tok(":", glue_ok=True, may_break=False)
    expr(objent)
    L.keyword_line(_case(rng, "ST") if rng.random() < 0.4 else _case(rng, "SUBJECT") + rng.choice([" ", "  ", "\t"]) + _case(rng, "TO"))
    unnamed = []
    for i, (rn, s, rhs, rg, ent) in enumerate(K["rows"]):
        L.newline()
        if rng.random() < 0.75:
            L.tok(rn, may_break=False)
            L.tok(":", glue_ok=True, may_break=False)
        else:
            unnamed.append(i)
        expr(ent)
        L.tok(rng.choice({"L": ["<=", "=<", "<"], "G": [">=", "=>", ">"], "E": ["="]}[s]))
        sg = "-" if rhs < 0 else rng.choice(["", "", "+"])
        L.tok(sg + spell_nonneg(rng, abs(rhs)), glue_ok=True)

    def bval(v):
        if v == INF:
            return rng.choice(["", "+"]) + _case(rng, rng.choice(["inf", "infinity"]))
        if v == NINF:
            return "-" + _case(rng, rng.choice(["inf", "infinity"]))
        return ("-" if v < 0 else rng.choice(["", "", "+"])) + spell_nonneg(rng, abs(v))

    stmts = []
    for (cn, o, lo, up, it) in K["cols"]:
        forms = []
        if lo == up:
            forms = [[(None, cn, "=", lo)], [(lo, cn, "<=", up)]]
        elif lo == NINF and up == INF:
            forms = [[(None, cn, "free", None)], [(lo, cn, "<=", up)], [(lo, cn, None, None)]]
        else:
            dl = (lo == 0 and not (up != INF and up < 0)) or (lo == NINF and up != INF and up < 0)
            du = (up == 1) if (it and lo == 0) else (up == INF)
            if dl and du:
                forms = [[]]
                if not it:
                    forms += [[(F(0), cn, None, None)], [(None, cn, "<=", INF)], [(F(0), cn, "<=", INF)]]
            elif dl:
                forms = [[(None, cn, "<=", up)], [(lo, cn, "<=", up)]]
                if it and lo == 0:
                    forms = [[(None, cn, "<=", up)]] if up != INF else [[(F(0), cn, None, None)], [(None, cn, "<=", INF)]]
            elif du:
                forms = [[(lo, cn, None, None)]]
                if not it:
                    forms.append([(lo, cn, "<=", up)])
            else:
                forms = [[(lo, cn, "<=", up)], [(lo, cn, None, None), (None, cn, "<=", up)], [(None, cn, "<=", up), (lo, cn, None, None)]]
        stmts.append(rng.choice(forms))
    if rng.random() < 0.5:
        rng.shuffle(stmts)
    if any(stmts) or rng.random() < 0.2:
        L.keyword_line(_case(rng, rng.choice(["BOUNDS", "BOUND"])))
        L.newline()
        for st in stmts:
            for (lo, cn, op, up) in st:
                if rng.random() < 0.7:
                    L.newline()
                if lo is not None:
                    L.tok(bval(lo), may_break=False)
                    L.tok("<=", glue_ok=(lo not in (INF, NINF)))      # the reader wants a blank after inf / infinity
                L.tok(cn)
                if op == "free":
                    L.tok(_case(rng, "free"))
                elif op is not None:
                    L.tok(op, glue_ok=True)
                    L.tok(bval(up), glue_ok=True, may_break=False)
    ints = [c[0] for c in K["cols"] if c[4]]
    int_kw = None
    if ints:
        int_kw = rng.choice(["INTEGER", "INTEGER", "INTEGER", "INTEGER", "INT"])
        L.keyword_line(_case(rng, int_kw))
        L.newline()
        for c in ints:
            L.tok(c)
    L.keyword_line(_case(rng, "END"))
    t = L.text()
    if not final_newline:
        t = t[:-1]
    return t, dict(unnamed=unnamed, colon_comment=L.used_colon_comment, named_obj=named_obj, int_kw=int_kw, final_newline=final_newline)


def gen_known_mps(rng, big=True):
    """known problem + MPS-only features: (K, spec) where spec drives the renderer"""
    K = gen_known(rng, "MPS", big)
    # ranges of both signs on L/G/E rows
    rng_spec = {}
    rows = []
    for (rn, s, rhs, rg, ent) in K["rows"]:
        if rng.random() < 0.4:
            r = rand_num(rng, False) or F(2)
            rng_spec[rn] = (s, rhs, r)
            if s == "G":
                rows.append((rn, "R", rhs, abs(r), ent))
            elif s == "L":
                rows.append((rn, "R", rhs - abs(r), abs(r), ent))
            elif r >= 0:
                rows.append((rn, "R", rhs, r, ent))
            else:
                rows.append((rn, "R", rhs + r, -r, ent))
        else:
            rows.append((rn, s, rhs, rg, ent))
    K2 = dict(K)
    K2["rows"] = rows
    via = {}
    for (cn, o, lo, up, it) in K["cols"]:
        if it:
            opts = ["marker", "marker"]
            if lo == 0 and up == 1:
                opts.append("BV")
            if up != INF and lo != up and not (lo == NINF and up == INF):
                opts.append("UI")
            if lo != NINF and lo != up:
                opts.append("LI")
            via[cn] = rng.choice(opts)
    return K2, dict(orig_rows=K["rows"], ranges=rng_spec, int_via=via)


def render_mps(rng, K, spec, dollar=False):
    """MPS text denoting exactly K (K's R rows come from spec['ranges'] applied to spec['orig_rows']); returns (text, flags)"""
    out = []
    flags = dict(dollar=False)
    tab = lambda: rng.choice(["  ", "    ", "\t", "   "])

    def junk():
        if rng.random() < 0.15:
            out.append(rng.choice(["* comment", "*", "", "* ROWS"]))

    out.append("NAME" + tab() + K["name"])
    objname = rng.choice(["obj", "COST", "z", "N1"])
    while objname in [r[0] for r in K["rows"]] + [c[0] for c in K["cols"]]:
        objname += "_"
    if K["max"] or rng.random() < 0.5:
        out.append("OBJSENSE")
        out.append(tab() + rng.choice(["MAX", "Max", "max", "MAXIMIZE", "Maximize", "maximize"] if K["max"] else ["MIN", "Min", "min", "MINIMIZE", "Minimize", "minimize"]))
    extraN = None
    if rng.random() < 0.3:
        out.append("OBJNAME")
        out.append(tab() + objname)
        if rng.random() < 0.5:
            extraN = "unusedN"
    junk()
    out.append("ROWS")
    rowdefs = [("N", objname)] + [(r[1], r[0]) for r in spec["orig_rows"]]
    if extraN:
        rowdefs.insert(rng.randint(0, len(rowdefs)), ("N", extraN))
    elif rng.random() < 0.5:
        pass
    else:
        rest = rowdefs[1:]
        rng.shuffle(rest)
        rowdefs = [rowdefs[0]] + rest
    flags["row_order"] = [n for s_, n in rowdefs if s_ != "N"]
    for s, n in rowdefs:
        out.append(" " + s + tab() + n)
        junk()
    out.append("COLUMNS")
    mark = 0
    inint = False
    for (cn, o, lo, up, it) in K["cols"]:
        viaMarker = it and spec.get("int_via", {}).get(cn, "marker") == "marker"
        if viaMarker != inint:
            out.append(" MARKER%d" % mark + tab() + "'MARKER'" + tab() + ("'INTORG'" if viaMarker else "'INTEND'"))
            mark += 1
            inint = viaMarker
        ents = []
        if o != 0:
            ents.append((objname, o))
        for (rn, s, rhs, rg, ent) in K["rows"]:
            acc = [v for c, v in ent if c == cn]
            for v in acc:
                if rng.random() < 0.15 and v != 0:
                    a = F(rng.randint(-2, 2))
                    ents += [(rn, a), (rn, v - a)]
                else:
                    ents.append((rn, v))
        if extraN and rng.random() < 0.5:
            ents.append((extraN, F(rng.randint(1, 5))))
        rng.shuffle(ents)
        i = 0
        while i < len(ents):
            two = i + 1 < len(ents) and rng.random() < 0.4
            line = tab() + cn + tab() + ents[i][0] + tab() + mps_num(rng, ents[i][1])
            if two:
                line += tab() + ents[i + 1][0] + tab() + mps_num(rng, ents[i + 1][1])
            if dollar and rng.random() < 0.2:
                line += tab() + "$ a comment"
                flags["dollar"] = True
            out.append(line)
            i += 2 if two else 1
        junk()
    if inint:
        out.append(" MARKER%d" % mark + tab() + "'MARKER'" + tab() + "'INTEND'")
    rhsname = rng.choice(["RHS", "rhs1", "B", None])

    def pairs_section(title, setname, items):
        out.append(title)
        i = 0
        while i < len(items):
            two = i + 1 < len(items) and rng.random() < 0.4
            line = " " + (setname + tab() if setname else tab()) + items[i][0] + tab() + mps_num(rng, items[i][1])
            if two:
                line += tab() + items[i + 1][0] + tab() + mps_num(rng, items[i + 1][1])
            out.append(line)
            i += 2 if two else 1

    rh = [(r[0], r[2]) for r in spec["orig_rows"] if r[2] != 0 or rng.random() < 0.2]
    if rng.random() < 0.3:
        rh.append((objname, F(-rng.randint(1, 9))))          # objective constant: ignored (warning)
    rng.shuffle(rh)
    sections = []
    if rh or rng.random() < 0.5:
        sections.append(("RHS", rhsname, rh))
    rg = [(rn, r) for rn, (s, rhs, r) in spec["ranges"].items()]
    if rg:
        sections.append(("RANGES", rng.choice(["RANGE", "rng", None]), rg))
    if rng.random() < 0.3:
        sections.reverse()
    for t, sn, items in sections:
        pairs_section(t, sn, items)
        junk()
    bl = []
    bname = rng.choice(["BOUND", "BND", "b1", None])
    for (cn, o, lo, up, it) in K["cols"]:
        via = spec.get("int_via", {}).get(cn, "marker") if it else None
        recs = []
        if via == "BV":
            recs = [("BV", None)]
        elif lo == up and via is None or (lo == up and via == "marker"):
            recs = [("FX", lo)]
        elif lo == NINF and up == INF:
            recs = [rng.choice([[("FR", None)], [("MI", None)], [("MI", None), ("PL", None)]])][0]
        else:
            dl = (lo == 0 and not (up != INF and up < 0)) or (lo == NINF and up != INF and up < 0)
            du = (up == 1) if (it and lo == 0 and via == "marker") else (up == INF)
            if via == "UI":
                du, dl = False, dl
            if via == "LI":
                dl = False
            if not dl or rng.random() < 0.15:
                if lo == NINF:
                    recs.append(("MI", None))
                elif via == "LI":
                    recs.append(("LI", lo))
                elif not (it and lo == 0 and du and via == "marker"):
                    recs.append(("LO", lo))
            if not du or (rng.random() < 0.15 and not (it and via == "marker" and lo == 0 and not recs)):
                if up == INF:
                    recs.append(("PL", None))
                elif via == "UI":
                    recs.append(("UI", up))
                else:
                    recs.append(("UP", up))
            if rng.random() < 0.5:
                recs.reverse()
        for (t, v) in recs:
            bl.append((t, cn, v))
    if bname is None and any(v is None for (t, cn, v) in bl):
        bname = "BND"          # FR / MI / PL / BV records carry no number: the blank-set-name heuristic cannot apply
    bl = [" " + t + " " + (bname + tab() if bname else tab()) + cn + ((tab() + mps_bound(rng, v)) if v is not None else "") for (t, cn, v) in bl]
    if bl:
        out.append("BOUNDS")
        out += bl
    out.append("ENDATA")
    return "\n".join(out) + "\n", flags


def mps_num(rng, v):
    return ("-" if v < 0 else rng.choice(["", "", "+"])) + spell_nonneg(rng, abs(v))


def mps_bound(rng, v):
    if v == INF:
        return rng.choice(["", "+"]) + rng.choice(["inf", "INF", "Infinity", "INFINITY"])
    if v == NINF:
        return "-" + rng.choice(["inf", "INF", "infinity"])
    return mps_num(rng, v)


# ----------------------------------------------------------------------------- C11: file mutators

PATHOLOGICAL = ["1/0", "/", "1/", "0/0", "1/0.0", "3/0e2", "-/1", "1e9999", "1e-9999", "9" * 400, "0." + "0" * 300 + "1", "++--1", "+-1", ".e.", "e", "1e", "1e+",
                "1..2", "1/2/3", "--", ".", "inf", "-inf", "infinity", "+INFINITY", "1e5e5", "0x10", "1,5", "NaN", "1/00", "1e00000005", "00000/00001"]


def _tokens(text):
    import re
    return re.findall(r"\s+|[^\s]+", text)


def mutate_tokens(rng, text):
    """token-level mutation of a text file (str)"""
    tk = _tokens(text)
    idx = [i for i, t in enumerate(tk) if not t.isspace()]
    if not idx:
        return text
    k = rng.choice(["swap", "drop", "dup", "literal", "literal", "keyword", "name", "sense", "move", "join"])
    i = rng.choice(idx)
    if k == "swap":
        j = rng.choice(idx)
        tk[i], tk[j] = tk[j], tk[i]
    elif k == "drop":
        tk[i] = ""
    elif k == "dup":
        tk[i] = tk[i] + " " + tk[i]
    elif k == "literal":
        tk[i] = rng.choice(PATHOLOGICAL)
    elif k == "keyword":
        tk[i] = rng.choice(["END", "ST", "BOUNDS", "INTEGER", "MAX", "free", "ROWS", "COLUMNS", "RHS", "RANGES", "ENDATA", "'MARKER'", "'INTORG'", "'SOSORG'",
                            "S1", "REFROW", "OBJSENSE", "NAME", "UP", "FR", "BV", "N", "Subject To", "PROBLEM"])
    elif k == "name":
        tk[i] = rng.choice(["x" * 300, "y" * 5000, "", ":", "::", "a:b:", "<=", ">=<", "=", "\\", "$", "*", "%s%d%n", "\"", "'", "x1", "obj"])
    elif k == "sense":
        tk[i] = rng.choice(["<", ">", "=", "=<", "=>", "<>", "==", "<=>"])
    elif k == "move":
        t = tk[i]
        tk[i] = ""
        tk.insert(rng.randrange(len(tk) + 1), " " + t + " ")
    elif k == "join":
        tk[i] = tk[i] + (tk[i + 2] if i + 2 < len(tk) else "x")
    return "".join(tk)


MPS_WORDS = ["ROWS", "COLUMNS", "RHS", "RANGES", "BOUNDS", "ENDATA", "NAME", "OBJSENSE", "OBJNAME", "REFROW", "'MARKER'", "'INTORG'", "'INTEND'",
             "'SOSORG'", "'SOSEND'", "S1", "S2", "UP", "LO", "FX", "FR", "MI", "PL", "BV", "UI", "LI", "N", "L", "G", "E", "MAX", "MIN", "max", "Minimize", "MAXIMUM"]
MPS_ODD = ["$x", "$", "*", "*x", "RHS", "BOUND", "RANGE", "1", "1x", "-", ".", "+", "inf", "Infinity", "+inf", "-INFx", "infinity$", "1e", "2/3", "-.5e1", "''MARKER'", "x'MARKER'",
           "'MARKER'x", "'marker'", "5$", "obj", "\x0b", "a\x0bb"]


def mutate_tokens_mps(rng, text):
    """token- and line-level mutation of an MPS text (str) aimed at the reader's state machine: section keywords, marker lines, SOS blocks,
    REFROW, set names, '$' comments, number-like names, indentation"""
    k = rng.choice(["swap", "drop", "dup", "literal", "keyword", "keyword", "name", "name", "odd", "odd", "dollar", "move", "join", "sos", "refrow",
                    "linedup", "linedrop", "lineswap", "unindent", "indent", "blankset", "objname", "two"])
    if k == "two":
        return mutate_tokens_mps(rng, mutate_tokens_mps(rng, text))
    lines = text.split("\n")
    if k in ("linedup", "linedrop", "lineswap", "unindent", "indent", "sos", "refrow", "blankset", "objname"):
        idx = [i for i, l in enumerate(lines) if l.strip()]
        if not idx:
            return text
        i = rng.choice(idx)
        if k == "linedup":
            lines.insert(rng.choice(idx), lines[i])
        elif k == "linedrop":
            del lines[i]
        elif k == "lineswap":
            j = rng.choice(idx)
            lines[i], lines[j] = lines[j], lines[i]
        elif k == "unindent":
            lines[i] = lines[i].lstrip()
        elif k == "indent":
            lines[i] = rng.choice([" ", "\t", "  "]) + lines[i]
        elif k == "blankset":
            w = lines[i].split()
            if lines[i][:1].isspace() and len(w) >= 3:
                j = rng.choice([0, 1])
                lines[i] = " " + " ".join(w[:j] + w[j + 1:])
        elif k == "objname":
            rows = [l.split()[1] for l in lines if l[:1] == " " and len(l.split()) == 2 and l.split()[0] in "NLGE"]
            at = next((j for j, l in enumerate(lines) if l.startswith("ROWS")), 0)
            lines[at:at] = ["OBJNAME", " " + (rng.choice(rows) if rows and rng.random() < 0.8 else "nosuchrow")]
        elif k == "refrow":
            rows = [l.split()[1] for l in lines if l[:1] == " " and len(l.split()) == 2 and l.split()[0] in "NLGE"]
            at = next((j for j, l in enumerate(lines) if l.startswith("ROWS")), 0)
            if rng.random() < 0.2:
                at = len(lines) - 2
            lines[at:at] = ["REFROW", " " + (rng.choice(rows) if rows and rng.random() < 0.8 else "nosuchrow")]
            k = "sos" if rng.random() < 0.7 else k
        if k == "sos":
            c0 = next((j for j, l in enumerate(lines) if l.startswith("COLUMNS")), None)
            c1 = next((j for j, l in enumerate(lines) if l.startswith(("RHS", "RANGES", "BOUNDS", "ENDATA")) and c0 is not None and j > c0), None)
            if c0 is not None and c1 is not None and c1 > c0 + 1:
                a = rng.randint(c0 + 1, c1 - 1)
                b = rng.randint(a, c1 - 1)
                ty = rng.choice(["S1", "S2", "S1", "", "S3"])
                lines[b + 1:b + 1] = [" SOS2 'MARKER' 'SOSEND'"] if rng.random() < 0.9 else []
                lines[a:a] = [(" %s SOS1 'MARKER' 'SOSORG'" % ty) if ty else " SOS1 'MARKER' 'SOSORG'"]
                if rng.random() < 0.3:      # a second set over the same region: "member of SOS set"
                    lines[b + 3:b + 3] = [" S1 SOS3 'MARKER' 'SOSORG'", lines[a + 1] if a + 1 < len(lines) else " x r 1", " SOS4 'MARKER' 'SOSEND'"]
        return "\n".join(lines)
    tk = _tokens(text)
    idx = [i for i, t in enumerate(tk) if not t.isspace()]
    if not idx:
        return text
    i = rng.choice(idx)
    if k == "swap":
        j = rng.choice(idx)
        tk[i], tk[j] = tk[j], tk[i]
    elif k == "drop":
        tk[i] = ""
    elif k == "dup":
        tk[i] = tk[i] + " " + tk[i]
    elif k == "literal":
        tk[i] = rng.choice(PATHOLOGICAL)
    elif k == "keyword":
        tk[i] = rng.choice(MPS_WORDS)
    elif k == "name":
        tk[i] = tk[rng.choice(idx)]
    elif k == "odd":
        tk[i] = rng.choice(MPS_ODD)
    elif k == "dollar":
        tk[i] = rng.choice(["$ ", "$", " $c "]) + tk[i]
    elif k == "move":
        t = tk[i]
        tk[i] = ""
        tk.insert(rng.randrange(len(tk) + 1), " " + t + " ")
    elif k == "join":
        tk[i] = tk[i] + (tk[i + 2] if i + 2 < len(tk) else "x")
    return "".join(tk)


# ----------------------------------------------------------------------------- hand-written MPS probes (C10 tie, C11 reasons)

_MPS_BASE = dict(head="NAME t\n", rows="ROWS\n N obj\n L r1\n G r2\n", cols="COLUMNS\n x obj 1 r1 1\n y obj 2 r2 1\n", rhs="RHS\n RHS r1 4 r2 1\n",
                 rng="", bnd="BOUNDS\n UP BND x 3\n", end="ENDATA\n")


def _mps(**kw):
    d = dict(_MPS_BASE)
    d.update(kw)
    return d["head"] + d["rows"] + d["cols"] + d["rhs"] + d["rng"] + d["bnd"] + d["end"]


def mps_reason_files():
    """one MPS file per rejection reason of the reader model IO/MpsRead.mreason: {reason: text}"""
    sos = lambda a, b: "COLUMNS\n S1 s1 'MARKER' 'SOSORG'\n" + a + " s1e 'MARKER' 'SOSEND'\n" + b
    return {
        "BadKey": _mps(rows="ROWS\n N obj\n L r1\n G r2\nFOO\n"),
        "TwoSections": _mps(cols="COLUMNS\n x obj 1 r1 1\n y obj 2 r2 1\nROWS\n L r3\n"),
        "SectionOrder": "NAME t\nCOLUMNS\n x obj 1\nROWS\n N obj\nENDATA\n",
        "MissingObjLine": "NAME t\nOBJSENSE\n",
        "BadObjRecord": _mps(head="NAME t\nOBJSENSE\n"),
        "BadObjsense": _mps(head="NAME t\nOBJSENSE\n MAXI\n"),
        "BadRefrow": _mps(head="NAME t\nREFROW\n"),
        "NoSection": _mps(head="NAME t\n x y\n"),
        "RowSense": _mps(rows="ROWS\n N obj\n X r1\n G r2\n"),
        "RowRepeated": _mps(rows="ROWS\n N obj\n L r1\n G r2\n E r1\n"),
        "RowMissingName": _mps(rows="ROWS\n N obj\n L r1\n G r2\n L\n"),
        "MarkerBad": _mps(cols="COLUMNS\n M1 foo 'MARKER' 'INTORG'\n x obj 1 r1 1\n y obj 2 r2 1\n"),
        "MarkerMissing": _mps(cols="COLUMNS\n M1 'MARKER'\n x obj 1 r1 1\n y obj 2 r2 1\n"),
        "MarkerField": _mps(cols="COLUMNS\n M1 'MARKER' 'FOO'\n x obj 1 r1 1\n y obj 2 r2 1\n"),
        "SosOther": _mps(cols=sos(" x obj 1 r1 1\n", " S2 s2 'MARKER' 'SOSORG'\n x r2 1\n y obj 2 r2 1\n s2e 'MARKER' 'SOSEND'\n")),
        "ColMissingFields": _mps(cols="COLUMNS\n x obj 1 r1 1\n y\n"),
        "ColNotRow": _mps(cols="COLUMNS\n x obj 1 r1 1\n y nosuch 2 r2 1\n"),
        "ColBadCoef": _mps(cols="COLUMNS\n x obj 1 r1 1\n y obj abc\n"),
        "RhsMissingRow": _mps(rhs="RHS\n RHS\n"),
        "RhsNotRow": _mps(rhs="RHS\n RHS nosuch 1\n"),
        "RhsBadCoef": _mps(rhs="RHS\n RHS r1 abc\n"),
        "RhsTwice": _mps(rhs="RHS\n RHS r1 4\n RHS r1 5\n"),
        "RngMissingRow": _mps(rng="RANGES\n RNG\n"),
        "RngNotRow": _mps(rng="RANGES\n RNG nosuch 1\n"),
        "RngBadCoef": _mps(rng="RANGES\n RNG r1 e5\n"),
        "BndType": _mps(bnd="BOUNDS\n XX BND x 3\n"),
        "BndNoIdent": _mps(bnd="BOUNDS\n UP\n"),
        "BndMissingCol": _mps(bnd="BOUNDS\n UP BND\n"),
        "BndNotCol": _mps(bnd="BOUNDS\n UP BND nosuch 3\n"),
        "BndBadValue": _mps(bnd="BOUNDS\n UP BND x infx\n"),
        "ObjNameUnknown": _mps(head="NAME t\nOBJNAME\n nosuch\n"),
        "NoNRow": _mps(rows="ROWS\n L r1\n G r2\n", cols="COLUMNS\n x r1 1\n y r2 1\n"),
        "RefrowUnknown": _mps(head="NAME t\nREFROW\n nosuch\n"),
        "NoCols": _mps(cols="COLUMNS\n", bnd=""),
        "SosInt": _mps(cols=sos(" x obj 1 r1 1\n y obj 2 r2 1\n", ""), bnd="BOUNDS\n BV BND x\n"),
        "SosWeight": _mps(head="NAME t\nREFROW\n r1\n", cols=sos(" x obj 1 r1 1\n y obj 2 r2 1 r1 1\n", "")),
        "BoundsCross": _mps(bnd="BOUNDS\n LO BND x 5\n UP BND x 3\n"),
        "NoUsedCols": "NAME t\nROWS\n N obj\n N free\n L r1\nCOLUMNS\n x free 1\nENDATA\n",
        "NoRows": "NAME t\nROWS\n N obj\nCOLUMNS\n x obj 1\nENDATA\n",
        "RangeOnN": _mps(head="NAME t\nOBJNAME\n r1\n", rng="RANGES\n RNG r1 2\n"),
    }


def mps_accept_probes():
    """valid MPS files aimed at the quirks of the reader (all accepted by the code as it is): [(name, text)]"""
    return [
        ("base", _mps()),
        ("dollar-row-in-field-2", "NAME t\nROWS\n N obj\n L $r1\n G r2\nCOLUMNS\n x $r1 1 obj 1\n y obj 2 r2 1\nRHS\n RHS $r1 4\n $r1 7\nENDATA\n"),
        ("dollar-comments", _mps(cols="COLUMNS\n x obj 1 $ c1\n x r1 1 $c2 r2 5\n y obj 2 r2 1$\n", bnd="BOUNDS\n UP BND x 3 $ c\n MI BND y $c\n")),
        ("star-comment-and-blank-lines", "* c\nNAME t\n\n*ROWS\n" + _mps()[7:]),
        ("e-negative-range", _mps(rows="ROWS\n N obj\n E r1\n E r2\n", rng="RANGES\n RNG r1 -3 r2 2\n")),
        ("l-g-ranges-both-signs", _mps(rng="RANGES\n RNG r1 -3 r2 -2\n")),
        ("range-on-n-row-ignored", _mps(rng="RANGES\n RNG obj 3 r1 1\n")),
        ("second-range-ignored", _mps(rng="RANGES\n RNG r1 1\n RNG r1 5\n")),
        ("second-rhs-set-skipped", _mps(rhs="RHS\n RHS r1 4\n OTHER r1 9 r2 7\n RHS r2 1\n")),
        ("blank-set-names", _mps(rhs="RHS\n    r1 4 r2 1\n", rng="RANGES\n  r2 3\n", bnd="BOUNDS\n UP x 3\n LO y -1\n")),
        ("objective-rhs-ignored", _mps(rhs="RHS\n RHS obj -5 r1 4\n")),
        ("bound-types", _mps(bnd="BOUNDS\n BV BND x\n LI BND y -2\n UI BND y 7\n")),
        ("bound-inf-spellings", _mps(bnd="BOUNDS\n LO BND x -inf\n UP BND x +INFINITY\n UP BND y Inf$c\n LO BND y -1e1\n")),
        ("fx-fr-mi-pl", _mps(bnd="BOUNDS\n FX BND x 2.5\n FR BND y\n MI BND y\n PL BND y\n")),
        ("previous-bound-kept", _mps(bnd="BOUNDS\n UP BND x 3\n UP BND x 9\n FX BND x 1\n")),
        ("negative-upper", _mps(bnd="BOUNDS\n UP BND x -3\n")),
        ("int-markers-and-second-mention", _mps(cols="COLUMNS\n M1 'MARKER' 'INTORG'\n x obj 1\n M2 'MARKER' 'INTEND'\n y obj 2 r2 1\n M3 'MARKER' 'INTORG'\n y r1 1\n x r1 1\n M4 'MARKER' 'INTEND'\n")),
        ("marker-repeats-mode", _mps(cols="COLUMNS\n M1 'MARKER' 'INTEND'\n x obj 1 r1 1\n M2 'MARKER' 'INTORG'\n M3 'MARKER' 'INTORG'\n y obj 2 r2 1\n")),
        ("sos-sets", _mps(cols="COLUMNS\n S1 s1 'MARKER' 'SOSORG'\n x obj 1 r1 1\n s1e 'MARKER' 'SOSEND'\n S2 s2 'MARKER' 'SOSORG'\n y obj 2 r2 1\n y r1 3\n s2e 'MARKER' 'SOSEND'\n")),
        ("refrow-with-sos", _mps(head="NAME t\nREFROW\n r1\n", cols="COLUMNS\n S1 s1 'MARKER' 'SOSORG'\n x obj 1 r1 1\n y obj 2 r2 1 r1 3\n s1e 'MARKER' 'SOSEND'\n")),
        ("objname-objsense", _mps(head="NAME t\nOBJSENSE\n Maximize\nOBJNAME\n r2\n")),
        ("repeated-and-zero-entries", _mps(cols="COLUMNS\n x obj 1 r1 1\n x r1 2 obj 0\n y obj 2 r2 1\n y r2 -1 r1 0\n")),
        ("column-in-unused-n-row-only", _mps(rows="ROWS\n N obj\n N free\n L r1\n G r2\n", cols="COLUMNS\n x obj 1 r1 1\n y obj 2 r2 1\n z free 4\n")),
        ("number-prefix-then-name", _mps(cols="COLUMNS\n x obj 1 r1 1r2 5\n y obj 2 r2 1\n")),
        ("tabs-cr-ff", "NAME\tt\r\nROWS\r\n\tN\tobj\r\n \fL r1\r\n G\tr2\nCOLUMNS\n\tx\tobj\t1\tr1\t1\r\n y obj 2 r2 1\nRHS\n RHS r1 4\nENDATA\n"),
        ("vertical-tab-in-line", "NAME t\nROWS\n N obj\n L r1\nCOLUMNS\n x obj 1 r1 1\n \x0b\n x\x0br1 2\nENDATA\n"),
        ("no-final-newline-no-endata", _mps(end="")[:-1]),
        ("text-after-endata", _mps() + "garbage here\n ROWS\n"),
        ("key-line-with-extra-fields", _mps(rows="ROWS extra stuff\n N obj\n L r1\n G r2\n")),
        ("quote-names", _mps(rows="ROWS\n N obj\n L r'1\n G r2\n", cols="COLUMNS\n x' obj 1 r'1 1\n y obj 2 r2 1\n", rhs="RHS\n RHS r'1 4\n", bnd="BOUNDS\n UP BND x' 3\n")),
        ("setname-is-a-row-but-no-number-follows", _mps(rows="ROWS\n N obj\n L RHS\n G r2\n", cols="COLUMNS\n x obj 1 RHS 1\n y obj 2 r2 1\n", rhs="RHS\n RHS RHS 4\n RHS r2 1\n")),
        ("setname-clash-blank-heuristic", _mps(rows="ROWS\n N obj\n L RHS\n G 1\n", cols="COLUMNS\n x obj 1 RHS 1\n y obj 2 1 1\n", rhs="RHS\n RHS RHS 4\n RHS 1 5\n")),
    ]


def mutate_bytes(rng, data):
    """byte-level mutation of file content (bytes)"""
    b = bytearray(data)
    k = rng.choice(["flip", "flip", "ins", "del", "ctrl", "nul", "high", "dupline", "delnl", "cr", "longline", "tab"])
    n = len(b)
    if n == 0:
        return bytes([rng.randrange(256)])
    i = rng.randrange(n)
    if k == "flip":
        for _ in range(rng.choice([1, 1, 3, 10])):
            j = rng.randrange(n)
            b[j] ^= 1 << rng.randrange(8)
    elif k == "ins":
        b[i:i] = bytes(rng.randrange(256) for _ in range(rng.choice([1, 2, 8])))
    elif k == "del":
        del b[i:i + rng.choice([1, 2, 10, 50])]
    elif k == "ctrl":
        b[i] = rng.choice([1, 7, 8, 11, 12, 27, 127])
    elif k == "nul":
        b[i] = 0
    elif k == "high":
        b[i] = rng.choice([128, 160, 200, 255])
    elif k == "dupline":
        lines = bytes(b).split(b"\n")
        j = rng.randrange(len(lines))
        lines.insert(j, lines[j])
        b = bytearray(b"\n".join(lines))
    elif k == "delnl":
        j = bytes(b).find(b"\n", i)
        if j >= 0:
            del b[j]
    elif k == "cr":
        b = bytearray(bytes(b).replace(b"\n", b"\r\n"))
    elif k == "longline":
        b[i:i] = rng.choice([b"x", b" ", b"9", b"x "]) * rng.choice([300, 5000, 70000])
    elif k == "tab":
        b = bytearray(bytes(b).replace(b" ", b"\t"))
    return bytes(b)[:65536]


SMALL_LP = "max\n obj: 3 x + 2 y\nst\n c1: x + y <= 4\n c2: x - 1/3 y >= -2\nbounds\n x <= 3\n -1 <= y <= 5.5\nint\n y\nend\n"
SMALL_LP2 = "Problem p\nMinimize\n 2 a - b\nSubject To\n a + b >= 1 \\ note\n r: a - b = 0\nBounds\n b free\nEnd\n"
SMALL_MPS = ("NAME t\nROWS\n N obj\n L c1\n G c2\n E c3\nCOLUMNS\n MARKER1 'MARKER' 'INTORG'\n x obj 3 c1 1\n x c2 1\n MARKER2 'MARKER' 'INTEND'\n"
             " y obj 2 c1 1\n y c2 -1/3 c3 1\nRHS\n RHS c1 4 c2 -2\n RHS c3 1\nRANGES\n RNG c1 2\nBOUNDS\n UP BND x 3\n MI BND y\n UP BND y 5.5\nENDATA\n")
SMALL_BAS = "NAME t\n XU x c1\n XL y c2\n UL z\nENDATA\n"


def feasible_problem(rng, name="f"):
    """small LP with plain names built around a point (so it is feasible); boxed columns make the optimum finite"""
    P = small_problem(rng, name=name)
    cols, xs = [], {}
    for (cn, o, lo, up, it) in P["cols"]:
        lo = F(rng.randint(-4, 2))
        up = lo + rng.randint(0, 6)
        if rng.random() < 0.25:
            lo, up = (NINF, up) if rng.random() < 0.5 else (lo, INF)        # some one-sided ones: may be unbounded
        a = lo if lo != NINF else up - 3
        b = up if up != INF else a + 3
        xs[cn] = a + (b - a) * F(rng.randint(0, 4), 4)
        cols.append((cn, o, lo, up, False))
    rows = []
    for (rn, s, rhs, rg, ent) in P["rows"]:
        act = sum((v * xs[c] for c, v in ent), F(0))
        t = F(rng.randint(0, 3))
        if s == "L":
            rows.append((rn, s, act + t, F(0), ent))
        elif s == "G":
            rows.append((rn, s, act - t, F(0), ent))
        elif s == "E":
            rows.append((rn, s, act, F(0), ent))
        else:
            rows.append((rn, s, act - t, t + rng.randint(0, 3), ent))
    return dict(P, cols=cols, rows=rows)
