#!/usr/bin/env python3
"""C11  No input file can crash, hang or corrupt the reader."""
import sys, os, gzip, bz2
sys.path.insert(0, os.path.dirname(os.path.abspath(__file__)))
from io_common import *
import io_gen as G

BAS_PROBLEM = dict(name="t", max=True, cols=[("x", F(3), F(0), F(3), False), ("y", F(2), F(-1), F(11, 2), False), ("z", F(0), NINF, INF, False)],
                   rows=[("c1", "L", F(4), F(0), [("x", F(1)), ("y", F(1))]), ("c2", "R", F(-2), F(5), [("x", F(1)), ("y", F(-1, 3)), ("z", F(1))])])


def classify(t):
    """known family of a CRASH result line ['TRYREAD','CRASH',how,first,frames]"""
    first = dec(t[3]) if len(t) > 3 else ""
    fr = dec(t[4]) if len(t) > 4 else ""
    if "mpq_EGlpNumReadStrXc" in fr and ("FPE" in first or t[2] == "sig8"):
        return "numreader-div-zero"
    if "signed integer overflow" in first and "eg_lpnum.c" in first:
        return "numreader-exp-overflow"
    if "ILLformat_error_create" in fr:
        return "format-error-underflow"
    if "QSexact_solver" in fr and ("EGlpNumSet" in fr or "FPE" in first):
        return "solver-sigfpe-huge"
    if "ILLread_lp_state_next_var" in fr or "ILLread_lp_state_has_colon" in fr or "ILLis_lp_name_char" in fr:
        return "nul-name-char"
    if "stack-buffer-overflow" in first and ("lp_err" in fr or "mps_err" in fr or "ILLmsg" in fr or "vsprintf" in fr or "ILLlp_error" in fr
                                             or "ILLmps_error" in fr or "ILLdata_" in fr or "ILLlp_warn" in fr or "ILLmps_warn" in fr):
        return "msg-buffer-overflow"
    if "ILLmps_next_field" in fr or "ILLmps_next_coef" in fr or "get_double" in fr or "mps_skip_comment" in fr or "ILLmps_check_end_of_line" in fr:
        return "mps-next-field"
    if "stack-buffer-overflow" in first and "WRITE of size" in first and fr == "":
        return "msg-buffer-overflow"      # the overflowing vsprintf destroyed its own frame: ASan cannot unwind ("nested bug")
    if "ILLfree_rawlpdata" in fr or "ILLraw_add_sos" in fr or "sos" in fr.lower() or ("mps_fill_in" in fr and "EGlpNumSet" in fr):
        return "sos-weight-alloc"
    if "buildMatrix" in fr:
        return "buildmatrix-colnames"
    if "ILLsymboltab_uname" in fr:
        return "uname-single-entry"
    return "unexplained"


def make_files(ck):
    rng = ck.rng
    files = []      # (label, fmt, bytes, ext)

    def add(label, fmt, data, ext=""):
        if isinstance(data, str):
            data = data.encode("latin-1", "replace")
        data = data[:65536]
        if not G.exp_digits_ok(data.decode("latin-1"), 4):
            return      # exponents beyond 4 digits: out of scope (resource question, see properties.jsonl)
        files.append((label, fmt, data, ext))

    # replays of earlier failures first
    cdir = os.path.join(VERIF, "corpus", "C11")
    if os.path.isdir(cdir):
        for fn in sorted(os.listdir(cdir)):
            parts = fn.split(".")
            cext = "." + parts[-1] if parts[-1] in ("gz", "bz2") and len(parts) > 2 else ""
            fmt = {"lp": "LP", "mps": "MPS", "bas": "BAS"}.get(parts[-2] if cext else parts[-1])
            if fmt:
                add("corpus", fmt, open(os.path.join(cdir, fn), "rb").read(), cext)
    n = 6000 if ck.thorough() else 330
    step = 1 if ck.thorough() else 2
    for base, fmt in ((G.SMALL_LP, "LP"), (G.SMALL_LP2, "LP"), (G.SMALL_MPS, "MPS"), (G.SMALL_BAS, "BAS")):
        for k in range(0, len(base) + 1, step):
            add("truncate", fmt, base[:k])
    for lit in G.PATHOLOGICAL:
        add("literal", "LP", "min\n obj: %s x + y\nst\n c1: x + %s y >= %s\nbounds\n %s <= x <= %s\nend\n" % (lit, lit, lit, lit, lit))
        add("literal", "MPS", "NAME t\nROWS\n N obj\n G c1\nCOLUMNS\n x obj %s c1 1\n y obj 1 c1 %s\nRHS\n RHS c1 %s\nRANGES\n RNG c1 %s\nBOUNDS\n UP BND x %s\n LO BND y %s\nENDATA\n"
            % (lit, lit, lit, lit, lit, lit))
    for L in (250, 300, 5000, 60000):
        nm = "n" * L
        add("long-name", "LP", "min\n obj: x + %s\nst\n c1: x + %s >= 1\n %s: x <= 4\nbounds\n %s <= 3\nend\n" % (nm, nm, nm + "r", nm))
        add("long-name", "LP", "min\n obj: x\nst\n c1: x + %s >= 1\nbounds\n q%s <= 3\nend\n" % (nm, nm))           # unknown long name in an error message
        add("long-name", "LP", "min\n obj: x\nst\n %s: x >= 1\n %s: x <= 2\nend\n" % (nm, nm))                        # repeated long row name
        add("long-name", "MPS", "NAME t\nROWS\n N obj\n G %s\nCOLUMNS\n %s obj 1 %s 1\nRHS\n RHS %s 1\nBOUNDS\n UP BND %s 4\nENDATA\n" % (nm, nm + "c", nm, nm, nm + "c"))
        add("long-name", "MPS", "NAME t\nROWS\n N obj\n G c1\nCOLUMNS\n x obj 1 %s 1\nENDATA\n" % nm)                # unknown long row name
        add("long-name", "BAS", "NAME t\n XU %s c1\nENDATA\n" % nm)
    # names that end up in the DATA-level messages issued after parsing (ILLdata_warn / ILLdata_error format into a 256-byte
    # buffer): lengths around the point where the message no longer fits, and far beyond it
    for L in (150, 190, 200, 205, 210, 215, 220, 225, 230, 240, 250, 254, 255, 256, 260, 300, 520, 5000):
        nm = "v" + "".join(chr(97 + i % 26) for i in range(1, L))
        n2 = "w" + nm[1:]
        add("long-name-data", "MPS", "NAME t\nROWS\n N obj\n N free1\n L c1\nCOLUMNS\n x obj 1 c1 1\n %s free1 1\nRHS\n RHS c1 10\nENDATA\n" % nm)   # used in a non-objective N row only
        add("long-name-data", "LP", "min\n obj: x + %s\nst\n c1: x + %s >= 1\nbounds\n 5 <= %s <= 2\nend\n" % (nm, nm, nm))                                   # crossed bounds
        add("long-name-data", "MPS", "NAME t\nROWS\n N obj\n G c1\nCOLUMNS\n %s obj 1 c1 1\nRHS\n RHS c1 1\nBOUNDS\n LO BND %s 5\n UP BND %s 2\nENDATA\n" % (nm, nm, nm))
        add("long-name-data", "LP", "min\n obj: x + %s + 2 %s\nst\n c1: x + %s >= 1\nend\n" % (nm, nm, nm))                                                     # multiple coefficients, objective
        add("long-name-data", "LP", "min\n obj: x + %s\nst\n c1: %s + x + 3 %s >= 1\nend\n" % (nm, nm, nm))                                                     # multiple coefficients, row
        add("long-name-data", "MPS", "NAME t\nROWS\n N obj\n G c1\nCOLUMNS\n %s obj 1 c1 1\n %s c1 2\nRHS\n RHS c1 1\nENDATA\n" % (nm, nm))
        add("long-name-data", "MPS", "NAME t\nROWS\n N obj\n G c1\nCOLUMNS\n MARKER 'MARKER' 'INTORG'\n %s obj 1 c1 1\n MARKER 'MARKER' 'INTEND'\n y obj 1 c1 1\nRHS\n RHS c1 1\n"
            "SOS\n S1 SOS s1\n SOS s1 %s 1\n SOS s1 y 2\nENDATA\n" % (nm, nm))                                                                                   # integer SOS member
        add("long-name-data", "MPS", "NAME t\nROWS\n N obj\n G c1\nCOLUMNS\n %s obj 1 c1 1\n %s obj 1 c1 1\nRHS\n RHS c1 1\nSOS\n S1 SOS s1\n SOS s1 %s 1\n SOS s1 %s 1\nENDATA\n"
            % (nm, n2, nm, n2))                                                                                                                                        # equal SOS weights
        add("long-name-data", "MPS", "NAME t\nOBJNAME\n %s\nROWS\n N obj\n G c1\nCOLUMNS\n x obj 1 c1 1\nRHS\n RHS c1 1\nENDATA\n" % nm)                       # unknown objective name
        add("long-name-data", "MPS", "NAME t\nROWS\n N obj\n G %s\n G %s\nCOLUMNS\n x obj 1 %s 1\nRHS\n RHS %s 1\n RHS %s 2\nRANGES\n RNG %s 1\n RNG %s 2\nENDATA\n" % (nm, nm, nm, nm, nm, nm, nm))
        add("long-line", "LP", "min\n obj: x " + "+ 1 x " * (L // 6) + "\nst\n c1: x >= 1\nend\n")
        add("long-line", "LP", "min\n obj: x \\" + "c" * L + "\nst\n c1: x >= 1" + " " * L + "\nend\n")
        add("long-line", "MPS", "NAME t" + " " * L + "\nROWS\n N obj\n G c1\nCOLUMNS\n x obj 1 c1 1" + " " * L + "$ c\nENDATA\n")
    # ---- valid files whose sizes sweep across the readers' internal growth steps (row / column / coefficient arrays of
    #      the raw problem grow by reallocation at sizes the file format knows nothing about); all below 64 KiB
    sizes = list(range(1, 4300)) if ck.thorough() else sorted(set(list(range(940, 4300, 60)) + [k * 1000 + d for k in (1, 2, 3, 4) for d in (-1, 0, 1, 2)] +
                                                                  [rng.randrange(1, 4300) for _ in range(12)]))
    for si, N in enumerate(sizes):
        if si % 2 == 0 or ck.thorough():
            add("size-rows", "LP", "min\n obj: x + y\nst\n" + "".join(" r%d: x + y >= %d\n" % (i, i % 7) for i in range(N)) + "end\n")
        if si % 2 == 1 or ck.thorough():
            add("size-rows", "MPS", "NAME s\nROWS\n N obj\n" + "".join(" G r%d\n" % i for i in range(N)) + "COLUMNS\n x obj 1 r0 1\n x r%d 1\n y obj 1 r%d 1\nRHS\n RHS r0 1\nENDATA\n" % (N - 1, N // 2))
        if si % 3 == 0 or ck.thorough():
            add("size-cols", "LP", "min\n obj: " + "".join("+ x%d\n" % i for i in range(N)) + "st\n c1: x0 + x%d >= 1\nbounds\n x%d <= 4\nend\n" % (N - 1, N // 2))
            add("size-cols", "MPS", "NAME s\nROWS\n N obj\n G c1\nCOLUMNS\n" + "".join(" x%d obj 1 c1 1\n" % i for i in range(min(N, 3300))) + "RHS\n RHS c1 1\nBOUNDS\n UP BND x%d 4\nENDATA\n" % (min(N, 3300) // 2))
    for N in sizes[::6]:
        # many SOS sets / many members of one set / many integer marker pairs (the reader's SOS and marker tables grow too)
        K = min(N, 1500)
        add("size-sos", "MPS", "NAME s\nROWS\n N obj\n L c1\nCOLUMNS\n" + "".join(" S%d SOS%dqs 'MARKER' 'SOSORG'\n x%d obj 1 c1 1\n SOS%dqs 'MARKER' 'SOSEND'\n" % (1 + i % 2, i, i, i) for i in range(K)) + "RHS\n rhs c1 4\nENDATA\n")
        add("size-sos", "MPS", "NAME s\nROWS\n N obj\n L c1\nCOLUMNS\n S1 SOS0qs 'MARKER' 'SOSORG'\n" + "".join(" x%d obj 1 c1 %d\n" % (i, 1 + i % 9) for i in range(min(N, 3000))) + " SOS0qs 'MARKER' 'SOSEND'\nRHS\n rhs c1 4\nENDATA\n")
        add("size-markers", "MPS", "NAME s\nROWS\n N obj\n L c1\nCOLUMNS\n" + "".join(" M%d 'MARKER' 'INTORG'\n x%d obj 1 c1 1\n M%d 'MARKER' 'INTEND'\n" % (i, i, i) for i in range(K)) + "RHS\n rhs c1 4\nENDATA\n")
    for N in sizes[::4]:
        add("size-coefs", "LP", "min\n obj: x\nst\n c1: " + "".join("+ %d x%d\n" % (i % 5 + 1, i) for i in range(min(N, 3500))) + " >= 1\nend\n")
        add("size-entries", "MPS", "NAME s\nROWS\n N obj\n" + "".join(" L r%d\n" % i for i in range(min(N, 2500))) + "COLUMNS\n" +
            "".join(" x obj 1 r%d 1\n" % i if i == 0 else " x r%d %d\n" % (i, i % 3 + 1) for i in range(min(N, 2500))) + "RHS\n" +
            "".join(" RHS r%d 2\n" % i for i in range(0, min(N, 2500), 3)) + "ENDATA\n")

    def cross_refs(text):
        """MPS text with its sections referring to each other in legal-looking but unusual ways: the objective named
        explicitly as one of the constraint rows (which may carry RHS / RANGES entries), OBJSENSE sections, RANGES / RHS
        entries for N rows, bounds sections before RHS ..."""
        lines = text.split("\n")
        try:
            r0, c0 = lines.index("ROWS"), lines.index("COLUMNS")
        except ValueError:
            return None
        rows = [l.split() for l in lines[r0 + 1:c0] if len(l.split()) == 2]
        if not rows:
            return None
        sense, name = rng.choice(rows)
        k = rng.randrange(5)
        head = lines[:r0]
        if k in (0, 1, 2):
            head = head + ["OBJSENSE", "    " + rng.choice(["MAX", "MIN", "MAXIMIZE"]), "OBJNAME", "    " + name]
        body = lines[r0:]
        extra = []
        if "RANGES" not in body or k == 1:
            extra = ["RANGES", " RNG %s %d" % (name, rng.choice([-3, 0, 2]))]
        out = head + body
        try:
            e = out.index("ENDATA")
        except ValueError:
            e = len(out)
        if k == 3:
            extra += ["RHS", " RHS %s 5" % name]
        out = out[:e] + extra + out[e:]
        if k == 4:
            out = [("N" + l[2:] if l.startswith(" " + sense + " " + name) else l) for l in out]     # the chosen row becomes a second N row
        return "\n".join(out)
    # ---- the error paths of the MPS reader, by the rejection reasons of its model (IO/MpsRead.mreason): one file per reason, the reader's
    #      quirk probes, and section-level mutants of rendered files (keywords, markers, SOS blocks, REFROW / OBJNAME, set names, '$', indentation)
    for reason, t in sorted(G.mps_reason_files().items()):
        add("mps-reason", "MPS", t)
        add("mps-reason", "MPS", t[:-1])                    # the same without the final newline
        add("mps-reason", "MPS", t.replace("ENDATA\n", ""))  # ... and without ENDATA
    for nm, t in G.mps_accept_probes():
        add("mps-probe", "MPS", t)
    for i in range(n // 3):
        K, spec = G.gen_known_mps(rng, big=False)
        t, fl = G.render_mps(rng, K, spec, dollar=(i % 4 == 0))
        for _ in range(rng.choice([1, 1, 2, 3])):
            t = G.mutate_tokens_mps(rng, t)
        add("mps-section-mutation", "MPS", t)
    for i in range(n):
        fmt = ("LP", "MPS", "LP", "MPS", "BAS")[i % 5]
        if fmt == "MPS" and i % 2 == 1:
            K, spec = G.gen_known_mps(rng, big=False)
            t, fl = G.render_mps(rng, K, spec)
            x = cross_refs(t)
            if x:
                add("section-crossrefs", "MPS", x)
        if fmt == "LP":
            K = G.gen_known(rng, "LP", big=False)
            t, fl = G.render_lp(rng, K)
        elif fmt == "MPS":
            K, spec = G.gen_known_mps(rng, big=False)
            t, fl = G.render_mps(rng, K, spec)
        else:
            t = G.SMALL_BAS
        base = rng.choice([t, t, {"LP": G.SMALL_LP, "MPS": G.SMALL_MPS, "BAS": G.SMALL_BAS}[fmt]])
        if i % 3 == 0:
            add("valid", fmt, base)
        m = base
        for _ in range(rng.choice([1, 1, 2, 4])):
            m = G.mutate_tokens(rng, m)
        add("token-mutation", fmt, m)
        b = base.encode("latin-1")
        for _ in range(rng.choice([1, 1, 2, 4])):
            b = G.mutate_bytes(rng, b)
        add("byte-mutation", fmt, b)
        if fmt != "BAS" and i % 4 == 0:
            add("wrong-format", "MPS" if fmt == "LP" else "LP", base)
        if i % 6 == 0:
            add("gz", fmt, gzip.compress(b), ".gz")
            add("bz2", fmt, bz2.compress(b), ".bz2")
            z = gzip.compress(base.encode("latin-1"))
            add("gz-truncated", fmt, z[:rng.randrange(len(z))], ".gz")
            add("bz2-damaged", fmt, G.mutate_bytes(rng, bz2.compress(base.encode("latin-1"))), ".bz2")
            add("not-compressed", fmt, base, rng.choice([".gz", ".bz2"]))
    return files


def main():
    ck = Check("C11", "fault_enumeration")
    build_repo()
    pr = ck.proofs()
    files = make_files(ck)
    jobs = 12
    chunks = [files[i::jobs * 2] for i in range(jobs * 2)]
    cases = []
    for k, ch in enumerate(chunks):
        s = "CASE k%d\n%s\n" % (k, load_block(0, BAS_PROBLEM))
        for j, (label, fmt, data, ext) in enumerate(ch):
            s += "PUT f%d%s %s\n" % (j, ext, enc(data))
            s += ("TRYBASIS h0 f%d%s\n" % (j, ext)) if fmt == "BAS" else ("TRYREAD f%d%s %s\n" % (j, ext, fmt))
        cases.append(("k%d" % k, s))
    M, outs, crashes, _ = run_io_cases(cases, asan=True, per_case_timeout=6000, jobs=jobs, tag="C11")
    if crashes:
        raise Fail("the harness itself died (outside the forked children): %s" % (crashes[0][2][-400:],))
    hist, by_label, retry = {}, {}, []
    results = []
    for k, ch in enumerate(chunks):
        res = [t for t in outs.get("k%d" % k, []) if t[0] in ("TRYREAD", "TRYBASIS")]
        if len(res) != len(ch):
            raise Fail("harness output incomplete for chunk %d" % k)
        for j, f in enumerate(ch):
            results.append((f, res[j]))
    # timeouts under load are re-run alone with a 60 s watchdog before they count
    to = [(f, t) for f, t in results if t[1] == "TIMEOUT"]
    for (f, t) in to[:8]:       # (a reader that hangs on everything would otherwise cost a minute per file)
        label, fmt, data, ext = f
        # read (and write) only: a returned problem that merely takes long to SOLVE is no reader fault (numbers with
        # thousands of digits make the exact solver slow, more so on a loaded machine)
        op = ("TRYBASIS h0 f%s" % ext) if fmt == "BAS" else ("TRYREAD f%s %s 60 nosolve" % (ext, fmt))
        rc, out, err = run_io("%s\nPUT f%s %s\n%s\n" % (load_block(0, BAS_PROBLEM), ext, enc(data), op), asan=True, timeout=200)
        r = [l.split() for l in out.splitlines() if l.startswith("TRYREAD") or l.startswith("TRYBASIS")]
        t[:] = r[0] if r else ["TRYREAD", "TIMEOUT"]
    ck.cov["timeouts_under_load_rerun_alone"] = len(to)
    nprob = 0
    for (f, t) in results:
        label, fmt, data, ext = f
        ck.count((fmt, ext, data), nontrivial=True)
        by_label[label] = by_label.get(label, 0) + 1
        if t[1] in ("PROB", "FAIL", "OK"):
            key = t[1]
            if t[0] == "TRYREAD" and t[1] == "PROB":
                nprob += 1
                w, s = t[5], t[6]
                if w[2] == "0" and s.endswith(":9") and not s.startswith("s0:"):
                    # QSexact_solver ends with an error when a floating-point stage reaches the objective limit (QS_PARAM_OBJULIM /
                    # OBJLLIM, 1e150 by default): a stop decided by a solver parameter on data beyond that magnitude, the same for
                    # the same problem built through the API - the problem the reader returned is consistent (it was written and freed)
                    hist["PROB (solver stopped at its objective limit)"] = hist.get("PROB (solver stopped at its objective limit)", 0) + 1
                elif w[2] != "0" or not s.startswith("s0:"):
                    # a problem came back that the library then cannot write (MPS) or solve
                    sos = b"SOS" in data or b"S1" in data or b"S2" in data
                    if not (w[2] == "0" and s.startswith("s0:")):
                        ck.violation("inconsistent_%d.txt" % len(ck.violations), "PUT f%s %s\nTRYREAD f%s %s\n" % (ext, enc(data), ext, fmt),
                                     "%s file (%s) was read as a problem that cannot be %s: %s" % (fmt, label, "written" if w[2] != "0" else "solved", " ".join(t[1:])),
                                     match=dict(kind="returned-problem-unusable"))
                if w[1] != "0":
                    key = "PROB (LP write refused)"
            hist[key] = hist.get(key, 0) + 1
            continue
        if t[1] == "TIMEOUT":
            kind = "timeout"
            what = "did not finish within 60 s"
        else:
            kind = classify(t)
            what = "%s %s %s" % (t[2], re.sub(r"==\d+==|0x[0-9a-f]+", "", dec(t[3]) if len(t) > 3 else "").strip()[:120],
                                 "<".join(x for x in (dec(t[4]) if len(t) > 4 else "").split("<") if not x.startswith("__") and "interceptor" not in x)[:200])
        if kind == "numreader-exp-overflow":
            hist["out of scope (exponent overflow)"] = hist.get("out of scope (exponent overflow)", 0) + 1
            continue
        hist["CRASH " + kind] = hist.get("CRASH " + kind, 0) + 1
        op = ("TRYBASIS h0 f%s" % ext) if fmt == "BAS" else ("TRYREAD f%s %s" % (ext, fmt))
        ck.violation("crash_%s_%d.txt" % (kind, hist["CRASH " + kind]), "%s\nPUT f%s %s\n%s\n# %s\n" % (load_block(0, BAS_PROBLEM), ext, enc(data), op, what),
                     "reading a %s file (%s, %d bytes) as %s: %s" % (label, ext or "plain", len(data), fmt, what), match=dict(kind=kind))
    # ---- outcome class of the MPS reader model on the files of the reader-model families: PROB <-> MOk, FAIL <-> a rejection reason;
    #      which rejection reasons of the model were visited under the sanitizers
    rc_, out_, err_ = run_io("CASE p\nNUMF 1/0\nNUMF /1\n")
    pl = [x.split() for x in out_.splitlines() if x.startswith("NUM ")]
    variant = 0 if (len(pl) == 2 and pl[0][1] == "CRASH") else 1
    mq, mfiles = ["M " + M], {}
    for i, (f, t) in enumerate(results):
        label, fmt, data, ext = f
        if label in ("mps-reason", "mps-probe", "mps-section-mutation") and t[1] in ("PROB", "FAIL") and b"\x00" not in data:
            mfiles["r%d" % i] = (f, t)
            mq.append("Q r%d mpsread %d %s\nNONE" % (i, variant, enc(data)))
    mans = run_model_par("drv_io", mq) if len(mq) > 1 else {}
    reasons, nclass, classbad = {}, 0, []
    for qid, (f, t) in mfiles.items():
        a = mans.get(qid)
        if not a:
            continue
        nclass += 1
        if a[0].startswith("ERR:"):
            reasons[a[0][4:]] = reasons.get(a[0][4:], 0) + 1
        model_ok = a[0] == "OK"
        if a[0] in ("FLT", "FUEL") or model_ok != (t[1] == "PROB"):
            classbad.append((f, t, a))
    all_reasons = sorted(G.mps_reason_files())
    ck.cov["mps_reader_model_outcome_classes"] = dict(files=nclass, disagreements=len(classbad), model_rejection_reasons_exercised=reasons,
                                                      reasons_not_exercised=[r for r in all_reasons if r not in reasons])
    for (f, t, a) in classbad[:3]:
        label, fmt, data, ext = f
        ck.violation("mpsclass_%d.txt" % len(ck.violations), "PUT f %s\nTRYREAD f MPS\n# model: %s\n# reader: %s\n" % (enc(data), a, " ".join(t[1:3])),
                     "outcome class of the MPS reader (%s) differs from its model IO/MpsRead.read_mps_res (%s) on a %s file" % (t[1], a[0], label),
                     match=dict(kind="corr-mpsread-class"))
    missing = [r for r in all_reasons if r not in reasons]
    if missing:
        ck.violation("reasons.txt", "\n".join(missing), "rejection reasons of the MPS reader model that no file of this run reached: %s" % missing, no_input=True,
                     match=dict(kind="reasons-not-exercised"))
    if not pr["ok"]:
        ck.violation("proof.txt", pr["log"], "proof obligation(s) of Properties_C11.v no longer check: %s" % pr["failed"], no_input=not ck.violations)
    ck.cov["outcomes"] = hist
    ck.cov["inputs_by_kind"] = by_label
    ck.cov["problems_returned_and_written_solved_freed"] = nprob
    ck.sample(dict(kind="truncate", text=G.SMALL_LP[:37]))
    ck.sample(dict(kind="literal", text="c1: x + 1/0 y >= 1/0"))
    ck.cov["rule"] = ("LP, MPS and basis files: valid renderings (C10 renderers), token-level mutations (swap/drop/dup/move, pathological literals p/0 1e9999 ++--1 .e., "
                      "keywords, 300..5000-character names, stray operators), byte-level mutations (bit flips, insertions, deletions, control/NUL/high bytes, CR LF, "
                      "duplicated lines, joined lines, 70000-byte runs), truncation at every position of four small files, names and lines up to 60000 bytes, wrong "
                      "format flag, gzip/bzip2 variants incl. truncated and damaged streams and plain text under a compressed name; each read in a forked child of the "
                      "ASan+UBSan build with a 10 s watchdog (60 s alone when it fired under load) through mpq_QSget_prob with an error memory / mpq_QSread_basis + "
                      "mpq_QSread_and_load_basis; a returned problem is written (LP, MPS), solved (QSexact_solver) and freed in the same child; files whose exponents "
                      "exceed 4 digits are dropped (out of scope); non-trivial = every file; distinct by content"
                      "; MPS reader by its model: one file per rejection reason of IO/MpsRead.mreason (40, each also without final newline and without ENDATA), 32 probes of "
                      "reader quirks, section-level mutants of rendered files; for these the outcome class of the reader (problem / clean failure) must equal the model's "
                      "and every rejection reason of the model must be reached")
    ck.cov["not_covered"] = ("memory safety of the readers is explored (sanitizers), not proved: no byte-level model of the 128 KiB line/field buffers; the compression "
                             "libraries are taken as given; proofs cover the number scanner, the field splitter and totality (termination of the modelled control flow) of the LP and MPS reader models "
                             "(C11_lp_reader_total, C11_mps_reader_total); the models have no buffers, symbol tables or error-message paths")
    ck.assumptions = ["ASan+UBSan detect the invalid accesses that occur", "harness h_io.c (fork, watchdog)", "Coq kernel for the primitive-level theorems"]
    cleanup_scratch()
    ck.finish(trusted_base=["coqc 8.16.1 kernel", "gcc -fsanitize=address,undefined", "harness/h_io.c + checks/io_common.py + checks/io_gen.py + checks/C11.py"])


main_guard(main)
