#!/usr/bin/env python3
"""C04  The answer is a function of the LP only, not of how the solver is driven."""
import sys, os, itertools
sys.path.insert(0, os.path.dirname(os.path.abspath(__file__)))
from lib import *
from gen_lp import *
from solve_common import *

WARMS = ["none", "kept", "arb", "otherobj"]


def all_configs():
    for e, pp, dp, sc, w in itertools.product(ENTRIES, PPRICE, DPRICE, [0, 1], WARMS):
        yield dict(entry=e, pp=pp, dp=dp, scale=sc, warm=w)


def pairwise(rng, k):
    """greedy pairwise covering sample of the configuration product, at least k configs"""
    dims = [("entry", ENTRIES), ("pp", PPRICE), ("dp", DPRICE), ("scale", [0, 1]), ("warm", WARMS), ("prec", [64, 128, 1024]), ("repeat", [0, 1])]
    need = set()
    for (a, va), (b, vb) in itertools.combinations(dims, 2):
        for x in va:
            for y in vb:
                need.add((a, x, b, y))
    out = []
    while need or len(out) < k:
        best, bestc = None, -1
        for _ in range(40):
            c = {d: rng.choice(v) for d, v in dims}
            cov = sum(1 for (a, x, b, y) in need if c[a] == x and c[b] == y)
            if cov > bestc:
                best, bestc = c, cov
        out.append(best)
        need = {(a, x, b, y) for (a, x, b, y) in need if not (best[a] == x and best[b] == y)}
        if len(out) > 400:
            break
    return out


def arb_basis(rng, lp):
    n, m = len(lp["cols"]), len(lp["rows"])
    bas = pick_basic_set(rng, lp)

    def cst(j):
        lo, up = lp["cols"][j][2], lp["cols"][j][3]
        opts = ([] if lo == NINF else ["0"]) + ([] if up == INF else ["2"])
        return rng.choice(opts) if opts else "3"

    def rst(i_):
        return rng.choice("02") if lp["rows"][i_][1] == "R" else "0"
    cs = "".join("1" if j in bas else cst(j) for j in range(n))
    rs = "".join("1" if (n + i_) in bas else rst(i_) for i_ in range(m))
    return (cs or "-", rs or "-")


def script(cid, lp, cfg, rng):
    lines = ["CASE %s" % cid]
    w = cfg["warm"]
    if w == "otherobj":
        # optimal basis of the same constraints under a different objective
        other = dict(lp)
        other["cols"] = [(n, F(rng.randint(-3, 3)), l, u) for (n, o, l, u) in lp["cols"]]
        lines += [lp_block(other), "SOLVE EXACT P", "KEEPBASIS"]
        lines += ["CHG obj %d %s" % (j, qs(c[1])) for j, c in enumerate(lp["cols"])]
        if not cfg["entry"].startswith("EXACT"):
            lines += ["LOADKEPT"]
    else:
        lines += [lp_block(lp)]
        if w == "kept":
            lines += ["SOLVE EXACT P", "KEEPBASIS"]
            if not cfg["entry"].startswith("EXACT"):
                lines += ["LOADKEPT"]
        elif w == "arb":
            cfg = dict(cfg, basis=arb_basis(rng, lp))
            if not cfg["entry"].startswith("EXACT"):
                lines += ["LOADBASIS %s %s" % cfg["basis"]]
    lines += config_lines(cfg)
    if cfg.get("prec"):
        lines += ["PRECISION %d" % cfg["prec"]]
    e = cfg["entry"]
    if e.startswith("EXACT"):
        sl = "SOLVE %s%s" % (e, " KEPT" if w in ("kept", "otherobj") else (" %s %s" % cfg["basis"] if w == "arb" else ""))
    else:
        sl = "SOLVE " + e
    lines += [sl, "ACCESS"]
    if cfg.get("repeat"):
        lines += [sl, "ACCESS"]
    lines += ["DUMP"]
    return "\n".join(lines) + "\n"


def main():
    ck = Check("C04", "proof")
    build_repo()
    pr = ck.proofs()
    if ck.thorough():
        lps_full = family_stream(ck.rng, 12)
        lps_cov = family_stream(ck.rng, 300, big=True)
    else:
        lps_full = []
        lps_cov = family_stream(ck.rng, 36)
    lps_cov += [boxed_ranged(ck.rng, name="bx%d" % i) for i in range(60 if ck.thorough() else 12)]
    cov = pairwise(ck.rng, 60 if ck.thorough() else 40)
    cases, meta = [], {}
    for li, lp in enumerate(lps_full):
        for ci, cfg in enumerate(all_configs()):
            cid = "F%d.%d" % (li, ci)
            cases.append((cid, script(cid, lp, cfg, ck.rng)))
            meta[cid] = (lp, cfg)
    for li, lp in enumerate(lps_cov):
        cfgs = list(cov)
        if lp.get("dep_cols"):
            # LPs naming dependent column pairs: singular warm-start bases through the direct entry points under every pricing rule
            for e_ in ("PRIMAL", "DUAL"):
                for pi_ in range(4):
                    for sc_ in (0, 1):
                        cfgs.append(dict(cov[0], entry=e_, pp=PPRICE[pi_], dp=DPRICE[pi_], scale=sc_, warm="arb", prec=128, repeat=0))
        for ci, cfg in enumerate(cfgs):
            cid = "C%d.%d" % (li, ci)
            cases.append((cid, script(cid, lp, cfg, ck.rng)))
            meta[cid] = (lp, cfg)
    M, outs, crashes = run_cases("h_solve", cases, per_case_timeout=60)
    ck.cov["crashes_seen"] = len(crashes)
    ck.cov["crash_cases"] = [dict(case=c, rc=rc, cfg={k: v for k, v in meta[c][1].items()}) for c, rc, _ in crashes[:10]]
    scripts = dict(cases)
    per_lp = {}
    hist = {}
    crashed = set(c for c, _, _ in crashes)
    # a driving that does not come back at all delivers no answer either
    for c, rc, err in crashes:
        if rc == -999:
            cfgh = meta[c][1]
            ck.violation("hang_%s.txt" % c, scripts[c], "LP %s: configuration %s did not terminate within the time limit" % (meta[c][0]["name"], cfgh),
                         match=dict(kind="hang", entry=cfgh["entry"].split()[0], pp=cfgh.get("pp"), dp=cfgh.get("dp")))
    for cid, toks in outs.items():
        if cid in crashed:
            continue
        lp, cfg = meta[cid]
        li = cid.split(".")[0]
        # all solves of the final entry kind in this case (the last one or two)
        sol_lines = [t for t in toks if t[0] == "SOLVE"]
        accs = []
        cur = None
        for t in toks:
            if t[0] == "SOLVE":
                cur = dict(kind=t[1] if t[1] != "EXACT" else "EXACT", rv=int(t[-2]), st=int(t[-1]), objval=None)
                accs.append(cur)
            elif t[0] == "ACC" and t[1] == "objval" and cur is not None:
                cur["objval"] = t[3] if t[2] == "0" else None
        nfinal = 2 if cfg.get("repeat") else 1
        for a in accs[-nfinal:]:
            hist[STATUS.get(a["st"], a["st"]) if a["rv"] == 0 else "error"] = hist.get(STATUS.get(a["st"], a["st"]) if a["rv"] == 0 else "error", 0) + 1
            if a["rv"] == 0 and a["st"] in (1, 2, 3):
                ans = (a["st"], a["objval"] if a["st"] == 1 else None)
                per_lp.setdefault(li, {}).setdefault(ans, []).append(cid)
                ck.count((li, repr(sorted((k, str(v)) for k, v in cfg.items()))))
    ndis = 0
    for li, answers in per_lp.items():
        items = sorted(answers.items(), key=lambda kv: -len(kv[1]))
        (a0, c0) = items[0]
        lp = meta[c0[0]][0]
        if len(items) > 1:
            ndis += 1
            for (a1, c1) in items[1:]:
                seen_kinds = set()
                for cid1 in c1:
                    cfg1 = meta[cid1][1]
                    mt = dict(kind="disagree", expected=STATUS[a0[0]], got=STATUS[a1[0]], entry=cfg1["entry"].split()[0], numbers=lp.get("numbers", "small"))
                    if tuple(sorted(mt.items())) in seen_kinds:
                        continue
                    seen_kinds.add(tuple(sorted(mt.items())))
                    ck.violation("disagree_%s_%s.txt" % (li, cid1),
                                 "# majority configuration -> %s\n%s\n# deviating configuration -> %s\n%s" % (a0, scripts[c0[0]], a1, scripts[cid1]),
                                 "LP %s: %d configurations answer %s but configuration %s answers %s" % (
                                     lp["name"], len(c0), (STATUS[a0[0]], a0[1]), cfg1, (STATUS[a1[0]], a1[1])),
                                 match=mt)
        elif len(ck.cov["samples"]) < 5:
            ck.sample(dict(lp=lp["name"], answer=[STATUS[a0[0]], a0[1]], configurations_agreeing=len(c0)))
    if not pr["ok"]:
        ck.violation("proof.txt", pr["log"], "proof obligation(s) of Properties_C04.v no longer check: %s" % pr["failed"], no_input=not ck.violations)
    ck.cov["rule"] = ("per LP a pairwise covering array over {entry point x primal pricing x dual pricing x scaling x warm start (none, optimal basis, arbitrary valid basis, "
                      "optimal basis of another objective) x mpf precision x repeated solve}%s; non-trivial = a definitive answer (status, value) obtained; distinct by (LP, configuration); "
                      "violation = two different definitive answers for one LP" % (" plus the full 512-configuration product on 12 LPs" if ck.thorough() else ""))
    ck.cov["evaluations"] = len(cases)
    ck.cov["lps"] = len(lps_full) + len(lps_cov)
    ck.cov["configs_per_lp"] = len(cov)
    ck.cov["answer_histogram"] = hist
    ck.cov["lps_with_disagreement"] = ndis
    ck.cov["not_covered"] = "agreement of UNBOUNDED / non-definitive answers and of the direct simplex entry points is explored, not proved; crashes are counted here and judged by C17"
    ck.assumptions = ["Coq kernel; harness h_solve", "configurations of the exact driver = oracles (theorem quantifies over all of them)"]
    ck.finish(trusted_base=["coqc 8.16.1 kernel", "harness h_solve.c + checks/C04.py"])


main_guard(main)
