#!/usr/bin/env python3
"""C17  No call sequence or input is memory-unsafe, and results are reproducible (partial)."""
import sys, os, re, tempfile, shutil
sys.path.insert(0, os.path.dirname(os.path.abspath(__file__)))
from lib import *
from gen_lp import *
from solve_common import *

FILES = {
    "ok.lp": "Maximize\n obj: 3 x + 2 y + 4 z\nSubject To\n c1: 3 x + 2 y + z <= 12\n c2: 5 y + 3 z <= 10\nBounds\n x <= 5\nEnd\n",
    "ok.mps": "NAME t\nROWS\n N obj\n L c1\n G c2\nCOLUMNS\n x obj 1 c1 1\n x c2 1\n y obj 2 c1 1\nRHS\n rhs c1 4 c2 1\nBOUNDS\n UP bnd x 3\nENDATA\n",
    "ranged.lp": "Minimize\n obj: x - y\nSubject To\n c1: -1 <= x + y <= 4\n c2: x - y >= -2\nBounds\n -3 <= x <= 3\n y free\nEnd\n",
    "garbage.lp": "this is not an lp file\n\x01\x02 ::: <= >=\n",
    "trunc.lp": "Minimize\n obj: x + 2 y\nSubject To\n c1: x + y >= \n",
    "nonl.lp": "Minimize\n obj: x\nSubject To\n c1: x >= 1\nEnd",
    "empty.mps": "",
}


def san_site(err):
    """first library frame of a sanitizer report"""
    kind = "asan" if "AddressSanitizer" in err else ("ubsan" if "runtime error" in err else "signal")
    m = re.search(r"#\d+ 0x[0-9a-f]+ in (\w+) (?:/\S*/)?qsopt_ex/(\w+\.c):(\d+)", err)
    m2 = re.search(r"qsopt_ex/(\w+\.c):(\d+):\d+: runtime error: ([^\n]*)", err)
    if m2:
        return kind, m2.group(1), m2.group(3)[:80]
    if m:
        return kind, m.group(1), ""
    return kind, "?", ""


def mkfile(name, txt):
    return "MKFILE %s %s\n" % (name, txt.encode("latin-1", "replace").hex() or "-")


def main():
    ck = Check("C17", "exploration")
    build_repo()
    tmp = tempfile.mkdtemp(prefix="qsx_c17_", dir="/var/tmp")
    try:
        nlp = 400 if ck.thorough() else 60
        lps = family_stream(ck.rng, nlp, big=ck.thorough())
        cases = []
        for li, lp in enumerate(lps):
            for ci, cfg in enumerate(configs(ck.rng, lp, 5 if ck.thorough() else 3)):
                cid = "s%d.%d" % (li, ci)
                scr = case_script(cid, lp, cfg)
                n, m = len(lp["cols"]), len(lp["rows"])
                extra = ["INFEASARR", "ACCESS", "GETBASIS", "KEEPBASIS", "WRITEPROB w%s.lp LP" % cid,
                         "WRITEPROB w%s.mps MPS" % cid, "SOLVE DUAL", "SOLVE PRIMAL", "SOLVE EXACT D",
                         "CHG obj 0 5" if n else "DUMP", "CHG rhs 0 1" if m else "DUMP", "CHG bound 0 U 7" if n else "DUMP", "CHG objsense MAX"]
                ck.rng.shuffle(extra)
                scr += "\n".join(extra[:6]) + "\nACCESS\nDUMP\n"
                cases.append((cid, scr))
        for n in FILES:
            ty = "MPS" if n.endswith(".mps") else "LP"
            for ty2 in (ty, "MPS" if ty == "LP" else "LP"):
                cid = "f_%s_%s" % (n, ty2)
                cases.append((cid, "CASE %s\n%sREADPROB in_%s %s\nSOLVE EXACT P\nACCESS\nWRITEPROB rw_%s %s\nDUMP\n" % (cid, mkfile("in_" + cid, FILES[n]), cid, ty2, cid, ty2)))
        # growth thresholds: K empty columns / rows, then a new coefficient in a packed column (relocation paths of the store)
        base = "LP g MAX 3 2\nCOL x 3 0 inf\nCOL y 2 0 inf\nCOL z 4 0 inf\nROW c1 L 12 0 2 0 3 1 2\nROW c2 L 10 0 2 1 5 2 3\n"
        ks = range(0, 1150) if ck.thorough() else list(range(0, 1150, 7)) + list(range(980, 1012))
        for K in ks:
            cid = "g%d" % K
            cases.append((cid, "CASE %s\n%sNEWCOL 0 0 inf %d\nCHG coef 1 0 7\nCHG coef 0 2 1\nNEWROW 1 L %d\nCHG coef %d 1 2\nDUMP\nSOLVE DUAL\nACCESS\n" % (cid, base, K, K % 120, 1 + (K % 120))))
        # solve - grow - warm start histories (pricing norms and status arrays must follow the dimensions)
        for hi in range(200 if ck.thorough() else 40):
            lp = lps[hi % len(lps)]
            n, m = len(lp["cols"]), len(lp["rows"])
            if n == 0:
                continue
            cid = "w%d" % hi
            lines = ["CASE %s" % cid, lp_block(lp), "PARAM 0 %d" % ck.rng.choice(PPRICE), "PARAM 2 %d" % ck.rng.choice(DPRICE),
                     "SOLVE " + ck.rng.choice(["DUAL", "PRIMAL", "DUAL"]), "GETBN"]
            for _ in range(ck.rng.randint(1, 3)):
                if ck.rng.random() < 0.6:
                    ent = [(j, rand_q(ck.rng, "small")) for j in range(n) if ck.rng.random() < 0.6]
                    ent = [(j, v) for j, v in ent if v != 0]
                    lines.append("ADDROW %s %s %d %s" % (ck.rng.choice("LGE"), qs(rand_q(ck.rng, "small")), len(ent), " ".join("%d %s" % (j, qs(v)) for j, v in ent)))
                    m += 1
                else:
                    ent = [(i, rand_q(ck.rng, "small")) for i in range(m) if ck.rng.random() < 0.6]
                    ent = [(i, v) for i, v in ent if v != 0]
                    lines.append("ADDCOL %s 0 %s %d %s" % (qs(rand_q(ck.rng, "small")), ck.rng.choice(["inf", "5"]), len(ent), " ".join("%d %s" % (i, qs(v)) for i, v in ent)))
                    n += 1
            lines += [ck.rng.choice(["LOADBN", "LOADBN NONORMS", "DUMP"]), "SOLVE " + ck.rng.choice(["DUAL", "PRIMAL", "DUAL", "EXACT D"]), "ACCESS", "GETBASIS", "DUMP"]
            cases.append((cid, "\n".join(lines) + "\n"))
        # problems read from a file carry the row-wise copy of the matrix (built by the readers only): delete columns that
        # occur in no row / in rows, change right-hand sides, re-solve warm on the problem itself (scaling off or a kept basis)
        for ri in range(60 if ck.thorough() else 14):
            nc, nr = ck.rng.randint(3, 7), ck.rng.randint(3, 6)
            empt = sorted(ck.rng.sample(range(nc), ck.rng.randint(1, 2)))
            obj = " ".join("+ %d v%d" % (ck.rng.randint(1, 5), j) for j in range(nc))
            rows = []
            for i in range(nr):
                ent = [(j, ck.rng.randint(1, 4)) for j in range(nc) if j not in empt and ck.rng.random() < 0.7] or [(([j for j in range(nc) if j not in empt] or [0])[0], 1)]
                rows.append(" r%d: %s <= %d" % (i, " ".join("+ %d v%d" % (v, j) for j, v in ent), ck.rng.randint(5, 30)))
            txt = "Maximize\n obj: %s\nSubject To\n%s\nBounds\n%s\nEnd\n" % (obj, "\n".join(rows), "\n".join(" v%d <= %d" % (j, ck.rng.randint(2, 9)) for j in range(nc)))
            cid = "rd%d" % ri
            lines = ["CASE %s" % cid, mkfile("%s.lp" % cid, txt).rstrip("\n"), "READPROB %s.lp LP" % cid, "PARAM 7 %d" % ck.rng.choice([0, 0, 1]), "SOLVE " + ck.rng.choice(["DUAL", "PRIMAL", "EXACT D"]), "ACCESS"]
            dels = list(empt) if ck.rng.random() < 0.7 else [ck.rng.randrange(nc)]
            for d in sorted(dels, reverse=True):
                lines.append("CHG delcol %d" % d)
            for _ in range(ck.rng.randint(1, 8)):
                lines.append("CHG rhs %d %d" % (ck.rng.randrange(nr), ck.rng.randint(3, 40)))
            lines += ["SOLVE DUAL", "ACCESS", "CHG delrow 0", "SOLVE " + ck.rng.choice(["DUAL", "PRIMAL"]), "ACCESS", "DUMP"]
            cases.append((cid, "\n".join(lines) + "\n"))
        # degenerate dimensions (no rows / no columns / 1x1, also reached by deleting the last row or column) under every pricing rule
        di = 0
        for (n_, m_) in ((0, 1), (1, 0), (2, 0), (0, 2), (1, 1), (3, 0), (0, 0)):
            for pp in PPRICE:
                for dp in DPRICE:
                    if not ck.thorough() and (di * 7 + pp + dp) % 3:
                        di += 1
                        continue
                    di += 1
                    cid = "dd%d" % di
                    L = ["CASE %s" % cid, "LP d MIN %d %d" % (n_ + 1, m_ + 1)] + ["COL x%d %d %d inf" % (j, (-1) ** j * (j + 1), -2 + j) for j in range(n_ + 1)] + \
                        ["ROW c%d L %d 0 %d %s" % (i, i + 1, n_ + 1, " ".join("%d %d" % (j, 1 + (i + j) % 3) for j in range(n_ + 1))) for i in range(m_ + 1)] + \
                        ["PARAM 0 %d" % pp, "PARAM 2 %d" % dp, "CHG delrow %d" % m_, "CHG delcol %d" % n_,
                         "SOLVE " + ["DUAL", "PRIMAL", "EXACT D", "EXACT P"][di % 4], "ACCESS", "SOLVE " + ["PRIMAL", "DUAL"][di % 2], "ACCESS", "GETBASIS", "DUMP"]
                    cases.append((cid, "\n".join(L) + "\n"))
        # fill-in: equality LPs of 10-16 rows with boxed columns and 30-45% dense rows; the LU factorization of their bases creates
        # enough fill-in to exhaust the initial U / L space while a pivot column or row is being eliminated (make_uc_space /
        # make_ur_space / make_lc_space re-pack and re-allocate the index arrays under the elimination's feet)
        for fi in range(60 if ck.thorough() else 14):
            m_ = ck.rng.randint(10, 16)
            n_ = m_ + m_ // 2 + ck.rng.randint(0, 3)
            dens = ck.rng.choice([0.3, 0.35, 0.45])
            bnds = [ck.rng.choice([(0, 4), (-2, 3), (0, 1), (1, 6)]) for _ in range(n_)]
            x0 = [ck.rng.randint(l, u) for l, u in bnds]
            rows_ = []
            for i in range(m_):
                ent = [(j, F(ck.rng.choice([1, 2, 3, -1, -2, -3, 5, 7]))) for j in range(n_) if ck.rng.random() < dens] or [(i % n_, F(1))]
                rows_.append(("E", sum(v * x0[j] for j, v in ent), F(0), ent))
            lp = mk("fill%d" % fi, bool(fi % 2), [(F(ck.rng.randint(-4, 4)), F(l), F(u)) for l, u in bnds], rows_)
            cid = "fill%d" % fi
            cases.append((cid, "CASE %s\n%s\nPARAM 7 %d\nSOLVE EXACT %s\nACCESS\nGETBASIS\nSOLVE %s\nACCESS\nCHG obj 0 9\nSOLVE EXACT %s\nACCESS\nDUMP\n" % (
                cid, lp_block(lp), fi % 3 != 0, "PD"[fi % 2], ["DUAL", "PRIMAL"][fi % 2], "DP"[fi % 2])))
        # a row / column added through the API with a REPEATED index (accepted and stored as separate entries; the file readers
        # merge such entries, the API does not), then every kind of solve
        dbase = "LP dup MAX 3 2\nCOL ca 2 0 9\nCOL cb 5 0 11\nCOL cc 1 0 5\nROW r0 L 8 0 3 0 3 1 4 2 4\nROW r1 R 1 8 3 0 1 1 4 2 1\n"
        for di_, (ed, sv) in enumerate([(e_, s_) for e_ in ("ADDROW L 1 2 0 3 0 2", "ADDCOL 1 0 5 3 0 1 0 2 0 3", "ADDROW G -4 3 1 1 2 1 1 2") for s_ in ("DUAL", "PRIMAL", "EXACT D", "EXACT P")]):
            cid = "dupix%d" % di_
            cases.append((cid, "CASE %s\n%s%s\nSOLVE %s\nACCESS\nGETBASIS\nDUMP\n" % (cid, dbase, ed, sv)))
        # very long names / long numbers through every writer (lines of about 4096 characters and more)
        lens = list(range(4080, 4110)) if ck.thorough() else [4087, 4088, 4089, 4094, 4095, 4096, 4097, 4103, 4104]
        for L in lens:
            for half in (False, True):
                nm = "n" * (L // 2 if half else L)
                cid = "ln%d%s" % (L, "h" if half else "")
                cases.append((cid, "CASE %s\nLP l MAX 2 2\nCOL %sx 1 0 5\nCOL y 1 0 inf\nROW %sr L 5 0 2 0 1 1 1\nROW c2 L 7/3 0 1 1 1\nSOLVE EXACT D\nACCESS\n"
                                   "WRITEBAS b.bas\nREADBAS b.bas\nPRINTSOL s.sol\nWRITEPROB w.lp LP\nWRITEPROB w.mps MPS\nREADPROB w.mps MPS\nSOLVE EXACT P\nACCESS\n" % (cid, nm, nm)))
        scripts = dict(cases)
        # ---- 1. sanitizer run -------------------------------------------------------------------
        M, outs, crashes = run_cases("h_solve", cases, asan=True, per_case_timeout=120, env={"QSX_SCRATCH": tmp})
        for cid, rc, err in crashes:
            kind, fn, what = san_site(err)
            ck.violation("san_%s.txt" % cid, scripts[cid] + "\n# " + err[-1500:].replace("\n", "\n# "),
                         "%s report / crash (rc=%s) in %s %s on case %s" % (kind, rc, fn, what, cid), match=dict(kind="crash", site=fn))
        for cid in outs:
            ck.count((cid, scripts[cid][:300]))
        ck.cov["sanitizer_cases"] = len(cases)
        # ---- 2. reproducibility: same script, fresh processes, different allocator fill, ASLR on -------
        sub = cases[:: max(1, len(cases) // (150 if ck.thorough() else 40))]
        _, o1, c1 = run_cases("h_solve", sub, env={"MALLOC_PERTURB_": "85", "QSX_SCRATCH": tmp}, per_case_timeout=120)
        _, o2, c2 = run_cases("h_solve", sub, env={"MALLOC_PERTURB_": "170", "QSX_SCRATCH": tmp}, per_case_timeout=120)
        nrep = 0
        for cid, _ in sub:
            if cid in o1 and cid in o2:
                nrep += 1
                if o1[cid] != o2[cid]:
                    diff = [(a, b) for a, b in zip(o1[cid], o2[cid]) if a != b][:3]
                    ck.violation("nondet_%s.txt" % cid, scripts[cid] + "\n# first differences: %s\n" % diff,
                                 "two runs of the same script in fresh processes differ (case %s): %s" % (cid, str(diff)[:200]), match=dict(kind="nondeterminism"))
        ck.cov["reproducibility_cases"] = nrep
        # written files must be byte identical between the two runs as well: covered by DUMP/ACCESS transcripts of re-read? (files are overwritten; compare via READPROB in thorough)
        # ---- 3. valgrind memcheck on a small subset (uninitialised values influencing a result) ---------
        nval = 0
        b = build_repo()
        vcases = []
        cdir = os.path.join(VERIF, "corpus", "C17")
        if os.path.isdir(cdir):
            for fn in sorted(os.listdir(cdir)):
                if fn.endswith(".txt"):
                    vcases.append(("corpus:" + fn[:-4], open(os.path.join(cdir, fn)).read()))
        nv = 120 if ck.thorough() else 14
        vcases += cases[:: max(1, len(cases) // nv)]

        def vrun(c):
            cid, scr = c
            try:
                r = sh(["valgrind", "-q", "--error-exitcode=9", "--track-origins=no", os.path.join(b, "h_solve")], input=scr,
                       timeout=900 if ck.thorough() else 240, env={"QSX_SCRATCH": tmp})
                return cid, scr, r.returncode, r.stderr
            except subprocess.TimeoutExpired:
                return cid, scr, None, ""
        from multiprocessing.pool import ThreadPool
        with ThreadPool(16) as pool:
            vres = pool.map(vrun, vcases)
        vto = 0
        for cid, scr, rc, err in vres:
            if rc is None:
                vto += 1
                continue
            nval += 1
            if rc == 9:
                m = re.search(r"==\d+== (Conditional jump[^\n]*|Use of uninit[^\n]*|Invalid (?:read|write)[^\n]*|Syscall param[^\n]*)\n==\d+==\s+at 0x[0-9A-F]+: (\w+)", err)
                fn = m.group(2) if m else "?"
                ck.violation("valgrind_%s.txt" % cid.replace(":", "_"), scr + "\n# " + err[-1500:].replace("\n", "\n# "),
                             "valgrind memcheck error in %s (case %s)" % (fn, cid), match=dict(kind="memcheck", site=fn))
        ck.cov["valgrind_timeouts"] = vto
        ck.cov["valgrind_cases"] = nval
        ck.sample(dict(case=cases[0][0], script=cases[0][1][:300]))
        ck.sample(dict(case=cases[-1][0], script=cases[-1][1][:300]))
    finally:
        shutil.rmtree(tmp, ignore_errors=True)
    ck.cov["rule"] = ("valid call sequences: LP families x configurations (all entry points, pricing rules, scaling, warm starts) followed by further solves, valid edits, "
                      "accessors, basis calls, LP/MPS writes; reads of valid and malformed files; executed (1) on the ASan+UBSan build with GMP allocations routed to malloc "
                      "(EG_LPNUM_MEMSLAB=0), (2) twice on the plain build in fresh processes with MALLOC_PERTURB_ 85 / 170 and ASLR on, transcripts compared line by line, "
                      "(3) a subset (quick: 14 + corpus, thorough: 120 + corpus) under valgrind memcheck; non-trivial = a case whose script ran to completion; distinct by script")
    ck.cov["evaluations"] = len(cases)
    ck.cov["explanation"] = ("Runtime half of C17 is exercised, not proved: a Gallina model has no heap. The model half (index safety of every modelled array access, "
                             "status/basis array dimensions) lives in the theorems of the store and reader models (C06, C07, C11).")
    ck.cov["not_covered"] = "memory safety outside the explored scripts; uninitialised reads are examined by valgrind on a subset of the scripts only"
    ck.assumptions = ["ASan/UBSan/valgrind as detectors", "GMP itself is trusted"]
    ck.finish()


main_guard(main)
