"""LP generators shared by the solve-domain checks (DESIGN Appendix C).
An LP is a dict: name, max(bool), cols=[(name,obj,lo,up)], rows=[(name,sense,rhs,range,[(j,coef)])]
with Fraction data and the strings 'inf' / '-inf' for absent bounds."""
from fractions import Fraction as F
import itertools

INF, NINF = "inf", "-inf"


def qs(x):
    if isinstance(x, str):
        return x
    x = F(x)
    return str(x.numerator) if x.denominator == 1 else "%d/%d" % (x.numerator, x.denominator)


def lp_block(lp):
    # lp["order"] in (None, "ROWSFIRST", "MIXED"): order in which the harness builds the problem through the API
    out = ["LP %s %s %d %d%s" % (lp.get("name", "p"), "MAX" if lp["max"] else "MIN", len(lp["cols"]), len(lp["rows"]),
                                 " " + lp["order"] if lp.get("order") else "")]
    for (n, o, l, u) in lp["cols"]:
        out.append("COL %s %s %s %s" % (n, qs(o), qs(l), qs(u)))
    for (n, s, r, g, ent) in lp["rows"]:
        out.append("ROW %s %s %s %s %d %s" % (n, s, qs(r), qs(g), len(ent), " ".join("%d %s" % (j, qs(v)) for j, v in ent)))
    return "\n".join(out)


def mk(name, mx, cols, rows):
    return dict(name=name, max=mx,
                cols=[("x%d" % j,) + tuple(c) for j, c in enumerate(cols)],
                rows=[("c%d" % i,) + tuple(r) for i, r in enumerate(rows)])


BOUND_SHAPES = [(0, INF), (NINF, INF), (0, 0), (1, 4), (NINF, 3), (-2, INF), (-5, -1), (2, 2)]


def rand_q(rng, kind="small"):
    if kind == "small":
        return F(rng.randint(-4, 4))
    if kind == "frac":
        return F(rng.randint(-9, 9), rng.randint(1, 7))
    if kind == "awkward":
        return F(rng.randint(-10**6, 10**6), rng.choice([7919, 104729, 1299709, 15485863]))
    if kind == "huge":
        return F(rng.randint(-9, 9)) * F(10) ** rng.randint(-30, 30)
    if kind == "tiny":
        return F(rng.randint(-3, 3)) + F(rng.choice([-1, 1]), 2 ** rng.randint(60, 400))
    return F(rng.randint(-3, 3))


def random_lp(rng, m=None, n=None, kind=None, name="r"):
    m = m if m is not None else rng.randint(1, 5)
    n = n if n is not None else rng.randint(1, 6)
    kind = kind or rng.choice(["small", "small", "frac", "awkward", "huge", "tiny"])
    cols = []
    for j in range(n):
        lo, up = rng.choice(BOUND_SHAPES) if rng.random() < 0.6 else (0, INF)
        cols.append((rand_q(rng, kind), lo, up))
    rows = []
    for i in range(m):
        ent = [(j, rand_q(rng, kind)) for j in range(n) if rng.random() < 0.7]
        ent = [(j, v) for j, v in ent if v != 0]
        s = rng.choice("LGELGR")
        rhs = rand_q(rng, kind)
        rg = F(rng.randint(0, 5)) if s == "R" else F(0)
        rows.append((s, rhs, rg, ent))
    lp = mk(name, rng.random() < 0.5, cols, rows)
    lp["numbers"] = kind
    return lp


def boxed_ranged(rng, name="bx"):
    """every column boxed, most rows ranged, costs of both signs: feasible by construction (rows contain A x0 for a point x0 of
    the box); the dual simplex starts with columns at upper bounds and its long-step ratio test flips boxed columns and ranged
    rows' logicals between their bounds in both directions"""
    m, n = rng.randint(2, 6), rng.randint(3, 8)
    bnds = [rng.choice([(0, 1), (0, 4), (-2, 3), (1, 6), (-5, -1), (0, 10)]) for _ in range(n)]
    x0 = [F(rng.randint(l, u)) for l, u in bnds]
    cols = [(F(rng.choice([-7, -5, -3, -2, -1, 1, 2, 3, 4, 6])), F(l), F(u)) for l, u in bnds]
    # a few columns without lower bound (upper-bounded only, or free): they enter the basis DEcreasing; each of them gets an entry
    # in row 0, which is made ranged or an equation below, so the LP stays bounded (every other column is boxed)
    loose = [j for j in range(n) if rng.random() < 0.25][: max(1, n // 3)] if rng.random() < 0.6 else []
    for j in loose:
        cols[j] = (cols[j][0], NINF, INF if rng.random() < 0.4 else cols[j][2])
    rows = []
    for i in range(m):
        ent = [(j, F(rng.choice([-3, -2, -1, 1, 2, 3, 5]))) for j in range(n) if rng.random() < 0.7 or (i == 0 and j in loose)] or [(i % n, F(1))]
        a = sum(v * x0[j] for j, v in ent)
        s = rng.choice("RRRLGE") if not (i == 0 and loose) else rng.choice("RRE")
        if s == "R":
            lo_, w = a - rng.randint(0, 6), F(rng.randint(1, 9))
            rows.append(("R", lo_, w if a <= lo_ + w else a - lo_ + rng.randint(0, 2), ent))
        elif s == "L":
            rows.append(("L", a + rng.randint(0, 4), F(0), ent))
        elif s == "G":
            rows.append(("G", a - rng.randint(0, 4), F(0), ent))
        else:
            rows.append(("E", a, F(0), ent))
    lp = mk(name, rng.random() < 0.5, cols, rows)
    lp["numbers"] = "small"
    return lp


def planted_lp(rng, m=None, n=None, kind=None, name="pl"):
    """LP built around a primal point x*; rows made tight or slack w.r.t. x*, so it is feasible;
    objective built from a dual vector so the optimum is finite."""
    m = m if m is not None else rng.randint(1, 6)
    n = n if n is not None else rng.randint(1, 7)
    kind = kind or rng.choice(["small", "frac", "awkward", "huge"])
    xs, cols = [], []
    for j in range(n):
        lo, up = rng.choice(BOUND_SHAPES)
        flo = None if lo == NINF else F(lo)
        fup = None if up == INF else F(up)
        where = rng.choice(["lo", "up", "mid"])
        if where == "lo" and flo is not None:
            x = flo
        elif where == "up" and fup is not None:
            x = fup
        else:
            a = flo if flo is not None else (fup - 5 if fup is not None else F(-3))
            b = fup if fup is not None else a + 6
            x = a + (b - a) * F(rng.randint(0, 6), 6)
        xs.append(x)
        cols.append([F(0), lo, up])
    rows, y = [], []
    for i in range(m):
        ent = [(j, rand_q(rng, kind)) for j in range(n) if rng.random() < 0.7]
        ent = [(j, v) for j, v in ent if v != 0]
        act = sum((v * xs[j] for j, v in ent), F(0))
        s = rng.choice("LGER")
        tight = rng.random() < 0.6
        if s == "E":
            rhs, rg, yi = act, F(0), F(rng.randint(-3, 3))
        elif s == "L":
            rhs = act if tight else act + rng.randint(1, 4)
            rg, yi = F(0), (F(-rng.randint(0, 3)) if tight else F(0))
        elif s == "G":
            rhs = act if tight else act - rng.randint(1, 4)
            rg, yi = F(0), (F(rng.randint(0, 3)) if tight else F(0))
        else:
            rg = F(rng.randint(1, 5))
            pos = rng.choice(["lo", "hi", "mid"])
            if pos == "lo":
                rhs, yi = act, F(rng.randint(0, 3))
            elif pos == "hi":
                rhs, yi = act - rg, F(-rng.randint(0, 3))
            else:
                rhs, yi = act - rg / 2, F(0)
        rows.append((s, rhs, rg, ent))
        y.append(yi)
    # objective for MIN: c = A^T y + dz with dz>=0 at lower, <=0 at upper, 0 in between
    mx = rng.random() < 0.5
    for j in range(n):
        aty = sum((v * y[i] for i, (s, r, g, ent) in enumerate(rows) for jj, v in ent if jj == j), F(0))
        lo, up = cols[j][1], cols[j][2]
        dz = F(0)
        if lo != NINF and xs[j] == F(lo) and rng.random() < 0.7:
            dz = F(rng.randint(0, 3))
        elif up != INF and xs[j] == F(up) and rng.random() < 0.7:
            dz = F(-rng.randint(0, 3))
        c = aty + dz
        cols[j][0] = -c if mx else c
    lp = mk(name, mx, cols, rows)
    lp["numbers"] = kind
    return lp


def infeasible_margin(rng, k, name="im"):
    n = rng.randint(1, 3)
    a = [F(rng.randint(1, 5)) for _ in range(n)]
    b = F(rng.randint(-3, 3))
    ent = list(enumerate(a))
    cols = [(F(rng.randint(-2, 2)), NINF if rng.random() < 0.5 else -10, INF if rng.random() < 0.5 else 10) for _ in range(n)]
    rows = [("L", b, F(0), ent), ("G", b + F(1, 2 ** k), F(0), ent)]
    return mk(name, False, cols, rows)


def feasible_margin(rng, k, name="fm"):
    lp = infeasible_margin(rng, k, name)
    (n1, s1, b1, g1, e1), (n2, s2, b2, g2, e2) = lp["rows"]
    lp["rows"] = [(n1, "L", b2, g1, e1), (n2, "G", b1, g2, e2)]
    return lp


def tiny_coef(rng, k, feasible, name="tc"):
    """x1 + 10^-k x2 >= 1, x1 = 0 (equality row), x2 >= 0: feasible only for x2 >= 10^k;
    with an upper bound 10^(k-1) on x2 it is infeasible.  Double precision cannot tell."""
    e = F(1, 10 ** k)
    up = INF if feasible else F(10 ** (k - 1))
    cols = [(F(rng.randint(-1, 1)), 0, INF), (F(rng.randint(0, 2)), 0, up)]
    rows = [("G", F(1), F(0), [(0, F(1)), (1, e)]), ("E", F(0), F(0), [(0, F(1))])]
    if rng.random() < 0.5:
        rows.append(("L", F(rng.randint(3, 9)), F(0), [(0, F(1))]))
    return mk(name, False, cols, rows)


def tiny_bounding(rng, k, name="tb"):
    """max x + y  s.t.  x + 2^-k y <= 1 (+ optionally a harmless row): bounded, optimum 2^k at (0, 2^k) - the only coefficient
    that bounds y is far below every floating-point pivot tolerance up to several hundred bits."""
    e = F(1, 2 ** k)
    cols = [(F(1), 0, INF), (F(1), 0, INF)]
    rows = [("L", F(1), F(0), [(0, F(1)), (1, e)])]
    if rng.random() < 0.5:
        rows.append(("G", F(-rng.randint(1, 5)), F(0), [(0, F(1)), (1, F(-1, 2 ** (k + 3)))]))
    return mk(name, True, cols, rows)


def tiny_pivot(rng, k, name="tp"):
    """max x  s.t.  10^-k x + y <= b,  x - c y >= -d,  x, y >= 0: bounded, optimum b 10^k at y = 0.  The only entry that blocks x
    is far below the pivot tolerances of the first precision levels, and x also has an ordinary-size entry in the other row, so
    that no row / column scaling can repair the column (unlike tiny_bounding)."""
    e = F(1, 10 ** k)
    b, c, d = F(rng.randint(1, 4)), F(rng.randint(1, 3)), F(rng.randint(0, 2))
    if rng.random() < 0.5:
        lp = mk(name, True, [(F(1), 0, INF), (F(0), 0, INF)], [("L", b, F(0), [(0, e), (1, F(1))]), ("G", -d, F(0), [(0, F(1)), (1, -c)])])
    else:       # the minimisation twin, x replaced by -x
        lp = mk(name, False, [(F(1), NINF, 0), (F(0), 0, INF)], [("L", b, F(0), [(0, -e), (1, F(1))]), ("L", d, F(0), [(0, F(1)), (1, c)])])
    lp["numbers"] = "tiny"
    return lp


def tiny_cost(rng, k, name="tk"):
    """ordinary small LPs in which one or two objective coefficients are c 10^-k (below the dual feasibility tolerance of the
    floating-point stages) on columns without a bound on the improving side: the vertex where double precision stops is optimal
    only within its tolerance; the truth is another vertex, or UNBOUNDED"""
    e = F(1, 10 ** k)
    shape = rng.randrange(4)
    a, b = F(rng.randint(1, 3)), F(rng.randint(2, 9))
    if shape == 0:      # min -e x + y, a x + y <= b : optimum -e b / a at (b/a, 0)
        lp = mk(name, False, [(-e, 0, INF), (F(1), 0, INF)], [("L", b, F(0), [(0, a), (1, F(1))])])
    elif shape == 1:    # max e x - y, a x - y <= b
        lp = mk(name, True, [(e, 0, INF), (F(-1), 0, INF)], [("L", b, F(0), [(0, a), (1, F(-1))])])
    elif shape == 2:    # max e x, x - y >= 1 : unbounded
        lp = mk(name, True, [(e, 0, INF), (F(0), 0, INF)], [("G", F(1), F(0), [(0, F(1)), (1, F(-1))])])
    else:               # min x + e y, x + y >= b, y <= 3 b (row) : optimum at y = b ... only the tiny cost separates the vertices
        lp = mk(name, False, [(F(1), 0, INF), (e, 0, INF)], [("G", b, F(0), [(0, F(1)), (1, F(1))]), ("L", 3 * b, F(0), [(1, F(1))])])
    lp["numbers"] = "tiny"
    return lp


def dependent_cols(rng, name="dc"):
    """a planted (feasible, bounded) LP plus free columns that are multiples of existing columns (objective scaled alike):
    status and value are unchanged, but every basis containing a column and its multiple is singular.
    lp["dep_cols"] lists such pairs for the generators of warm-start bases."""
    lp = planted_lp(rng, m=rng.randint(2, 5), n=rng.randint(2, 5), kind=rng.choice(["small", "frac"]), name=name)
    n = len(lp["cols"])
    deps = []
    for _ in range(rng.randint(1, 2)):
        j = rng.randrange(n)
        f = F(rng.choice([-3, -1, 2, 5]), rng.choice([1, 2]))
        k = len(lp["cols"])
        nm, o, lo, up = lp["cols"][j]
        lp["cols"].append(("d%d" % k, o * f, NINF, INF))
        lp["rows"] = [(rn, sn, rh, rg, ent + [(k, v * f) for (c, v) in ent if c == j]) for (rn, sn, rh, rg, ent) in lp["rows"]]
        deps.append((j, k))
    # a free column that occurs in one new row only (which bounds it on the side the objective pushes to): a basis holding
    # the column and that row's logical is singular as well, and the column thrown out by the repair is a free one
    singles = []
    for _ in range(rng.randint(1, 2)):
        k = len(lp["cols"])
        c = F(rng.randint(1, 4))
        t = F(rng.randint(-3, 5))
        a = F(rng.choice([-3, -1, 2, 4]))
        push_up = (c > 0) == lp["max"]                  # the objective wants x_k large
        lp["cols"].append(("s%d" % k, c, NINF, INF))
        # a * x_k (<= or >=) a * t  written so that it bounds x_k from the side it is pushed to
        sense = ("L" if a > 0 else "G") if push_up else ("G" if a > 0 else "L")
        lp["rows"].append(("sr%d" % k, sense, a * t, F(0), [(k, a)]))
        singles.append((k, len(lp["rows"]) - 1))
    ntot = len(lp["cols"])
    lp["dep_cols"] = deps + [(k, ntot + i) for (k, i) in singles]
    return lp


def pick_basic_set(rng, lp):
    """index set (structurals 0..n-1, logicals n..n+m-1) of size m for an arbitrary warm-start basis; when the LP names
    dependent columns, most of the time both members of a pair are made basic (singular basis: the repair path runs)"""
    n, m = len(lp["cols"]), len(lp["rows"])
    idx = list(range(n + m))
    rng.shuffle(idx)
    deps = lp.get("dep_cols") or []
    if deps and m >= 2 and rng.random() < 0.8:
        pair = list(rng.choice(deps))
        idx = pair + [i for i in idx if i not in pair]
    return set(idx[:m])


def face_only(rng, name="fo"):
    n = rng.randint(2, 4)
    ent = [(j, F(1)) for j in range(n)]
    cols = [(F(rng.randint(-2, 2)), 0, INF) for _ in range(n)]
    rows = [("L", F(3), F(0), ent), ("G", F(3), F(0), ent), ("L", F(2), F(0), [(0, F(1))])]
    return mk(name, rng.random() < 0.5, cols, rows)


def degenerate(rng, k=3, name="dg"):
    n = rng.randint(2, 4)
    cols = [(F(-1), 0, INF) for _ in range(n)]
    rows = []
    for i in range(k + n):
        ent = [(j, F(rng.randint(1, 3))) for j in range(n)]
        rows.append(("L", F(0) if i < k else F(rng.randint(1, 5)), F(0), ent))
    return mk(name, False, cols, rows)


def unbounded_lp(rng, hidden=False, name="ub"):
    n = rng.randint(2, 4)
    cols = [(F(-1) if j == 0 else F(rng.randint(0, 2)), 0, INF) for j in range(n)]
    eps = F(1, 10 ** 20) if hidden else F(1)
    rows = [("L", F(4), F(0), [(0, eps * -1), (1, F(1))]), ("G", F(-2), F(0), [(0, F(1)), (1, F(-1))])]
    return mk(name, False, cols, rows)


def beale(name="beale"):
    cols = [(F(-3, 4), 0, INF), (F(150), 0, INF), (F(-1, 50), 0, INF), (F(6), 0, INF)]
    rows = [("L", F(0), F(0), [(0, F(1, 4)), (1, F(-60)), (2, F(-1, 25)), (3, F(9))]),
            ("L", F(0), F(0), [(0, F(1, 2)), (1, F(-90)), (2, F(-1, 50)), (3, F(3))]),
            ("L", F(1), F(0), [(2, F(1))])]
    return mk(name, False, cols, rows)


def near_parallel(rng, k, name="np"):
    e = F(1, 2 ** k)
    cols = [(F(-1), 0, INF), (F(-1), 0, INF)]
    rows = [("L", F(2), F(0), [(0, F(1)), (1, F(1))]), ("L", F(2) + e, F(0), [(0, F(1) + e), (1, F(1))]),
            ("L", F(3), F(0), [(0, F(1)), (1, F(2))])]
    return mk(name, False, cols, rows)


def empty_rows_cols(rng, name="em"):
    lp = random_lp(rng, rng.randint(1, 3), rng.randint(1, 3), "small", name)
    lp["rows"].append(("c_e", rng.choice("LGE"), F(rng.randint(-1, 1)), F(0), []))
    lp["cols"].append(("x_e", F(rng.randint(-1, 1)), 0, rng.choice([INF, 3])))
    return lp


def small_exhaustive(m, n, vals=(-1, 0, 1, 2), limit=None, rng=None):
    """All m x n matrices over vals with fixed simple data, optionally sampled."""
    space = list(itertools.product(vals, repeat=m * n))
    if limit and rng and len(space) > limit:
        space = rng.sample(space, limit)
    for k, t in enumerate(space):
        for senses in itertools.product("LGE", repeat=m):
            cols = [(F(1 if j % 2 == 0 else -1), 0, INF if j % 2 == 0 else 3) for j in range(n)]
            rows = []
            for i in range(m):
                ent = [(j, F(t[i * n + j])) for j in range(n) if t[i * n + j] != 0]
                rows.append((senses[i], F(2 - i), F(0), ent))
            yield mk("ex%d" % k, False, cols, rows)


def family_stream(rng, count, big=False):
    """Mixed stream used by C01-C04."""
    out = _family_stream(rng, count, big)
    for k, lp in enumerate(out):
        if k % 3 == 1:
            lp["order"] = "ROWSFIRST"
        elif k % 3 == 2:
            lp["order"] = "MIXED"
    return out


def _family_stream(rng, count, big=False):
    out = []
    i = 0
    while len(out) < count:
        r = i % 12
        i += 1
        if r in (0, 1, 2):
            out.append(random_lp(rng, name="r%d" % i))
        elif r in (3, 4, 5):
            out.append(planted_lp(rng, name="pl%d" % i, m=rng.randint(3, 12) if big else None, n=rng.randint(3, 14) if big else None))
        elif r == 6:
            out.append(infeasible_margin(rng, rng.choice([1, 10, 60, 200, 1100]), name="im%d" % i))
        elif r == 7:
            out.append(feasible_margin(rng, rng.choice([1, 10, 60, 200, 1100]), name="fm%d" % i))
        elif r == 8:
            out.append(rng.choice([face_only, degenerate])(rng, name="fd%d" % i))
        elif r == 9:
            out.append(unbounded_lp(rng, hidden=rng.random() < 0.5, name="ub%d" % i))
        elif r == 10:
            if (i // 12) % 2 == 0:
                out.append(near_parallel(rng, rng.choice([2, 30, 60, 300]), name="np%d" % i))
            else:
                out.append(tiny_bounding(rng, rng.choice([60, 110, 133, 150, 200, 400]), name="tb%d" % i))
        else:
            v = (i // 12) % 3
            if v == 0:
                out.append(tiny_coef(rng, rng.choice([12, 20, 38, 40, 60, 90]), rng.random() < 0.5, name="tc%d" % i))
            elif v == 1:
                out.append(dependent_cols(rng, name="dc%d" % i))
            else:
                out.append(rng.choice([lambda r_, name: beale(name), empty_rows_cols])(rng, name="mx%d" % i))
    return out


# ----------------------------------------------------------------------------- corpus
import json, os, glob


def lp_to_json(lp):
    return dict(name=lp["name"], max=lp["max"], cols=[[n, qs(o), qs(l), qs(u)] for n, o, l, u in lp["cols"]],
                rows=[[n, s, qs(r), qs(g), [[j, qs(v)] for j, v in ent]] for n, s, r, g, ent in lp["rows"]])


def lp_from_json(d):
    def b(x):
        return x if x in (INF, NINF) else F(x)
    lp = dict(name=d["name"], max=d["max"], cols=[(n, F(o), b(l), b(u)) for n, o, l, u in d["cols"]],
              rows=[(n, s, F(r), F(g), [(j, F(v)) for j, v in ent]) for n, s, r, g, ent in d["rows"]])
    if "numbers" in d:
        lp["numbers"] = d["numbers"]          # generator family of the numbers (kept with corpus entries)
    return lp


def load_corpus(pid):
    base = os.path.join(os.path.dirname(os.path.dirname(os.path.abspath(__file__))), "corpus", pid)
    out = []
    for f in sorted(glob.glob(os.path.join(base, "*.json"))):
        out.append(lp_from_json(json.load(open(f))))
    return out
