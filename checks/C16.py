#!/usr/bin/env python3
"""C16  Copies are faithful and independent.

Proof part: coq/Props/Properties_C16.v (copy in the reference model is the problem itself; frame theorem:
an op on one handle never changes another; histories on the original never show in the copy).
Correspondence / exploration:
 (A) faithfulness: random problems (names partly generated, ranged rows, integer marks, every parameter set),
     mpq_QScopy_prob, then the query-API dump, parameters and names of original and copy are compared with the
     reference model after the copy and after every later op on either handle;
 (B) independence: interleavings of edits / solves (3 entry points) / frees on original and copy in forked children
     of the ASan build: whatever is done to one handle, DUMPALL (problem, parameters, basis, every accessor) of the
     other is unchanged, nothing crashes, and both remain usable;
 (C) reduced precision: QScopy_prob_mpq_dbl and QScopy_prob_mpq_mpf (precisions 64/128/1024) compared entry by
     entry with the rational problem: identical structure, senses, ordering and integer parameters; every finite
     number within one unit in the last place (double: also compared with the model of mpq_get_d); sentinels mapped
     to the target type's infinity; zeros to zeros."""
import sys, os, struct, math
sys.path.insert(0, os.path.dirname(os.path.abspath(__file__)))
from lib import *
from store_common import *
from fractions import Fraction as F


# ----------------------------------------------------------------------------- model of the conversions
MODEL_D = {}      # rational -> (to_double q, ulp_of q) as computed by the extracted Coq model (coq/Float/Conv.v)


def model_double_batch(qs_):
    """ask the extracted Coq model (drv_solve query `todouble`) for to_double / ulp_of of every new rational"""
    todo = sorted(set(q for q in qs_ if q not in MODEL_D), key=lambda q: (q.numerator, q.denominator))
    if not todo:
        return
    tok = lambda q: str(q.numerator) if q.denominator == 1 else "%d/%d" % (q.numerator, q.denominator)
    ans = run_model("drv_solve", "".join("Q %d todouble %s\n" % (i, tok(q)) for i, q in enumerate(todo)), jobs=1)
    for i, q in enumerate(todo):
        a = ans.get(str(i))
        if a is None:
            raise Fail("model query todouble gave no answer for %s" % tok(q))
        MODEL_D[q] = (F(a[0]), F(a[1]))


def expected_double(q):
    """value of mpq_get_d(q) according to the Coq model to_double (truncation toward zero to 53 significant bits,
    theorem to_double_bound); computed by the extracted model, never in Python"""
    if q not in MODEL_D:
        model_double_batch([q])
    return MODEL_D[q][0]


def model_ulp(q):
    if q not in MODEL_D:
        model_double_batch([q])
    return MODEL_D[q][1]


def ulp_of(d):
    """unit in the last place of the double d (as a Fraction)"""
    if d == 0:
        return F(2) ** (-1074)
    a = abs(d)
    e = a.numerator.bit_length() - a.denominator.bit_length()
    if F(2) ** e > a:
        e -= 1
    return F(2) ** (max(e, -1022) - 52)


def hex_to_fraction(h):
    d = struct.unpack(">d", bytes.fromhex(h))[0]
    if math.isinf(d) or math.isnan(d):
        return None
    return F(d)


# ----------------------------------------------------------------------------- (A)
def faithful_case(rng, i, T):
    g = Gen(rng, "h0", tag="a%d_" % i)
    ops = []
    if i % 4 == 0:
        ops.append("CREATE h0 p %s" % rng.choice(["MIN", "MAX"]))
    else:
        ops += g.load(rng.randint(0, 6), rng.randint(0, 6), dens=rng.choice([0.3, 0.8]))
    for _ in range(rng.randint(0, 25)):
        ops += g.op({"QUERY": 0, "QUERYC": 0, "QUERYR": 0, "QCOEF": 0, "SETPARAM": 3, "SETPARAMQ": 3, "MARKINT": 3})
    # every parameter gets a non-default value at least in some cases
    if rng.random() < 0.7:
        ops += ["SETPARAM h0 0 %d" % rng.choice([1, 2, 4]), "SETPARAM h0 2 %d" % rng.choice([6, 8, 9]), "SETPARAM h0 4 %d" % rng.choice([1, 2]),
                "SETPARAM h0 5 %d" % rng.choice([7, 1000]), "SETPARAM h0 7 0", "SETPARAMQ h0 6 %s" % rng.choice(["1024", "1/2"]),
                "SETPARAMQ h0 8 %s" % rng.choice(["123", "7/4"]), "SETPARAMQ h0 9 %s" % rng.choice(["-5", "-1024"])]
    obs = lambda h: ["DUMP %s" % h, "Q %s params" % h, "Q %s counts" % h, "Q %s rownames" % h, "Q %s colnames" % h, "Q %s intflags" % h, "Q %s objsense" % h]
    ops += obs("h0") + ["COPY h0 h1 thecopy", "Q h1 probname"] + obs("h1") + obs("h0")
    # both live on: ops on either handle, both observed after each
    g1 = Gen(rng, "h1", tag="b%d_" % i, numkind=g.kind)
    g1.sh = g.sh.copy()
    for _ in range(rng.randint(3, 20 if T else 12)):
        which = g if rng.random() < 0.5 else g1
        ops += which.op({"QUERY": 0, "QUERYC": 0, "QUERYR": 0, "QCOEF": 0})
        ops += ["DUMP h0", "DUMP h1"]
        if rng.random() < 0.2:
            ops += ["Q h0 params", "Q h1 params"]
    if rng.random() < 0.5:
        ops += ["FREE h0", "DUMP h1", "Q h1 params"] + g1.op({"QUERY": 0, "QUERYC": 0, "QUERYR": 0, "QCOEF": 0}) + ["DUMP h1"]
    else:
        ops += ["FREE h1", "DUMP h0", "Q h0 params"] + g.op({"QUERY": 0, "QUERYC": 0, "QUERYR": 0, "QCOEF": 0}) + ["DUMP h0"]
    return ops


# ----------------------------------------------------------------------------- (B)
SOLVES = ["SOLVE %s PRIMAL", "SOLVE %s DUAL", "SOLVE %s EXACT P"]


def indep_case(rng, i):
    n, m = rng.randint(2, 4), rng.randint(1, 3)
    setup = ["CREATE h0 p %s" % rng.choice(["MIN", "MAX"])]
    for j in range(n):
        setup.append("NEWCOL h0 %d 0 %d c%d" % (rng.randint(-4, 5), rng.randint(3, 9), j))
    for r in range(m):
        ent = " ".join("%d %d" % (j, rng.randint(1, 4)) for j in range(n))
        setup.append(("ADDRROW h0 %d R %d r%d %d %s" % (rng.randint(1, 3), rng.randint(3, 8), r, n, ent)) if r == 1 else
                     ("ADDROW h0 %d %s r%d %d %s" % (rng.randint(6, 20), rng.choice("LLG"), r, n, ent)))
    pre_solved = rng.random() < 0.7
    if pre_solved:
        setup.append(rng.choice(SOLVES) % "h0")
    if rng.random() < 0.3:
        setup.append("SETPARAM h0 2 %d" % rng.choice([6, 9]))
    setup.append("COPY h0 h1 cp")
    steps = []
    alive = {"h0": True, "h1": True}
    nn, mm = {"h0": n, "h1": n}, {"h0": m, "h1": m}
    for k in range(rng.randint(3, 9)):
        live = [h for h in alive if alive[h]]
        if not live:
            break
        t = rng.choice(live)
        other = "h1" if t == "h0" else "h0"
        a = rng.choice(["edit", "edit", "solve", "solve", "free"] if len(live) == 2 else ["edit", "solve", "solve"])
        if a == "edit":
            kind = rng.choice(["CHGRHS", "CHGOBJ", "CHGBND", "ADDROW", "DELROW", "NEWCOL", "CHGCOEF", "DELCOL", "CHGSENSE", "LOADBASIS"])
            if kind == "CHGRHS" and mm[t]:
                op = "CHGRHS %s %d %d" % (t, rng.randrange(mm[t]), rng.randint(1, 9))
            elif kind == "CHGOBJ" and nn[t]:
                op = "CHGOBJ %s %d %d" % (t, rng.randrange(nn[t]), rng.randint(-5, 5))
            elif kind == "CHGBND" and nn[t]:
                op = "CHGBND %s %d U %d" % (t, rng.randrange(nn[t]), rng.randint(2, 12))
            elif kind == "ADDROW" and nn[t]:
                op = "ADDROW %s %d L - %d %s" % (t, rng.randint(5, 30), nn[t], " ".join("%d 1" % j for j in range(nn[t])))
                mm[t] += 1
            elif kind == "DELROW" and mm[t] > 1:
                op = "DELROW %s %d" % (t, rng.randrange(mm[t]))
                mm[t] -= 1
            elif kind == "NEWCOL":
                op = "NEWCOL %s %d 0 4 -" % (t, rng.randint(-3, 3))
                nn[t] += 1
            elif kind == "CHGCOEF" and nn[t] and mm[t]:
                op = "CHGCOEF %s %d %d %d" % (t, rng.randrange(mm[t]), rng.randrange(nn[t]), rng.randint(1, 5))
            elif kind == "DELCOL" and nn[t] > 1:
                op = "DELCOL %s %d" % (t, rng.randrange(nn[t]))
                nn[t] -= 1
            elif kind == "CHGSENSE" and mm[t]:
                op = "CHGSENSE %s %d %s" % (t, rng.randrange(mm[t]), rng.choice("LG"))
            elif kind == "LOADBASIS":
                op = "LOADBASISARR %s %s %s" % (t, "0" * nn[t] or "-", "1" * mm[t] or "-")
            else:
                op = "CHGOBJSENSE %s %s" % (t, rng.choice(["MIN", "MAX"]))
        elif a == "solve":
            op = rng.choice(SOLVES) % t
        else:
            op = "FREE %s" % t
            alive[t] = False
        steps.append((t, other if alive[other] else None, op))
    # finally everything alive is used and released
    tail = []
    for h in alive:
        if alive[h]:
            tail += [rng.choice(SOLVES) % h, "ACCESS %s" % h, "DUMP %s" % h]
    for h in alive:
        if alive[h]:
            tail.append("FREE %s" % h)
    body = list(setup)
    for k, (t, other, op) in enumerate(steps):
        if other:
            body += ["ECHO pre %d" % k, "DUMPALL %s" % other]
        body += ["ECHO op %d" % k, op]
        if other:
            body += ["ECHO post %d" % k, "DUMPALL %s" % other]
    body += ["ECHO tail"] + tail + ["ECHO done"]
    return setup, steps, body, pre_solved


# ----------------------------------------------------------------------------- (C)
AWKWARD = ["1/3", "-2/7", "1/10", "123456789/1000", "1000000000000000000000000000000", "1/1000000000000000000000000000000", "9007199254740993", "-9007199254740993/2",
           "18014398509481985/18014398509481984", "0", "1", "-1", "3/4", "340282366920938463463374607431768211457/3",
           "1/179769313486231590772930519078902473361797697894230657273430081157732675805500963132708477322407536021120113879871393357658789768814416622492847430639474124377767893657175190134438908828493699",
           "7/5", "22/7", "-355/113"]


def precision_case(rng, i):
    n, m = rng.randint(0, 5), rng.randint(0, 4)
    if i == 0:
        n = m = 0
    q = lambda: rng.choice(AWKWARD) if rng.random() < 0.7 else qs(rand_q(rng, rng.choice(["frac", "awkward", "huge", "tiny"])))
    ops = ["CREATE h0 p %s" % rng.choice(["MIN", "MAX"])]
    for j in range(n):
        lo = rng.choice(["-inf", "0", q()])
        up = rng.choice(["inf", "inf", q()])
        ops.append("NEWCOL h0 %s %s %s v%d" % (q(), lo, up, j))
    for r in range(m):
        idx = [j for j in range(n) if rng.random() < 0.8]
        if idx and rng.random() < 0.2:
            idx.append(rng.choice(idx))
        ent = "%d %s" % (len(idx), " ".join("%d %s" % (j, q()) for j in idx))
        if rng.random() < 0.35:
            ops.append("ADDRROW h0 %s R %s w%d %s" % (q(), rng.choice(AWKWARD[:6] + ["inf", "0"]), r, ent))
        else:
            ops.append("ADDROW h0 %s %s w%d %s" % (q(), rng.choice("LGE"), r, ent))
    if n and m and rng.random() < 0.5:
        ops.append("CHGCOEF h0 %d %d 0" % (rng.randrange(m), rng.randrange(n)))        # an explicitly stored zero
    if rng.random() < 0.6:
        ops += ["SETPARAM h0 0 %d" % rng.choice([1, 2, 4]), "SETPARAM h0 2 %d" % rng.choice([6, 8, 9]), "SETPARAM h0 5 %d" % rng.choice([7, 1000]),
                "SETPARAM h0 7 %d" % rng.choice([0, 1]), "SETPARAM h0 4 %d" % rng.choice([0, 1]), "SETPARAMQ h0 6 %s" % rng.choice(["1024", "1/3"]),
                "SETPARAMQ h0 8 %s" % rng.choice(["123", "1/3", "inf"]), "SETPARAMQ h0 9 %s" % rng.choice(["-5", "-1/3", "-inf"])]
    prec = rng.choice([64, 128, 1024])
    ops += ["DUMP h0", "Q h0 rrows", "Q h0 params", "COPYDBL h0 d0", "DUMPDBL d0", "PRECISION %d" % prec, "COPYMPF h0 f0", "DUMPMPF f0", "FREEDBL d0", "FREEMPF f0", "PRECISION 128", "FREE h0"]
    return ops, prec


def parse_q(tok, Mq):
    if tok == "inf":
        return Mq
    if tok == "-inf":
        return -Mq
    return F(tok)


def check_precision(ck, cid, ops, prec, rec, Mq, stats, report):
    """rec: records of the case (C side); compares dbl and mpf dumps with the rational dump entry by entry"""
    byop = dict()
    for o, r in zip(ops, rec[1:]):
        byop.setdefault(o.split()[0] + (":" + o.split()[2] if o.startswith("Q ") else ""), r)
    dump = byop.get("DUMP")
    dd, fd = byop.get("DUMPDBL"), byop.get("DUMPMPF")
    if not dump or dump[0][0] != "ULP" or not dd or dd[0][0] != "DLP" or not fd or fd[0][0] != "FLP":
        report("precision-copy-failed", cid, "a reduced-precision copy could not be made or dumped: %s / %s" % (dd and dd[0][:3], fd and fd[0][:3]))
        return
    params = rec[1 + ops.index("Q h0 params")][0][4:]
    ucols = [l for l in dump if l[0] == "UC"]
    urows = [l for l in dump if l[0] == "UR"]

    def cmp_struct(kind, hdr, cols, rows):
        if hdr[1:4] != dump[0][1:4]:
            report("precision-structure", cid, "%s copy: header %s vs %s" % (kind, hdr[1:4], dump[0][1:4]))
            return False
        if len(cols) != len(ucols) or len(rows) != len(urows):
            report("precision-structure", cid, "%s copy: counts differ" % kind)
            return False
        for r_, u in zip(rows, urows):
            k = int(u[5])
            if r_[2] != u[2] or int(r_[5]) != k or r_[6:6 + 2 * k:2] != u[6:6 + 2 * k:2]:
                report("precision-structure", cid, "%s copy: row %s sense/count/indices differ: %s vs %s" % (kind, u[1], r_[:12], u[:12]))
                return False
        return True

    def entries(cols, rows):
        """pairs (rational token, converted token, role)"""
        out = []
        for c_, u in zip(cols, ucols):
            out += [(u[2], c_[2], "obj"), (u[3], c_[3], "lower"), (u[4], c_[4], "upper")]
        for r_, u in zip(rows, urows):
            out += [(u[3], r_[3], "rhs"), (u[4], r_[4], "range")]
            k = int(u[5])
            out += [(a, b, "coef") for a, b in zip(u[7:7 + 2 * k:2], r_[7:7 + 2 * k:2])]
        return out
    # ---- double
    dcols, drows = [l for l in dd if l[0] == "DC"], [l for l in dd if l[0] == "DR"]
    dinf = [l for l in dd if l[0] == "DINF"][0]
    if cmp_struct("dbl", dd[0], dcols, drows):
        model_double_batch([F(qt) for qt, dt, role in entries(dcols, drows) if qt not in ("inf", "-inf")])
        for qt, dt, role in entries(dcols, drows):
            stats["dbl_entries"] += 1
            if qt in ("inf", "-inf"):
                stats["dbl_sentinels"] += 1
                if dt != (dinf[1] if qt == "inf" else dinf[2]):
                    report("dbl-sentinel", cid, "%s %s converted to %s, not to dbl_ILL_%sDOUBLE %s" % (role, qt, dt, "MAX" if qt == "inf" else "MIN", dinf[1]))
                continue
            qv = F(qt)
            dv = hex_to_fraction(dt)
            if dv is None:
                report("dbl-bound", cid, "%s %s converted to a non-finite double %s" % (role, qt, dt))
                continue
            if qv == 0:
                stats["dbl_zeros"] += 1
                if dv != 0:
                    report("dbl-zero", cid, "%s 0 converted to %s" % (role, dt))
                continue
            if not abs(dv - qv) < ulp_of(dv) or not abs(dv - qv) < model_ulp(qv) or abs(dv) > abs(qv):
                report("dbl-bound", cid, "%s %s converted to %s: error %s >= 1 ulp (ulp of the model: %s)" % (role, qt[:60], dt, float(abs(dv - qv)), float(model_ulp(qv))))
            if dv != expected_double(qv):
                report("dbl-model", cid, "%s %s converted to %s, the model of mpq_get_d (truncation to 53 bits) gives %s" % (role, qt[:60], dt, float(expected_double(qv))))
        dp = [l for l in dd if l[0] == "DP"][0][1:]
        ints_d = [t for t in dp if t.split("=")[0] in ("0", "2", "4", "5", "7")]
        ints_q = [t for t in params if t.split("=")[0] in ("0", "2", "4", "5", "7")]
        if ints_d != ints_q:
            report("dbl-params", cid, "integer parameters of the dbl copy %s differ from the original %s" % (ints_d, ints_q))
        # numeric parameters: "6=0:" <hex> tokens come in pairs in the dbl dump
        numq = {t.split("=")[0]: t.split(":", 1)[1] for t in params if t.split("=")[0] in ("6", "8", "9")}
        for k_, tok in zip([t.split("=")[0] for t in dp if t.split("=")[0] in ("6", "8", "9") and t.endswith(":")], [t for t in dp if len(t) == 16 and "=" not in t]):
            stats["dbl_params"] += 1
            qv = parse_q(numq[k_], Mq)
            dv = hex_to_fraction(tok)
            if dv is None or not abs(dv - qv) <= ulp_of(dv):
                report("dbl-params", cid, "parameter %s = %s converted to %s (more than 1 ulp)" % (k_, numq[k_][:40], tok))
    # ---- mpf
    fcols, frows = [l for l in fd if l[0] == "FC"], [l for l in fd if l[0] == "FR"]
    finf = [l for l in fd if l[0] == "FINF"][0]
    fprec = int(fd[0][4])
    if fprec != prec:
        report("mpf-precision", cid, "mpf default precision %d, requested %d" % (fprec, prec))
    if cmp_struct("mpf", fd[0], fcols, frows):
        for qt, ft, role in entries(fcols, frows):
            stats["mpf_entries"] += 1
            if qt in ("inf", "-inf"):
                if ft != (finf[1] if qt == "inf" else finf[2]):
                    report("mpf-sentinel", cid, "%s %s converted to %s..., not to mpf_ILL_%sDOUBLE" % (role, qt, ft[:30], "MAX" if qt == "inf" else "MIN"))
                continue
            qv, fv = F(qt), F(ft)
            if qv == 0:
                if fv != 0:
                    report("mpf-zero", cid, "%s 0 converted to %s" % (role, ft[:30]))
                continue
            a = abs(qv)
            e = a.numerator.bit_length() - a.denominator.bit_length()
            if F(2) ** e > a:
                e -= 1
            if not abs(fv - qv) < F(2) ** (e + 1 - prec):
                report("mpf-bound", cid, "%s %s converted with error >= 2^(e+1-prec), prec %d" % (role, qt[:60], prec))
            if (fv > 0) != (qv > 0) or abs(fv) > abs(qv):
                report("mpf-bound", cid, "%s %s: mpf_set_q did not truncate toward zero" % (role, qt[:60]))
        fp = [l for l in fd if l[0] == "FP"][0][1:]
        ints_f = [t for t in fp if t.split("=")[0] in ("0", "2", "4", "5", "7")]
        ints_q = [t for t in params if t.split("=")[0] in ("0", "2", "4", "5", "7")]
        if ints_f != ints_q:
            report("mpf-params", cid, "integer parameters of the mpf copy %s differ from the original %s" % (ints_f, ints_q))


def main():
    ck = Check("C16", "proof")
    build_repo()
    pr = ck.proofs()
    rng = ck.rng
    T = ck.thorough()
    found = {}

    def report(kind, cid, text, replay=None, match=None):
        found.setdefault(kind if match is None else (kind,) + tuple(sorted(match.items())), []).append((cid, text, replay, match or dict(kind=kind)))
    # ---- (A) faithfulness + model correspondence
    casesA = [("a%d" % i, faithful_case(rng, i, T)) for i in range(500 if T else 60)]
    # the copy must accept what the original accepts (row named like the invented objective name)
    casesA.append(("aobj", ["CREATE h0 p MIN", "NEWCOL h0 1 0 1 x", "NEWROW h0 1 L r", "DUMP h0", "COPY h0 h1 thecopy", "DUMP h1", "NEWROW h0 2 G obj", "NEWROW h1 2 G obj",
                            "DUMP h0", "DUMP h1", "COPY h1 h2 c2", "NEWROW h2 3 E obj_0", "DUMP h2"]))
    M, crec, mrec, crashes = run_cases_both(casesA, per_case_timeout=120)
    Mq = F(M)
    nA = dict(cases=0, ops=0, copies=0)
    for cid, ops in casesA:
        if cid not in crec or cid not in mrec:
            crashed, sig = crash_signature(ops)
            report("crash", cid, "library crashed in a copy history: %s" % sig, "\n".join(ops), dict(kind="crash", site=crash_site(sig)))
            continue
        nA["cases"] += 1
        nA["ops"] += len(ops)
        ck.count((cid, tuple(ops)))
        copy_at = ops.index("COPY h0 h1 thecopy")
        for (k, kind, detail) in compare_case(ops, crec[cid], mrec[cid]):
            if kind in ("nzcount",) or (kind == "valid-rejected" and ops[k].split()[2:3] in (["rownames"], ["colnames"])):
                continue        # C06's known findings, not about copies
            if kind == "invalid-accepted":
                break
            o = ops[k].split()
            what = "Q:" + o[2] if o[0] == "Q" else o[0]
            phase = "before-copy" if k < copy_at else ("at-copy" if k <= copy_at + 9 else "after-copy")
            if phase == "before-copy":
                continue        # not C16's business (C06)
            whatkey = what + (":" + o[1] if o[0] in ("Q", "DUMP") else "")
            if what == "Q:params":
                # which parameters differ: the limits (5 iterations, 6 time, 8/9 objective limits) are the known finding, anything else is new
                pc, pm = rec_payload(crec[cid][k + 1]), rec_payload(mrec[cid][k + 1])
                ids = [a.split("=")[0] for a, b in zip(pc, pm) if a != b]
                whatkey += ":limits" if set(ids) <= {"5", "6", "8", "9"} else ":" + ",".join(ids)
            report("copy-" + kind, cid, "op %d `%s` (%s): %s" % (k, ops[k][:60], phase, detail), "\n".join(ops[:k + 1]),
                   dict(kind="copy-" + kind, what=whatkey))
            break
    # ---- (B) independence under solves and frees (ASan, forked)
    casesB = []
    for i in range(400 if T else 60):
        setup, steps, body, pre = indep_case(rng, i)
        casesB.append(("b%d" % i, setup, steps, body, pre))
    text = "".join("CASE %s\nRESET\nFORK %d\n%s\n" % (cid, len(body), "\n".join(body)) for cid, _, _, body, _ in casesB)
    rc, out, err = run_c(text, asan=True, timeout=3000)
    if rc != 0:
        raise Fail("h_store died outside a fork in part B: rc=%d %s" % (rc, err[-500:]))
    nB = dict(cases=0, steps=0, pre_solved=0, crashes=0, changed=0)
    sec = {}
    cur = None
    for l in out.splitlines():
        if l.startswith("CASE "):
            cur = l.split()[1]
            sec[cur] = []
        elif cur:
            sec[cur].append(l)
    for cid, setup, steps, body, pre in casesB:
        lines = sec.get(cid, [])
        nB["cases"] += 1
        nB["pre_solved"] += 1 if pre else 0
        ck.count((cid, tuple(body)))
        marks, curm, end = {}, None, None
        for l in lines:
            if l.startswith("ECHO "):
                curm = " ".join(l.split()[1:])
                marks[curm] = []
            elif l.startswith("FORKEND"):
                end = l
            elif curm is not None:
                marks[curm].append(l)
        replay = "CASE replay\nRESET\nFORK %d\n%s\n" % (len(body), "\n".join(body))
        if end is None or "CRASH" in end or "done" not in marks:
            nB["crashes"] += 1
            lastm = list(marks)[-1] if marks else "setup"
            k = int(lastm.split()[1]) if lastm.split()[0] in ("pre", "op", "post") else None
            culprit = steps[k][2].split()[0] if k is not None else lastm
            sig = (end or "no FORKEND")[8:200]
            site = crash_site("@ " + sig.split(" in ")[-1] + " qsopt_ex/") if " in " in sig else crash_site(sig)
            report("copy-crash", cid, "%s copy of a %s problem, then `%s`: %s" % ("QScopy_prob", "solved" if pre else "fresh", steps[k][2] if k is not None else lastm, sig), replay,
                   dict(kind="copy-crash", presolved=pre))
            continue
        for k, (t, other, op) in enumerate(steps):
            if other is None:
                continue
            nB["steps"] += 1
            b, a = marks.get("pre %d" % k), marks.get("post %d" % k)
            b2, a2 = [l for l in b if not l.startswith("ACC state")], [l for l in a if not l.startswith("ACC state")]
            if b2 != a2:
                nB["changed"] += 1
                report("not-independent", cid, "`%s` on %s changed what is observed of %s: %s" % (op, t, other, first_diff(b2, a2)), replay,
                       dict(kind="not-independent", op=op.split()[0]))
                break
    # ---- (C) reduced-precision copies
    casesC, precs = [], {}
    for i in range(600 if T else 80):
        ops, prec = precision_case(rng, i)
        casesC.append(("p%d" % i, ops))
        precs["p%d" % i] = prec
    texts = [(cid, "CASE %s\nRESET\n" % cid + "\n".join(ops) + "\n") for cid, ops in casesC]
    _, crecC, crashesC = run_cases_raw("h_store", texts, per_case_timeout=60)
    nC = dict(cases=0, dbl_entries=0, dbl_sentinels=0, dbl_zeros=0, dbl_params=0, mpf_entries=0)
    for cid, ops in casesC:
        if cid not in crecC or len(crecC[cid]) < len(ops) + 1:
            report("crash", cid, "library crashed while making a reduced-precision copy", "\n".join(ops), dict(kind="crash", site="precision-copy"))
            continue
        nC["cases"] += 1
        ck.count((cid, tuple(ops)))
        check_precision(ck, cid, ops, precs[cid], crecC[cid], Mq, nC, lambda kind, cid_, text_: report(kind, cid_, text_, "\n".join(dict(casesC)[cid_])))
    # ---- report
    for key, items in sorted(found.items(), key=lambda kv: str(kv[0])):
        cid, text_, replay, match = items[0]
        name = key if isinstance(key, str) else key[0] + "_" + "_".join(str(v) for _, v in key[1:])
        ck.violation("%s_%s.txt" % (name.replace(":", "-").replace("/", "-")[:80], cid), (replay or "") + "\n# %s\n# %d cases: %s\n" % (text_, len(items), [it[0] for it in items[:15]]),
                     "C16 %s (%d cases)" % (text_, len(items)), match=match)
    ck.sample(dict(case="a1", script=casesA[1][1][:10]))
    ck.sample(dict(case="b0", script=casesB[0][3][:16]))
    ck.sample(dict(case="p1", script=casesC[1][1]))
    if not pr["ok"]:
        ck.violation("proof.txt", pr["log"], "proof obligation(s) of Properties_C16.v no longer check: %s" % pr["failed"], no_input=not ck.violations)
    ck.cov["rule"] = ("(A) random problems incl. empty ones, ranged rows, integer marks, all parameters set; copy; original and copy compared with the reference model (dump, parameters, names) after "
                      "the copy and after every later op on either handle; (B) interleavings of edits/solves/frees on original and copy in forked ASan children with DUMPALL of the untouched "
                      "handle before/after every step; (C) dbl and mpf copies (precision 64/128/1024) compared entry by entry with the rational problem. Distinct by script text")
    ck.cov["evaluations"] = nA["cases"] + nB["cases"] + nC["cases"]
    ck.cov["faithfulness"] = nA
    ck.cov["independence"] = nB
    ck.cov["reduced_precision"] = nC
    ck.cov["finding_groups"] = {str(k): len(v) for k, v in found.items()}
    ck.cov["traces_validated_against_impl"] = nA["ops"]
    ck.cov["conversion_model"] = "coq/Float/Conv.v to_double / ulp_of (theorem to_double_bound), evaluated by the extracted model (drv_solve query todouble) on every finite entry: %d distinct rationals" % len(MODEL_D)
    ck.assumptions = ["Coq kernel; extraction + OCaml for the copy/frame model", "ASan/UBSan for sharing of heap state (only observable through behaviour)",
                      "IEEE-754 binary64 doubles; exactness of Python Fractions", "the mpf bound is checked in exact arithmetic, no limb-level model of mpf_set_q"]
    ck.finish(trusted_base=["coqc 8.16.1 kernel", "OCaml extraction", "gcc ASan+UBSan runtime", "harness h_store.c + drv_store + drv_solve (todouble) + checks/C16.py"],
              extra=dict(not_covered="the mpf conversion bound is checked in exact arithmetic against the definition of truncation, not against a Coq model of mpf_set_q; sharing of heap state is only observable through behaviour; "
                                     "reporter callbacks and the objective name of copies are not compared"))


main_guard(main)
