"""Correspondence Float/Conv.v (to_double) vs GMP's mpq_get_d, used by C16."""
from fractions import Fraction as F
from lib import *


def gen_rationals(rng, n):
    out = [F(0), F(1), F(-1), F(1, 3), F(1, 10), F(-2, 7), F(2) ** 52, F(2) ** 53 + 1, F(2) ** 53 - 1, F(2) ** -1074, F(3, 2) * F(2) ** -1074,
           F(2) ** 1023, (F(2) ** 53 - 1) * F(2) ** 971, F(2) ** -1022, F(10) ** 30 + 1, F(1, 10 ** 30)]
    while len(out) < n:
        k = rng.choice(["small", "big", "tiny", "pow", "dense"])
        if k == "small":
            q = F(rng.randint(-10 ** 6, 10 ** 6), rng.randint(1, 10 ** 6))
        elif k == "big":
            q = F(rng.randint(-10 ** 40, 10 ** 40), rng.randint(1, 10 ** 3)) * F(10) ** rng.randint(0, 250)
        elif k == "tiny":
            q = F(rng.randint(-10 ** 20, 10 ** 20), rng.randint(1, 10 ** 25)) / F(10) ** rng.randint(0, 290)
        elif k == "pow":
            q = (F(2) ** rng.randint(-1070, 1020)) * (1 + F(rng.choice([-1, 0, 1]), 2 ** rng.randint(50, 60)))
        else:
            q = F(rng.getrandbits(200) - 2 ** 199, rng.getrandbits(190) + 1)
        out.append(q)
    return out


def conv_correspondence(ck, n):
    """returns (#compared, list of (q, C value, model value) mismatches)"""
    qs_ = gen_rationals(ck.rng, n)
    tok = lambda q: str(q.numerator) if q.denominator == 1 else "%d/%d" % (q.numerator, q.denominator)
    rc, out, err = run_harness("h_solve", "".join("GETD %s\n" % tok(q) for q in qs_))
    cvals = [l.split()[1] for l in out.splitlines() if l.startswith("GETD ")]
    ans = run_model("drv_solve", "".join("Q %d todouble %s\n" % (i, tok(q)) for i, q in enumerate(qs_)))
    bad = []
    for i, q in enumerate(qs_):
        if i >= len(cvals) or str(i) not in ans:
            continue
        c, m = F(cvals[i]), F(ans[str(i)][0])
        u = F(ans[str(i)][1])
        if c != m or abs(q - m) >= (u if q != 0 else 1) or abs(m) > abs(q):
            bad.append((tok(q), str(c), str(m)))
    return len(qs_), bad
