(* Model-side driver for the solve domain.  Queries on stdin:
     M <p/q>
     Q <id> kkt <inf|lit>  ; ILP block ; Z .. ; Y .. ; V v
     Q <id> farkas <inf|lit> ; ILP block ; Y ..
     Q <id> ray <inf|lit> ; ILP block ; Z .. ; D ..
   Answers: A <id> <result...> *)
open Model
open Glue

let infp_of s = if s = "lit" then inf_none else inf_sentinel !sentinel

let expect ic tag = match next_tokens ic with
  | Some (t :: r) when t = tag -> r
  | _ -> failwith ("expected " ^ tag)

let () =
  let ic = stdin in
  let rec loop () =
    match next_tokens ic with
    | None -> ()
    | Some [ "M"; m ] -> sentinel := q_of_string m; loop ()
    | Some ("Q" :: id :: kind :: args) ->
      (try
        (match kind, args with
         | "kkt", [ sem ] ->
           let hdr = (match next_tokens ic with Some h -> h | None -> failwith "eof") in
           let (p, _) = read_ilp ic hdr in
           let z = qlist (expect ic "Z") in
           let y = qlist (expect ic "Y") in
           let v = (match expect ic "V" with [ v ] -> q_of_string v | _ -> failwith "V") in
           Printf.printf "A %s %s\n" id (string_of_bool (check_kkt (infp_of sem) p z y v))
         | "farkas", [ sem ] ->
           let hdr = (match next_tokens ic with Some h -> h | None -> failwith "eof") in
           let (p, _) = read_ilp ic hdr in
           let y = qlist (expect ic "Y") in
           Printf.printf "A %s %s\n" id (string_of_bool (check_farkas (infp_of sem) p y))
         | "ray", [ sem ] ->
           let hdr = (match next_tokens ic with Some h -> h | None -> failwith "eof") in
           let (p, _) = read_ilp ic hdr in
           let z = qlist (expect ic "Z") in
           let d = qlist (expect ic "D") in
           Printf.printf "A %s %s\n" id (string_of_bool (check_ray (infp_of sem) p z d))
         | "opttest", [] ->
           let hdr = (match next_tokens ic with Some h -> h | None -> failwith "eof") in
           let (p, ns) = read_ilp ic hdr in
           let (cs, rs) = (match expect ic "BAS" with [ c; r ] -> (c, r) | _ -> failwith "BAS") in
           let x = qlist (expect ic "X") in
           let y = qlist (expect ic "Y") in
           let b = { cstat = bstats_of_string cs; rstat = bstats_of_string rs } in
           (match opt_test p (nat_of_int ns) b x y with
            | None -> Printf.printf "A %s none\n" id
            | Some s -> Printf.printf "A %s some %s | %s | %s | %s | %s\n" id (string_of_q s.sval) (qs_join s.sx) (qs_join s.spi) (qs_join s.sslack) (qs_join s.src))
         | "inftest", [] ->
           let hdr = (match next_tokens ic with Some h -> h | None -> failwith "eof") in
           let (p, _) = read_ilp ic hdr in
           let y = qlist (expect ic "Y") in
           Printf.printf "A %s %s\n" id (string_of_bool (infeas_test !sentinel p y))
         | "dz", [] ->
           let hdr = (match next_tokens ic with Some h -> h | None -> failwith "eof") in
           let (p, _) = read_ilp ic hdr in
           let y = qlist (expect ic "Y") in
           Printf.printf "A %s %s\n" id (String.concat " " (List.map (fun c -> string_of_q (dz_l y c)) p.i_cols))
         | "toint", [] ->
           (* ILP block (as dumped from the library's internal arrays) then ULP block (query API):
              true iff to_internal(ULP) denotes the same internal LP *)
           let hdr = (match next_tokens ic with Some h -> h | None -> failwith "eof") in
           let (p, _) = read_ilp ic hdr in
           let hdr = (match next_tokens ic with Some h -> h | None -> failwith "eof") in
           let (u, _, _) = read_ulp ic hdr in
           Printf.printf "A %s %s\n" id (string_of_bool (wf_ulp u && ilp_eqb (to_internal !sentinel u) p))
         | _ -> Printf.printf "A %s UNKNOWN-QUERY\n" id)
      with Failure m -> Printf.printf "A %s PARSE-ERROR %s\n" id m);
      flush stdout; loop ()
    | Some _ -> loop ()
  in loop ()
