(* Model-side driver for the solve domain.  Queries on stdin:
     M <p/q>
     Q <id> kkt <inf|lit>  ; ILP block ; Z .. ; Y .. ; V v
     Q <id> farkas <inf|lit> ; ILP block ; Y ..
     Q <id> ray <inf|lit> ; ILP block ; Z .. ; D ..
   Answers: A <id> <result...> *)
open Model
open Glue

let infp_of s = if s = "lit" then inf_none else inf_sentinel !sentinel

(* ---- replay of a recorded decision trace of QSexact_solver through the extracted driver model ----
   Q <id> trace <algo P|D> <ebasis 0|1> <n> (<event> <level> <value>)*n
   answer: A <id> <rval 0|1> <status code> <exit label> *)
(* numeric codes come from the headers through Gen/Consts.v -> LP/Codes.v *)
let lpstat_of_int i = lpstat_of_code (coqz_of_z (BZ.of_int i))
let int_of_lpstat s = BZ.to_int (z_of_coqz (code_of_lpstat s))
let string_of_exit e = match e with
  | ExitTest l -> Printf.sprintf "test%d" (int_of_nat l)
  | ExitRetest l -> Printf.sprintf "retest%d" (int_of_nat l)
  | ExitObjLimit l -> Printf.sprintf "objlimit%d" (int_of_nat l)
  | ExitError l -> Printf.sprintf "error%d" (int_of_nat l)
  | ExitLadderExhausted -> "exhausted"

let replay_trace (algo : string) (eb : bool) (ev : (int * int * int) list) =
  let find e l = List.find_opt (fun (e', l', _) -> e' = e && l' = l) ev in
  let value e l d = match find e l with Some (_, _, v) -> v | None -> d in
  let qi i = { qnum = coqz_of_z (BZ.of_int i); qden = XH } in
  let lvl_basis l = { cstat = List.init l (fun _ -> BLower); rstat = [] } in
  let dummy = { sx = []; spi = []; src = []; sslack = []; sval = qi 0 } in
  let float_solve lvl _ _ =
    let l = int_of_nat lvl in
    { f_fail = (find 1 l <> None); f_status = lpstat_of_int (value 2 l 0); f_iter = nat_of_int (min 2 (value 3 l 0)); (* only zero / non-zero matters *)
      f_x = [ qi 0 ]; f_y = []; f_basis = lvl_basis l;
      f_infeas = (if find 7 l <> None || (find 8 l = None && value 2 l 0 = 2) then None else Some [ qi l; qi 0 ]) } in
  let basis_status b =
    let l = List.length b.cstat in
    { e_fail = (find 5 l = None); e_status = lpstat_of_int (value 5 l 0); e_x = [ qi 1 ]; e_y = [];
      e_infeas = (if find 9 l = None && value 5 l 0 = 2 then None else Some [ qi l; qi 1 ]) } in
  let otest b x _ =
    let l = List.length b.cstat in
    let first = (match x with [ v ] -> qeq_bool v (qi 0) | _ -> true) in
    if value (if first then 4 else 6) l 0 = 1 then Some dummy else None in
  let itest y = match y with
    | [ l; k ] -> let l = BZ.to_int (z_of_coqz l.qnum) in
      value (if qeq_bool k (qi 0) then 8 else 9) l 0 = 1
    | _ -> false in
  let ebasis = if eb then Some (lvl_basis 0) else None in
  exact_solver_gen otest itest float_solve basis_status ebasis max_levels (if algo = "D" then DualS else PrimalS)

(* ---- C15: apply a verified reformulation to a user LP -------------------------------------
   Q <id> xform <kind> <args...> ; ULP block
   kinds: negobj | scalerow i l | duprow i | redundant i d | spliteq i | permrows i0 i1 .. | subst a0 t0 a1 t1 ...
   answer: A <id> ok <neg 0|1> <b> <ncols> <nrows>   followed by the LP block (LP/COL/ROW lines) and END,
           or A <id> none *)
let qtok (v : q) : string =
  if qeq_bool v !sentinel then "inf" else if qeq_bool v (qopp !sentinel) then "-inf" else string_of_q v
let print_lp_block (name : string) (u : ulp) (cn : string list) =
  let nc = List.length u.u_cols and nr = List.length u.u_rows in
  Printf.printf "LP %s %s %d %d\n" name (if u.u_max then "MAX" else "MIN") nc nr;
  List.iteri (fun j c ->
    let nm = (match List.nth_opt cn j with Some s -> s | None -> Printf.sprintf "x%d" j) in
    Printf.printf "COL %s %s %s %s\n" nm (qtok c.uc_obj) (qtok c.uc_lo) (qtok c.uc_up)) u.u_cols;
  List.iteri (fun i r ->
    let s = (match r.ur_sense with SL -> "L" | SG -> "G" | SE -> "E" | SR -> "R") in
    Printf.printf "ROW r%d %s %s %s %d %s\n" i s (string_of_q r.ur_rhs) (qtok r.ur_range) (List.length r.ur_ent)
      (String.concat " " (List.map (fun (k, v) -> Printf.sprintf "%d %s" (int_of_nat k) (string_of_q v)) r.ur_ent))) u.u_rows;
  print_string "END\n"

let expect ic tag = match next_tokens ic with
  | Some (t :: r) when t = tag -> r
  | _ -> failwith ("expected " ^ tag)

let () =
  let ic = stdin in
  let rec loop () =
    match next_tokens ic with
    | None -> ()
    | Some [ "M"; m ] -> sentinel := q_of_string m; loop ()
    | Some ("Q" :: id :: kind :: args) ->
      (try
        (match kind, args with
         | "trace", (algo :: eb :: _n :: rest) ->
           let rec trip = function
             | e :: l :: v :: r -> (int_of_string e, int_of_string l, int_of_string v) :: trip r
             | [] -> [] | _ -> failwith "trace arity" in
           let r = replay_trace algo (eb = "1") (trip rest) in
           Printf.printf "A %s %d %d %s\n" id (if r.r_rval then 1 else 0) (int_of_lpstat r.r_status) (string_of_exit r.r_exit)
         | "xform", (kind :: xargs) ->
           let hdr = (match next_tokens ic with Some h -> h | None -> failwith "eof") in
           let (u, cn, _) = read_ulp ic hdr in
           let zero = q_of_string "0" in
           let n = List.length u.u_cols in
           let res : (ulp * bool * q) option =
             (match kind, xargs with
              | "negobj", [] -> Some (neg_obj u, true, zero)
              | "scalerow", [ i; l ] ->
                (match scale_row_lp !sentinel (nat_of_int (int_of_string i)) (q_of_string l) u with Some u' -> Some (u', false, zero) | None -> None)
              | "duprow", [ i ] -> Some (dup_row (nat_of_int (int_of_string i)) u, false, zero)
              | "redundant", [ i; d ] ->
                if int_of_string i < List.length u.u_rows then Some (add_redundant (nat_of_int (int_of_string i)) (q_of_string d) u, false, zero) else None
              | "spliteq", [ i ] -> Some (split_eq (nat_of_int (int_of_string i)) u, false, zero)
              | "permrows", p ->
                let p = List.map (fun s -> nat_of_int (int_of_string s)) p in
                if is_perm (nat_of_int (List.length u.u_rows)) p then Some (perm_rows p u, false, zero) else None
              | "permcols", p ->
                let p = List.map (fun s -> nat_of_int (int_of_string s)) p in
                (match perm_cols p u with Some u' -> Some (u', false, zero) | None -> None)
              | "addslack", [ i ] ->
                (match add_slack !sentinel (nat_of_int (int_of_string i)) u with Some u' -> Some (u', false, zero) | None -> None)
              | "boundrow", [ up; j ] ->
                (match bound_to_row !sentinel (up = "U") (nat_of_int (int_of_string j)) u with Some u' -> Some (u', false, zero) | None -> None)
              | "subst", at ->
                let rec split = function a :: t :: r -> let (al, tl) = split r in (q_of_string a :: al, q_of_string t :: tl) | [] -> ([], []) | _ -> failwith "subst arity" in
                let (al, tl) = split at in
                (match subst_vars !sentinel al tl u with
                 | Some u' ->
                   (* b = - sum_j c_j t_j  (value map of subst_vars_equiv) *)
                   let b = List.fold_left2 (fun acc c t -> rsub acc (rmul c.uc_obj t)) zero u.u_cols tl in
                   ignore n; Some (u', false, b)
                 | None -> None)
              | _ -> failwith "unknown xform") in
           (match res with
            | None -> Printf.printf "A %s none\n" id
            | Some (u', neg, b) ->
              Printf.printf "A %s ok %d %s %d %d\n" id (if neg then 1 else 0) (string_of_q b) (List.length u'.u_cols) (List.length u'.u_rows);
              let cn' = (match kind, xargs with
                | "permcols", p -> List.map (fun s -> List.nth cn (int_of_string s)) p
                | _ -> cn) in
              print_lp_block "t" u' cn')
         | "libsol", (mx :: v :: rest) ->
           (* libsol <max 0|1> <val> <nrows> pi.. rc.. : what ILLlib_solution hands out for these internal values *)
           (match rest with
            | m :: r ->
              let m = int_of_string m in
              let all = qlist r in
              let rec take k l = if k = 0 then ([], l) else (match l with x :: t -> let (a, b) = take (k - 1) t in (x :: a, b) | [] -> ([], [])) in
              let (pi, rc) = take m all in
              let ((v', pi'), rc') = lib_solution (mx = "1") (q_of_string v) pi rc in
              Printf.printf "A %s %s | %s | %s\n" id (string_of_q v') (qs_join pi') (qs_join rc')
            | [] -> failwith "libsol arity")
         | "todouble", [ v ] ->
           let q0 = q_of_string v in
           Printf.printf "A %s %s %s\n" id (string_of_q (to_double q0)) (string_of_q (ulp_of q0))
         | "kkt", [ sem ] ->
           let hdr = (match next_tokens ic with Some h -> h | None -> failwith "eof") in
           let (p, _) = read_ilp ic hdr in
           let z = qlist (expect ic "Z") in
           let y = qlist (expect ic "Y") in
           let v = (match expect ic "V" with [ v ] -> q_of_string v | _ -> failwith "V") in
           Printf.printf "A %s %s\n" id (string_of_bool (check_kkt (infp_of sem) p z y v))
         | "farkas", [ sem ] ->
           let hdr = (match next_tokens ic with Some h -> h | None -> failwith "eof") in
           let (p, _) = read_ilp ic hdr in
           let y = qlist (expect ic "Y") in
           Printf.printf "A %s %s\n" id (string_of_bool (check_farkas (infp_of sem) p y))
         | "ray", [ sem ] ->
           let hdr = (match next_tokens ic with Some h -> h | None -> failwith "eof") in
           let (p, _) = read_ilp ic hdr in
           let z = qlist (expect ic "Z") in
           let d = qlist (expect ic "D") in
           Printf.printf "A %s %s\n" id (string_of_bool (check_ray (infp_of sem) p z d))
         | "opttest", [] ->
           let hdr = (match next_tokens ic with Some h -> h | None -> failwith "eof") in
           let (p, ns) = read_ilp ic hdr in
           let (cs, rs) = (match expect ic "BAS" with [ c; r ] -> (c, r) | _ -> failwith "BAS") in
           let x = qlist (expect ic "X") in
           let y = qlist (expect ic "Y") in
           let b = { cstat = cstats_of_string cs; rstat = rstats_of_string rs } in
           (match opt_test p (nat_of_int ns) b x y with
            | None -> Printf.printf "A %s none\n" id
            | Some s -> Printf.printf "A %s some %s | %s | %s | %s | %s\n" id (string_of_q s.sval) (qs_join s.sx) (qs_join s.spi) (qs_join s.sslack) (qs_join s.src))
         | "inftest", [] ->
           let hdr = (match next_tokens ic with Some h -> h | None -> failwith "eof") in
           let (p, _) = read_ilp ic hdr in
           let y = qlist (expect ic "Y") in
           Printf.printf "A %s %s\n" id (string_of_bool (infeas_test !sentinel p y))
         | "dz", [] ->
           let hdr = (match next_tokens ic with Some h -> h | None -> failwith "eof") in
           let (p, _) = read_ilp ic hdr in
           let y = qlist (expect ic "Y") in
           Printf.printf "A %s %s\n" id (String.concat " " (List.map (fun c -> string_of_q (dz_l y c)) p.i_cols))
         | "toint", [] ->
           (* ILP block (as dumped from the library's internal arrays) then ULP block (query API):
              true iff to_internal(ULP) denotes the same internal LP *)
           let hdr = (match next_tokens ic with Some h -> h | None -> failwith "eof") in
           let (p, _) = read_ilp ic hdr in
           let hdr = (match next_tokens ic with Some h -> h | None -> failwith "eof") in
           let (u, _, _) = read_ulp ic hdr in
           Printf.printf "A %s %s\n" id (string_of_bool (wf_ulp u && ilp_eqb (to_internal !sentinel u) p))
         | _ -> Printf.printf "A %s UNKNOWN-QUERY\n" id)
      with Failure m -> Printf.printf "A %s PARSE-ERROR %s\n" id m);
      flush stdout; loop ()
    | Some _ -> loop ()
  in loop ()
