(* Glue between text protocol and the extracted Coq datatypes.  Zarith is used
   only for parsing and printing numerals; all arithmetic that decides anything
   is the extracted Coq code. *)
module BZ = Z
open Model

let rec pos_of_z (n : BZ.t) : positive =
  if BZ.equal n BZ.one then XH
  else if BZ.is_even n then XO (pos_of_z (BZ.shift_right n 1))
  else XI (pos_of_z (BZ.shift_right n 1))

let rec z_of_pos (p : positive) : BZ.t = match p with
  | XH -> BZ.one
  | XO p -> BZ.shift_left (z_of_pos p) 1
  | XI p -> BZ.succ (BZ.shift_left (z_of_pos p) 1)

let coqz_of_z (n : BZ.t) : z =
  if BZ.sign n = 0 then Z0 else if BZ.sign n > 0 then Zpos (pos_of_z n) else Zneg (pos_of_z (BZ.neg n))

let z_of_coqz (n : z) : BZ.t = match n with Z0 -> BZ.zero | Zpos p -> z_of_pos p | Zneg p -> BZ.neg (z_of_pos p)

let sentinel : q ref = ref { qnum = Zpos XH; qden = XH }

let q_of_string (s : string) : q =
  if s = "inf" then !sentinel
  else if s = "-inf" then qopp !sentinel
  else
    match String.index_opt s '/' with
    | None -> { qnum = coqz_of_z (BZ.of_string s); qden = XH }
    | Some i ->
      let n = BZ.of_string (String.sub s 0 i) and d = BZ.of_string (String.sub s (i+1) (String.length s - i - 1)) in
      qred { qnum = coqz_of_z n; qden = pos_of_z d }

let string_of_q (x : q) : string =
  let x = qred x in
  let n = z_of_coqz x.qnum and d = z_of_pos x.qden in
  if BZ.equal d BZ.one then BZ.to_string n else BZ.to_string n ^ "/" ^ BZ.to_string d

let rec nat_of_int (i : int) : nat = if i <= 0 then O else S (nat_of_int (i-1))
let rec int_of_nat (n : nat) : int = match n with O -> 0 | S k -> 1 + int_of_nat k

let split_ws (s : string) : string list =
  List.filter (fun t -> t <> "") (Str.split (Str.regexp "[ \t\r\n]+") s)

let read_line_opt ic = try Some (input_line ic) with End_of_file -> None

(* next non-empty line as token list *)
let rec next_tokens ic : string list option =
  match read_line_opt ic with
  | None -> None
  | Some l -> (match split_ws l with [] -> next_tokens ic | t -> Some t)

let qlist (ts : string list) : q list = List.map q_of_string ts

(* ILP block: header tokens already read: ["ILP"; max; ncols; nrows; nstruct] *)
let read_ilp ic (hdr : string list) : ilp * int =
  match hdr with
  | [ "ILP"; mx; nc; nr; ns ] ->
    let nc = int_of_string nc and _nr = int_of_string nr and ns = int_of_string ns in
    let cols = ref [] in
    for _ = 1 to nc do
      match next_tokens ic with
      | Some ("C" :: o :: l :: u :: _k :: rest) ->
        let rec ents = function
          | i :: v :: r -> (nat_of_int (int_of_string i), q_of_string v) :: ents r
          | [] -> []
          | _ -> failwith "bad C line" in
        cols := { ic_obj = q_of_string o; ic_lo = q_of_string l; ic_up = q_of_string u; ic_ent = ents rest } :: !cols
      | _ -> failwith "C line expected"
    done;
    let b = match next_tokens ic with Some ("B" :: r) -> qlist r | _ -> failwith "B line expected" in
    ({ i_max = (mx = "1"); i_cols = List.rev !cols; i_rhs = b }, ns)
  | _ -> failwith "ILP header expected"

(* ULP block: header ["ULP"; max; ncols; nrows], then UC name obj lo up int, UR name sense rhs range k (col coef)* *)
let read_ulp ic (hdr : string list) : ulp * string list * string list =
  match hdr with
  | [ "ULP"; mx; nc; nr ] ->
    let nc = int_of_string nc and nr = int_of_string nr in
    let cols = ref [] and rows = ref [] and cn = ref [] and rn = ref [] in
    for _ = 1 to nc do
      match next_tokens ic with
      | Some ("UC" :: name :: o :: l :: u :: _) ->
        cn := name :: !cn;
        cols := { uc_obj = q_of_string o; uc_lo = q_of_string l; uc_up = q_of_string u } :: !cols
      | _ -> failwith "UC line expected"
    done;
    for _ = 1 to nr do
      match next_tokens ic with
      | Some ("UR" :: name :: s :: rhs :: rg :: _k :: rest) ->
        let rec ents = function
          | i :: v :: r -> (nat_of_int (int_of_string i), q_of_string v) :: ents r
          | [] -> []
          | _ -> failwith "bad UR line" in
        let sn = (match s with "L" -> SL | "G" -> SG | "E" -> SE | "R" -> SR | _ -> failwith "bad sense") in
        rn := name :: !rn;
        rows := { ur_sense = sn; ur_rhs = q_of_string rhs; ur_range = q_of_string rg; ur_ent = ents rest } :: !rows
      | _ -> failwith "UR line expected"
    done;
    ({ u_max = (mx = "1"); u_cols = List.rev !cols; u_rows = List.rev !rows }, List.rev !cn, List.rev !rn)
  | _ -> failwith "ULP header expected"

let string_of_bool b = if b then "true" else "false"

let cstats_of_string s = if s = "-" then [] else List.init (String.length s) (fun i -> col_bstat_of_code (coqz_of_z (BZ.of_int (Char.code s.[i]))))
let rstats_of_string s = if s = "-" then [] else List.init (String.length s) (fun i -> row_bstat_of_code (coqz_of_z (BZ.of_int (Char.code s.[i]))))
let qs_join l = String.concat " " (List.map string_of_q l)
let bstats_of_string = cstats_of_string   (* kept for drivers written against the first version of glue.ml *)
