(* Model-side driver for the basis / factorization domain (C12, C13).  Queries on stdin:
     M <p/q>
     Q <id> bopt            ; ILP block ; SENSE <string of L/G/E/R or -> ; BAS <cstat> <rstat>
         -> A <id> err | sing | res <0|1> <d>
     Q <id> bdual <g>       ; same input        (g = value of the uninitialised pstatus)
     Q <id> bkkt            ; same input
         -> A <id> err | sing | <kkt 0|1> <nonbasic_ok 0|1> <pfeas&dfeas verdict 0|1> <objval> <lp_bounds_ok 0|1> | z.. | y..
            (bopt / bdual / bkkt evaluate the basis as ILLbasis_load stores it: lib_optimalstatus, lib_dualstatus, loaded_basis)
     Q <id> tab [noinv]     ; ILP block ; ORD h_0 .. h_{m-1} ; then m times:  BINV <i> r.. ; TROW <i> t..
         -> A <id> <S|N> <per row: b t> ...      (S: the basis matrix is singular according to the model)
     Q <id> mat <n> <k> [I|Y|-] ; n lines R v.. (dense rows) ; [Y y..] ; k lines  FT a.. | x..   or  BT c.. | y..
         -> A <id> <S|N|X|?> <0|1 per check>     (I: singularity by the verified elimination; Y: y is checked to be a
            non-zero left null vector: S, else X; -: not decided)
     Q <id> repr <n> <k>    ; FDUMP .. FDUMPEND ; n lines R v.. ; k lines FT a | x  /  BT c | y
         -> A <id> <check_repr 0|1> <per solve: model walk over the dumped representation == library result>
     Q <id> upd <n> <col>   ; FDUMP (before) ; A a.. ; S cnt (i v)* ; AFTER + FDUMP (after) | FAIL rv
         -> A <id> <struct_ok before> <spike == S> <update_spike S|N> <same as after 0|1|-> <update S|N> <solves like after 0|1|-> <struct_ok after 0|1|->
     Q <id> row <n>         ; R row.. ; X x.. ; V v     -> A <id> <row . x == v>
     Q <id> lu <n> <k>      ; FDUMP (after mpq_ILLfactor) ; n lines R v.. ; k lines FT a | x  /  BT c | y
         -> A <id> N                                     (lu_factor refuses the pivot order rperm/cperm of the dump)
          | A <id> S <repr_same_lu 0|1> <uc ur lc lr perms: 0|1 each> <walk on e_0,e_n-1 like the dump 0|1> <per solve: lu_factor result solves like the library>
     Q <id> topo <n> <k>    ; FDUMP .. FDUMPEND ; k lines O idx..  (the order in which mpq_ILLfactor_ftran listed a result)
         -> A <id> <per line: listed_order_ok (f_uc dump) order>
     Q <id> lusing <n> <stage> ; SING nsing (singr singc)* ; FDUMP sing .. FDUMPEND ; n lines R v.. ; n lines X v.. | NOX
         -> A <id> <check_sing_report 0|1|-> <pivot prefix S|N> <kernel of the prefix zero on singr x singc 0|1|->
   Everything that decides anything is extracted Coq code. *)
open Model
open Glue

let expect ic tag = match next_tokens ic with
  | Some (t :: r) when t = tag -> r
  | _ -> failwith ("expected " ^ tag)

let read_basis_query ic =
  let hdr = (match next_tokens ic with Some h -> h | None -> failwith "eof") in
  let (p, ns) = read_ilp ic hdr in
  let sense = (match expect ic "SENSE" with [ s ] -> s | _ -> failwith "SENSE") in
  let isr = if sense = "-" then [] else List.init (String.length sense) (fun i -> sense.[i] = 'R') in
  let (cs, rs) = (match expect ic "BAS" with [ c; r ] -> (c, r) | _ -> failwith "BAS") in
  let b = { cstat = bstats_of_string cs; rstat = bstats_of_string rs } in
  (p, ns, isr, b)

let string_of_verdict v = match v with
  | VErr -> "err" | VSingular -> "sing"
  | VRes (b, d) -> Printf.sprintf "res %d %s" (if b then 1 else 0) (string_of_q d)

let split_bar (ts : string list) : string list * string list =
  let rec go acc = function
    | "|" :: r -> (List.rev acc, r)
    | t :: r -> go (t :: acc) r
    | [] -> (List.rev acc, []) in
  go [] ts

let bit b = if b then "1" else "0"

(* FDUMP .. FDUMPEND as printed by h_fac -> repr *)
let read_dump ic (n : int) : repr =
  let ents ts =
    let rec go = function
      | i :: v :: r -> (nat_of_int (int_of_string i), q_of_string v) :: go r
      | [] -> [] | _ -> failwith "entries" in go ts in
  let lc = ref [] and lr = ref [] and er = ref [] and uc = ref [] and ur = ref [] and rp = ref [] and cp = ref [] in
  let fin = ref false in
  while not !fin do
    match next_tokens ic with
    | Some ("FDUMP" :: _) -> ()
    | Some ("RPERM" :: r) -> rp := List.map (fun t -> nat_of_int (int_of_string t)) r
    | Some ("CPERM" :: r) -> cp := List.map (fun t -> nat_of_int (int_of_string t)) r
    | Some ("RRANK" :: _) | Some ("CRANK" :: _) -> ()
    | Some ("LC" :: c :: _cnt :: r) -> lc := (nat_of_int (int_of_string c), ents r) :: !lc
    | Some ("LR" :: _i :: rr :: _cnt :: r) -> lr := (nat_of_int (int_of_string rr), ents r) :: !lr
    | Some ("ER" :: rr :: _cnt :: r) -> er := (nat_of_int (int_of_string rr), ents r) :: !er
    | Some ("UC" :: _j :: _cnt :: r) -> uc := ents r :: !uc
    | Some ("UR" :: _i :: _cnt :: r) -> ur := ents r :: !ur
    | Some [ "FDUMPEND" ] -> fin := true
    | _ -> failwith "FDUMP line"
  done;
  { f_dim = nat_of_int n; f_lc = List.rev !lc; f_lr = List.rev !lr; f_er = List.rev !er;
    f_uc = List.rev !uc; f_ur = List.rev !ur; f_rperm = !rp; f_cperm = !cp }

let () =
  let ic = stdin in
  let rec loop () =
    match next_tokens ic with
    | None -> ()
    | Some [ "M"; m ] -> sentinel := q_of_string m; loop ()
    | Some ("Q" :: id :: kind :: args) ->
      (try
        (match kind, args with
         | "bopt", [] ->
           let (p, ns, isr, b) = read_basis_query ic in
           Printf.printf "A %s %s\n" id (string_of_verdict (lib_optimalstatus !sentinel p (nat_of_int ns) isr b))
         | "bdual", [ g ] ->
           let (p, ns, isr, b) = read_basis_query ic in
           Printf.printf "A %s %s\n" id (string_of_verdict (lib_dualstatus !sentinel p (nat_of_int ns) isr b (coqz_of_z (BZ.of_string g))))
         | "bkkt", [] ->
           let (p, ns, isr, b0) = read_basis_query ic in
           (* the basis as ILLbasis_load stores it (statuses of non-basic structural columns normalised against the bounds) *)
           let b = loaded_basis !sentinel p b0 in
           if not (load_ok p (nat_of_int ns) isr b0) then Printf.printf "A %s err\n" id
           else (match xB_of p b, pi_of p b with
             | Some xb, Some pi ->
               let z = zfull p b xb and y = yuser p pi in
               let v = objval_l p.i_cols z in
               let k = check_kkt (inf_sentinel !sentinel) p z y v in
               let nb = nonbasic_ok !sentinel p b in
               let lpok = lp_bounds_ok !sentinel p (nat_of_int ns) isr in
               let verdict = (match lib_optimalstatus !sentinel p (nat_of_int ns) isr b0 with VRes (r, _) -> r | _ -> false) in
               Printf.printf "A %s %s %s %s %s %s | %s | %s\n" id (bit k) (bit nb) (bit verdict) (string_of_q v) (bit lpok) (qs_join z) (qs_join y)
             | _, _ -> Printf.printf "A %s sing\n" id)
         | "tab", targs ->
           let hdr = (match next_tokens ic with Some h -> h | None -> failwith "eof") in
           let (p, _) = read_ilp ic hdr in
           let ord = List.map int_of_string (expect ic "ORD") in
           let m = List.length p.i_rhs and nc = List.length p.i_cols in
           let cols = Array.of_list p.i_cols in
           let coef j i = coefAt (cols.(j)).ic_ent (nat_of_int i) in
           let amat = List.init m (fun i -> List.init nc (fun j -> coef j i)) in
           let okord = List.for_all (fun h -> h >= 0 && h < nc) ord && List.length ord = m in
           let bmat = if okord then List.init m (fun i -> List.map (fun h -> coef h i) ord) else [] in
           let mn = nat_of_int m and ncn = nat_of_int nc in
           (* "tab noinv": large bases, the singularity of the basis matrix is not decided by the elimination (the rows decide) *)
           let sing = (not okord) || (targs <> [ "noinv" ] && inverse mn bmat = None) in
           let buf = Buffer.create 64 in
           for _ = 1 to m do
             let rl = expect ic "BINV" in
             let tl = expect ic "TROW" in
             (match rl, tl with
              | i :: rv :: r, i' :: tv :: t when i = i' ->
                let ii = nat_of_int (int_of_string i) in
                if rv <> "0" || tv <> "0" || not okord then Buffer.add_string buf " E E"
                else begin
                  let r = qlist r and t = qlist t in
                  Buffer.add_string buf (" " ^ bit (check_binv_row mn bmat r ii));
                  Buffer.add_string buf (" " ^ bit (check_tableau_row mn ncn bmat amat r t ii))
                end
              | _ -> failwith "BINV/TROW")
           done;
           Printf.printf "A %s %s%s\n" id (if sing then "S" else "N") (Buffer.contents buf)
         | "mat", (n :: k :: rest) ->
           (* mode: I (default) decide singularity by the verified elimination; Y: a line "Y y.." follows the rows, a claimed
              non-zero left null vector, answer S if it is one, X otherwise; - : no decision (answer ?) *)
           let mode = (match rest with [ m ] -> m | _ -> "I") in
           let n = int_of_string n and k = int_of_string k in
           let rows = List.init n (fun _ -> qlist (expect ic "R")) in
           let nn = nat_of_int n in
           let verdict =
             if mode = "I" then (if inverse nn rows = None then "S" else "N")
             else if mode = "Y" then begin
               let y = qlist (expect ic "Y") in
               let zero = List.init n (fun _ -> q_of_string "0") in
               if List.length y = n && check_btran nn rows y zero && not (veqb nn y zero) then "S" else "X"
             end else "?" in
           let buf = Buffer.create 64 in
           for _ = 1 to k do
             match next_tokens ic with
             | Some ("FT" :: r) -> let (a, x) = split_bar r in
               Buffer.add_string buf (" " ^ bit (List.length x = n && check_ftran nn rows (qlist x) (qlist a)))
             | Some ("BT" :: r) -> let (c, y) = split_bar r in
               Buffer.add_string buf (" " ^ bit (List.length y = n && check_btran nn rows (qlist y) (qlist c)))
             | _ -> failwith "FT/BT expected"
           done;
           Printf.printf "A %s %s%s\n" id verdict (Buffer.contents buf)
         | "repr", [ n; k ] ->
           (* representation dump of the factor_work (FDUMP .. FDUMPEND as printed by h_fac), the dense rows of the matrix it
              is supposed to factor, then k solves FT a | x / BT c | y as returned by the library.
              answer: check_repr, then per solve whether the model's walk over the dumped representation gives the same vector *)
           let n = int_of_string n and k = int_of_string k in
           let rep = read_dump ic n in
           let rows = List.init n (fun _ -> qlist (expect ic "R")) in
           let nn = nat_of_int n in
           let buf = Buffer.create 64 in
           for _ = 1 to k do
             match next_tokens ic with
             | Some ("FT" :: r) -> let (a, x) = split_bar r in
               Buffer.add_string buf (" " ^ bit (List.length x = n && veqb nn (ftran_dense rep (qlist a)) (qlist x)))
             | Some ("BT" :: r) -> let (c, y) = split_bar r in
               Buffer.add_string buf (" " ^ bit (List.length y = n && veqb nn (btran rep (qlist c)) (qlist y)))
             | _ -> failwith "FT/BT expected"
           done;
           Printf.printf "A %s %s%s\n" id (bit (check_repr rep rows)) (Buffer.contents buf)
         | "upd", [ n; col ] ->
           (* one ILLfactor_update: dump before, new column a (dense), the library's spike as listed, then either
              "AFTER" + the dump after an accepted update or "FAIL <rv>".
              answer: struct_ok(before)  dense(S) == spike before a  update_spike outcome S|N  repr_same_u vs after  update (own spike) outcome
                      own result solves like the after-dump on unit vectors col, 0, n-1   struct_ok(after) *)
           let n = int_of_string n and col = int_of_string col in
           let nn = nat_of_int n and ncol = nat_of_int col in
           let before = read_dump ic n in
           let a = qlist (expect ic "A") in
           let sl = (match expect ic "S" with _cnt :: r ->
                       let rec go = function i :: v :: t -> (nat_of_int (int_of_string i), q_of_string v) :: go t | [] -> [] | _ -> failwith "S" in go r
                     | [] -> failwith "S") in
           let after = (match next_tokens ic with
             | Some [ "AFTER" ] -> Some (read_dump ic n)
             | Some ("FAIL" :: _) -> None
             | _ -> failwith "AFTER/FAIL") in
           let f1 = struct_ok before in
           let f2 = veqb nn (dense nn sl) (spike before a) in
           let r1 = update_spike before ncol sl in
           let r2 = update before ncol a in
           let f4 = (match r1, after with Some r1, Some af -> bit (repr_same_u r1 af) | _ -> "-") in
           let f6 = (match r2, after with
             | Some r2, Some af ->
               let idx = List.sort_uniq compare [ col; 0; n - 1 ] in
               bit (List.for_all (fun i -> let e = unitv nn (nat_of_int i) in
                                   veqb nn (ftran_dense r2 e) (ftran_dense af e) && veqb nn (btran r2 e) (btran af e)) idx)
             | _ -> "-") in
           let f7 = (match after with Some af -> bit (struct_ok af) | None -> "-") in
           Printf.printf "A %s %s %s %s %s %s %s %s\n" id (bit f1) (bit f2) (if r1 = None then "N" else "S") f4 (if r2 = None then "N" else "S") f6 f7
         | "lu", [ n; k ] ->
           (* replay of mpq_ILLfactor: the pivot order is read off the dump (rperm, cperm in rank order), the extracted lu_factor
              runs on the input matrix with that order; its result must be the dump (normal form) and solve like the library *)
           let n = int_of_string n and k = int_of_string k in
           let dump = read_dump ic n in
           let rows = List.init n (fun _ -> qlist (expect ic "R")) in
           let nn = nat_of_int n in
           let piv = if List.length dump.f_rperm = List.length dump.f_cperm then List.combine dump.f_rperm dump.f_cperm else [] in
           let solves = List.init k (fun _ -> match next_tokens ic with
             | Some ("FT" :: r) -> let (a, x) = split_bar r in (true, a, x)
             | Some ("BT" :: r) -> let (c, y) = split_bar r in (false, c, y)
             | _ -> failwith "FT/BT expected") in
           (match lu_factor nn rows piv with
            | None -> Printf.printf "A %s N\n" id
            | Some r ->
              let same = repr_same_lu r dump in
              let d1 = lines_eqb r.f_uc dump.f_uc and d2 = lines_eqb r.f_ur dump.f_ur
              and d3 = etas_eqb r.f_lc dump.f_lc and d4 = etas_eqb r.f_lr dump.f_lr
              and d5 = natlist_eqb r.f_rperm dump.f_rperm && natlist_eqb r.f_cperm dump.f_cperm in
              let idx = List.sort_uniq compare [ 0; n - 1 ] in
              let walk = n = 0 || List.for_all (fun i -> let e = unitv nn (nat_of_int i) in
                            veqb nn (ftran_dense r e) (ftran_dense dump e) && veqb nn (btran r e) (btran dump e)) idx in
              let buf = Buffer.create 64 in
              List.iter (fun (ft, a, x) ->
                Buffer.add_string buf (" " ^ bit (List.length x = n &&
                  (if ft then veqb nn (ftran_dense r (qlist a)) (qlist x) else veqb nn (btran r (qlist a)) (qlist x))))) solves;
              Printf.printf "A %s S %s %s%s%s%s%s %s%s\n" id (bit same) (bit d1) (bit d2) (bit d3) (bit d4) (bit d5) (bit walk) (Buffer.contents buf))
         | "topo", [ n; k ] ->
           let n = int_of_string n and k = int_of_string k in
           let dump = read_dump ic n in
           let buf = Buffer.create 64 in
           for _ = 1 to k do
             let o = List.map (fun t -> nat_of_int (int_of_string t)) (expect ic "O") in
             Buffer.add_string buf (" " ^ bit (listed_order_ok dump.f_uc o))
           done;
           Printf.printf "A %s%s\n" id (Buffer.contents buf)
         | "lusing", [ n; stage ] ->
           (* the report of a singular factorization: certificate X for the repaired matrix and the null rows (check_sing_report);
              the kernel after the pivots the library made before it stopped must vanish on the reported rows x columns *)
           let n = int_of_string n and stage = int_of_string stage in
           let nn = nat_of_int n in
           let sing = (match expect ic "SING" with _ns :: r ->
                         let rec go = function rr :: cc :: t -> (nat_of_int (int_of_string cc), nat_of_int (int_of_string rr)) :: go t | [] -> [] | _ -> failwith "SING" in go r
                       | [] -> failwith "SING") in
           let dump = read_dump ic n in
           let rows = List.init n (fun _ -> qlist (expect ic "R")) in
           let cert = (match next_tokens ic with
             | Some [ "NOX" ] -> "-"
             | Some ("X" :: r) ->
               let x = qlist r :: List.init (n - 1) (fun _ -> qlist (expect ic "X")) in
               bit (check_sing_report nn rows sing x)
             | _ -> failwith "X/NOX") in
           let rec take m l = if m <= 0 then [] else (match l with h :: t -> h :: take (m - 1) t | [] -> []) in
           let piv = if List.length dump.f_rperm = List.length dump.f_cperm then take stage (List.combine dump.f_rperm dump.f_cperm) else [] in
           let (pre, ker) = (match lu_kernel nn rows piv with
             | None -> ("N", "-")
             | Some ((rs, cs), km) ->
               let sr = List.map snd sing and sc = List.map fst sing in
               let zero = q_of_string "0" in
               let ok = List.for_all2 (fun ri krow -> (not (List.mem ri sr)) ||
                          List.for_all2 (fun cj v -> (not (List.mem cj sc)) || qeq_bool v zero) cs krow) rs km in
               ("S", bit ok)) in
           Printf.printf "A %s %s %s %s\n" id cert pre ker
         | "row", [ n ] ->
           (* one equation: row . x = v, decided by the extracted mat_vec / veqb *)
           let n = int_of_string n in
           let row = qlist (expect ic "R") in
           let x = qlist (expect ic "X") in
           let v = qlist (expect ic "V") in
           let one = nat_of_int 1 in
           Printf.printf "A %s %s\n" id (bit (List.length row = n && List.length x = n && veqb one (mat_vec one (nat_of_int n) [ row ] x) v))
         | _ -> Printf.printf "A %s UNKNOWN-QUERY\n" id)
      with Failure m -> Printf.printf "A %s PARSE-ERROR %s\n" id m);
      flush stdout; loop ()
    | Some _ -> loop ()
  in loop ()
