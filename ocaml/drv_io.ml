(* Model-side driver for the I/O domain.  Queries on stdin (strings %-encoded as in h_io.c):
     M <p/q>
     Q <id> num <0|1> <enc>     -> A <id> <n_char> <value | - | FAULT:<kind>>    (0: code as found, 1: with numreader_div_zero.diff)
     Q <id> getval <0|1> <enc>  -> same for ILLget_value
     Q <id> print <p/q>      -> A <id> <enc>
     Q <id> lpwrite + SLP block            -> A <id> <enc line>*       (IO/LpWrite.write_lp)
     Q <id> fixnames <prefix char> <enc name>*   -> A <id> <enc new name>*   (IO/LpNames.fix_names)
     Q <id> defobj <enc row name>*               -> A <id> <enc>             (the objective name invented for a problem without one)
     Q <id> lprt + SLP block               -> A <id> <wf_lpb 0|1> <OK|ERR|FLT|FUEL> <equiv_by_name P (read_lp (write_lp P))>
     Q <id> mpswrite + MLP block           -> A <id> <enc line>*       (IO/MpsWrite.write_mps)
     Q <id> lpread <0|1> <enc text> + (NONE | SLP block of the library's result) -> A <id> <OK|ERR|FLT|FUEL> <agree> <ncols> <nrows>
     Q <id> mpsread <0|1> <enc text> + (NONE | SLP block of the library's result) -> A <id> <OK|ERR:<reason>|FLT|FUEL> <agree> <ncols> <nrows>   (IO/MpsRead.read_mps_res)
     Q <id> mpsrt [0|1] + MLP block        -> A <id> <wf_coreb> <setnames_okb> <outcome of read_mps_res (write_mps[_fixed] P)> <equiv_by_name P P'>
*)
open Model
open Glue

let hexv c = match c with
  | '0'..'9' -> Char.code c - 48 | 'A'..'F' -> Char.code c - 55 | 'a'..'f' -> Char.code c - 87 | _ -> -1
let dec (s : string) : string =
  if s = "%" then "" else begin
    let b = Buffer.create (String.length s) in
    let n = String.length s in
    let i = ref 0 in
    while !i < n do
      if s.[!i] = '%' && !i + 2 < n + 0 && hexv s.[!i+1] >= 0 && hexv s.[!i+2] >= 0 then begin
        Buffer.add_char b (Char.chr (hexv s.[!i+1] * 16 + hexv s.[!i+2])); i := !i + 3 end
      else begin Buffer.add_char b s.[!i]; incr i end
    done;
    Buffer.contents b end
let enc (s : string) : string =
  if s = "" then "%" else begin
    let b = Buffer.create (String.length s) in
    String.iter (fun c -> let k = Char.code c in
      if k < 0x21 || k > 0x7e || c = '%' then Buffer.add_string b (Printf.sprintf "%%%02X" k) else Buffer.add_char b c) s;
    Buffer.contents b end
let chars_of_string (s : string) : char list = List.init (String.length s) (String.get s)
let string_of_chars (l : char list) : string = String.concat "" (List.map (String.make 1) l)

(* numerals arriving from the harness are canonical already: no Qred while parsing (gcd on Coq positives is slow) *)
let q_raw (s : string) : q =
  if s = "inf" then !sentinel
  else if s = "-inf" then qopp !sentinel
  else
    match String.index_opt s '/' with
    | None -> { qnum = coqz_of_z (BZ.of_string s); qden = XH }
    | Some i ->
      let n = BZ.of_string (String.sub s 0 i) and d = BZ.of_string (String.sub s (i+1) (String.length s - i - 1)) in
      { qnum = coqz_of_z n; qden = pos_of_z d }
(* printing without Qred: reduce with zarith (only used to show a value, never to decide) *)
let show_q (x : q) : string =
  let n = z_of_coqz x.qnum and d = z_of_pos x.qden in
  let g = BZ.gcd n d in
  let n = BZ.div n g and d = BZ.div d g in
  if BZ.equal d BZ.one then BZ.to_string n else BZ.to_string n ^ "/" ^ BZ.to_string d

let show_nres (r, n) =
  let n = int_of_nat n in
  match r with
  | NFault DivZero -> Printf.sprintf "%d FAULT:DivZero" n
  | NFault IntOverflow -> Printf.sprintf "%d FAULT:IntOverflow" n
  | Val q -> if n = 0 then "0 -" else Printf.sprintf "%d %s" n (show_q q)

let n_of_int (i : int) : n = if i = 0 then N0 else Npos (pos_of_z (BZ.of_int i))
let sense_of s = match s with "L" -> SL | "G" -> SG | "E" -> SE | "R" -> SR | _ -> failwith "bad sense"

(* NLP <max> <ncols> <nrows> ; NC <nameid> <obj> <lo> <up> <int> ; NR <nameid> <sense> <rhs> <range> <k> (<nameid> <coef>)* *)
let read_nlp ic : nlp =
  match next_tokens ic with
  | Some [ "NLP"; mx; nc; nr ] ->
    let nc = int_of_string nc and nr = int_of_string nr in
    let cols = List.init nc (fun _ -> match next_tokens ic with
      | Some [ "NC"; nm; o; l; u; it ] ->
        { nc_name = n_of_int (int_of_string nm); nc_obj = q_raw o; nc_lo = q_raw l; nc_up = q_raw u; nc_int = (it = "1") }
      | _ -> failwith "NC line expected") in
    let rows = List.init nr (fun _ -> match next_tokens ic with
      | Some ("NR" :: nm :: s :: rhs :: rg :: _k :: rest) ->
        let rec ents = function
          | i :: v :: r -> (n_of_int (int_of_string i), q_raw v) :: ents r
          | [] -> [] | _ -> failwith "bad NR line" in
        { nr_name = n_of_int (int_of_string nm); nr_sense = sense_of s; nr_rhs = q_raw rhs; nr_range = q_raw rg; nr_ent = ents rest }
      | _ -> failwith "NR line expected") in
    { n_max = (mx = "1"); n_cols = cols; n_rows = rows }
  | _ -> failwith "NLP header expected"

(* SLP <max> <probname|-> <objname> <intmarker> <ncols> <nrows> ; SC <name> <obj> <lo> <up> <int> ;
   SR <name> <sense> <rhs> <range> <k> (<name> <coef>)*      (names %-encoded) *)
let read_slp_hdr ic hdr : llp =
  match hdr with
  | [ "SLP"; mx; pn; on; im; nc; nr ] ->
    let nc = int_of_string nc and nr = int_of_string nr in
    let cols = List.init nc (fun _ -> match next_tokens ic with
      | Some [ "SC"; nm; o; l; u; it ] ->
        { lc_name = chars_of_string (dec nm); lc_obj = q_raw o; lc_lo = q_raw l; lc_up = q_raw u; lc_int = (it = "1") }
      | _ -> failwith "SC line expected") in
    let rows = List.init nr (fun _ -> match next_tokens ic with
      | Some ("SR" :: nm :: sn :: rhs :: rg :: _k :: rest) ->
        let rec ents = function
          | i :: v :: r -> (chars_of_string (dec i), q_raw v) :: ents r
          | [] -> [] | _ -> failwith "bad SR line" in
        { lr_name = chars_of_string (dec nm); lr_sense = sense_of sn; lr_rhs = q_raw rhs; lr_range = q_raw rg; lr_ent = ents rest }
      | _ -> failwith "SR line expected") in
    { l_probname = (if pn = "-" then None else Some (chars_of_string (dec pn))); l_max = (mx = "1");
      l_objname = chars_of_string (dec on); l_intmarker = (im = "1"); l_cols = cols; l_rows = rows }
  | _ -> failwith "SLP header expected"

(* MLP <max> <probname> <objname> <intmarker> <rangeval> <ncols> <nrows> ; MC <name> <obj> <lo> <up> <int> <k> (<rowname> <coef>)* ;
   MR <name> <sense> <rhs> <range>      (column-wise, names %-encoded) *)
let read_mlp_hdr ic hdr : mlp =
  match hdr with
  | [ "MLP"; mx; pn; on; im; rv; nc; nr ] ->
    let nc = int_of_string nc and nr = int_of_string nr in
    let cols = List.init nc (fun _ -> match next_tokens ic with
      | Some ("MC" :: nm :: o :: l :: u :: it :: _k :: rest) ->
        let rec ents = function
          | i :: v :: r -> (chars_of_string (dec i), q_raw v) :: ents r
          | [] -> [] | _ -> failwith "bad MC line" in
        { mc_name = chars_of_string (dec nm); mc_obj = q_raw o; mc_lo = q_raw l; mc_up = q_raw u; mc_int = (it = "1"); mc_ent = ents rest }
      | _ -> failwith "MC line expected") in
    let rows = List.init nr (fun _ -> match next_tokens ic with
      | Some [ "MR"; nm; sn; rhs; rg ] ->
        { mr_name = chars_of_string (dec nm); mr_sense = sense_of sn; mr_rhs = q_raw rhs; mr_range = q_raw rg }
      | _ -> failwith "MR line expected") in
    { m_probname = chars_of_string (dec pn); m_max = (mx = "1"); m_objname = chars_of_string (dec on);
      m_intmarker = (im = "1"); m_rangeval = (rv = "1"); m_cols = cols; m_rows = rows }
  | _ -> failwith "MLP header expected"

let show_bstmt b = match b with
  | BFix v -> "FIX " ^ show_q v | BFreeS -> "FREE" | BLo v -> "LO " ^ show_q v
  | BUp v -> "UP " ^ show_q v | BLoUp (l, u) -> "LOUP " ^ show_q l ^ " " ^ show_q u

let reason_name e = match e with
  | EBadKey -> "BadKey" | ETwoSections -> "TwoSections" | ESectionOrder -> "SectionOrder" | EMissingObjLine -> "MissingObjLine"
  | EBadObjRecord -> "BadObjRecord" | EBadObjsense -> "BadObjsense" | EBadRefrow -> "BadRefrow" | ENoSection -> "NoSection"
  | ERowSense -> "RowSense" | ERowRepeated -> "RowRepeated" | ERowMissingName -> "RowMissingName" | EMarkerBad -> "MarkerBad"
  | EMarkerMissing -> "MarkerMissing" | EMarkerField -> "MarkerField" | ESosOther -> "SosOther" | EColMissingFields -> "ColMissingFields"
  | EColNotRow -> "ColNotRow" | EColBadCoef -> "ColBadCoef" | ERhsMissingRow -> "RhsMissingRow" | ERhsNotRow -> "RhsNotRow"
  | ERhsBadCoef -> "RhsBadCoef" | ERhsTwice -> "RhsTwice" | ERngMissingRow -> "RngMissingRow" | ERngNotRow -> "RngNotRow"
  | ERngBadCoef -> "RngBadCoef" | EBndType -> "BndType" | EBndNoIdent -> "BndNoIdent" | EBndMissingCol -> "BndMissingCol"
  | EBndNotCol -> "BndNotCol" | EBndBadValue -> "BndBadValue" | EObjNameUnknown -> "ObjNameUnknown" | ENoNRow -> "NoNRow"
  | ERefrowUnknown -> "RefrowUnknown" | ENoCols -> "NoCols" | ESosInt -> "SosInt" | ESosWeight -> "SosWeight"
  | EBoundsCross -> "BoundsCross" | ENoUsedCols -> "NoUsedCols" | ENoRows -> "NoRows" | ERangeOnN -> "RangeOnN"

let () =
  let ic = stdin in
  let rec loop () =
    match next_tokens ic with
    | None -> ()
    | Some [ "M"; m ] -> sentinel := q_of_string m; loop ()
    | Some ("Q" :: id :: kind :: args) ->
      (try
        (match kind, args with
         | "num", [ v; s ] -> Printf.printf "A %s %s\n" id (show_nres (read_num_gen (v = "1") (chars_of_string (dec s))))
         | "getval", [ v; s ] ->
           let (r, n) = get_value (v = "1") (chars_of_string (dec s)) in
           (match r with
            | Val q -> Printf.printf "A %s %d %s\n" id (int_of_nat n) (show_q q)
            | _ -> Printf.printf "A %s %s\n" id (show_nres (r, n)))
         | "print", [ q ] -> Printf.printf "A %s %s\n" id (enc (string_of_chars (print_num (q_raw q))))
         | "equiv", [] ->
           let p = read_nlp ic in let p' = read_nlp ic in
           Printf.printf "A %s %s\n" id (string_of_bool (equiv_by_name p p'))
         | "emptyrows", [] ->
           let p = read_nlp ic in
           Printf.printf "A %s %s\n" id (String.concat "" (List.map (fun r -> if row_empty r then "1" else "0") p.n_rows))
         | "bounds", [ lo; up; it ] ->
           let lo = q_raw lo and up = q_raw up and it = (it = "1") in
           let e = encode_bounds !sentinel lo up it in
           let (l', u') = decode_bounds !sentinel e it in
           Printf.printf "A %s %s | %s %s\n" id (if e = [] then "NONE" else String.concat " ; " (List.map show_bstmt e)) (show_q l') (show_q u')
         | "basis", [ cs; free; rs ] ->
           (* columns are named 1..n, rows n+1..n+m; cs/rs status strings over 0123, free a 01 string.
              answer: <write lines | NONE> | <read cstat> <read rstat> (read applied to the written lines) *)
           let st_of c = (match c with '0' -> Lo | '1' -> Ba | '2' -> Up | '3' -> Fr | _ -> failwith "status") in
           let ch_of s = (match s with Lo -> '0' | Ba -> '1' | Up -> '2' | Fr -> '3') in
           let n = String.length cs and m = (if rs = "-" then 0 else String.length rs) in
           let cols = List.init n (fun j -> ((n_of_int (j + 1), st_of cs.[j]), free.[j] = '1')) in
           let rows = List.init m (fun i -> (n_of_int (n + i + 1), st_of rs.[i])) in
           let zi x = BZ.to_int (z_of_coqz (match x with N0 -> Z0 | Npos p -> Zpos p)) in
           (match write_basis cols rows with
            | None -> Printf.printf "A %s NONE\n" id
            | Some ls ->
              let show l = (match l with
                | XU (c, r) -> Printf.sprintf "XU:%d:%d" (zi c) (zi r) | XL (c, r) -> Printf.sprintf "XL:%d:%d" (zi c) (zi r)
                | UL c -> Printf.sprintf "UL:%d" (zi c) | LL c -> Printf.sprintf "LL:%d" (zi c)) in
              let back = (match read_basis cols (List.map fst rows) ls with
                | None -> "FAIL"
                | Some (c, r) -> (if c = [] then "-" else String.concat "" (List.map (fun s -> String.make 1 (ch_of s)) c)) ^ " " ^
                                 (if r = [] then "-" else String.concat "" (List.map (fun s -> String.make 1 (ch_of s)) r))) in
              Printf.printf "A %s %s | %s\n" id (if ls = [] then "EMPTY" else String.concat " " (List.map show ls)) back)
         | "section", items ->
           (* items: name value name value ... (names %-encoded) -> the lines of one section, %-encoded, blank separated *)
           let rec pairs = function
             | n :: v :: r -> (chars_of_string (dec n), q_raw v) :: pairs r
             | [] -> [] | _ -> failwith "section arity" in
           let ls = print_section (pairs items) in
           Printf.printf "A %s %s\n" id (if ls = [] then "EMPTY" else String.concat " " (List.map (fun l -> enc (string_of_chars l)) ls))
         | "lpwrite", [] ->
           (* the lines ILLwrite_lp prints for the problem (after name repair), %-encoded *)
           let p = (match next_tokens ic with Some h -> read_slp_hdr ic h | None -> failwith "SLP expected") in
           let ls = write_lp !sentinel p in
           Printf.printf "A %s %s\n" id (String.concat " " (List.map (fun l -> enc (string_of_chars l)) ls))
         | "fixnames", pf :: names ->
           (* fix_names of lp.c: prefix character, then the names of the table in index order *)
           let ns = List.map (fun n -> chars_of_string (dec n)) names in
           Printf.printf "A %s %s\n" id (String.concat " " (List.map (fun l -> enc (string_of_chars l)) (fix_names pf.[0] ns)))
         | "defobj", names ->
           let ns = List.map (fun n -> chars_of_string (dec n)) names in
           Printf.printf "A %s %s\n" id (enc (string_of_chars (default_objname ns)))
         | "lprt", [] ->
           (* the statement of C08_lp_roundtrip evaluated on one problem: <wf_lpb> <outcome of read_lp_res (write_lp P)> <equiv_by_name P P'> *)
           let p = (match next_tokens ic with Some h -> read_slp_hdr ic h | None -> failwith "SLP expected") in
           let wf = wf_lpb !sentinel p in
           let r = read_lp_res true !sentinel (write_lp !sentinel p) in
           let tag, eqv = (match r with
             | PrOk p' -> ("OK", equiv_by_name (to_nlp p) (to_nlp p'))
             | PrErr -> ("ERR", false) | PrFlt -> ("FLT", false) | PrFuel -> ("FUEL", false)) in
           Printf.printf "A %s %s %s %s\n" id (if wf then "1" else "0") tag (string_of_bool eqv)
         | "mpswrite", vs ->
           (* variant 1: the writer with notes/repo_patches/mps_setname_clash.diff (set names made unique) *)
           let p = (match next_tokens ic with Some h -> read_mlp_hdr ic h | None -> failwith "MLP expected") in
           let ls = if vs = [ "1" ] then write_mps_fixed !sentinel p else write_mps !sentinel p in
           Printf.printf "A %s %s\n" id (String.concat " " (List.map (fun l -> enc (string_of_chars l)) ls))
         | "lpread", [ v; t ] ->
           (* model reader on the text; then NONE (the library rejected the file) or the SLP block of what the library delivered.
              answer: <OK|ERR|FLT|FUEL> <agree> <ncols> <nrows> *)
           let r = read_lp_res (v = "1") !sentinel (split_lines (chars_of_string (dec t))) in
           let lib = (match next_tokens ic with
             | Some [ "NONE" ] -> None
             | Some h -> Some (read_slp_hdr ic h)
             | None -> failwith "NONE or SLP expected") in
           let tag = (match r with PrOk _ -> "OK" | PrErr -> "ERR" | PrFlt -> "FLT" | PrFuel -> "FUEL") in
           let agree, nc, nr = (match r, lib with
             | PrOk p, Some l ->
               let a = to_nlp p and b = to_nlp l in
               (equiv_by_name a b && equiv_by_name b a && List.length p.l_cols = List.length l.l_cols && List.length p.l_rows = List.length l.l_rows,
                List.length p.l_cols, List.length p.l_rows)
             | PrOk p, None -> (false, List.length p.l_cols, List.length p.l_rows)
             | _, None -> (true, 0, 0)
             | _, Some _ -> (false, 0, 0)) in
           Printf.printf "A %s %s %s %d %d\n" id tag (string_of_bool agree) nc nr
         | "mpsread", [ v; t ] ->
           let r = read_mps_res (v = "1") !sentinel (split_lines (chars_of_string (dec t))) in
           let lib = (match next_tokens ic with
             | Some [ "NONE" ] -> None
             | Some h -> Some (read_slp_hdr ic h)
             | None -> failwith "NONE or SLP expected") in
           let tag = (match r with MOk _ -> "OK" | MErr e -> "ERR:" ^ reason_name e | MFlt -> "FLT" | MFuel -> "FUEL") in
           let agree, nc, nr = (match r, lib with
             | MOk p, Some l ->
               let a = mlp_to_nlp p and b = to_nlp l in
               (equiv_by_name a b && equiv_by_name b a && List.length p.m_cols = List.length l.l_cols && List.length p.m_rows = List.length l.l_rows,
                List.length p.m_cols, List.length p.m_rows)
             | MOk p, None -> (false, List.length p.m_cols, List.length p.m_rows)
             | _, None -> (true, 0, 0)
             | _, Some _ -> (false, 0, 0)) in
           Printf.printf "A %s %s %s %d %d\n" id tag (string_of_bool agree) nc nr
         | "mpsrt", vs ->
           (* the statement of C09_mps_roundtrip evaluated on one problem: <wf_coreb> <setnames_okb> <outcome of read_mps_res (write_mps P)> <equiv_by_name P P'> *)
           let p = (match next_tokens ic with Some h -> read_mlp_hdr ic h | None -> failwith "MLP expected") in
           let wc = wf_coreb !sentinel p and sn = setnames_okb !sentinel p in
           let r = read_mps_res true !sentinel (if vs = [ "1" ] then write_mps_fixed !sentinel p else write_mps !sentinel p) in
           let tag, eqv = (match r with
             | MOk p' -> ("OK", equiv_by_name (mlp_to_nlp p) (mlp_to_nlp p'))
             | MErr e -> ("ERR:" ^ reason_name e, false) | MFlt -> ("FLT", false) | MFuel -> ("FUEL", false)) in
           Printf.printf "A %s %s %s %s %s\n" id (if wc then "1" else "0") (if sn then "1" else "0") tag (string_of_bool eqv)
         | "esolver", rl :: rm :: bv :: sv :: st :: pv :: wv :: args ->
           (* IO/Esolver.esolver on an argument list (av[1..], %-encoded) in an environment: does the file read as LP / as MPS,
              return value of the basis load, of the solver, status, return values of print_sol and write_basis.
              answer: USAGE | VERSION | FAULT | RUN <L|M> <exit> <first line | -> <basis written 0|1> <sol file | -> <basis file | -> *)
           let zi s = coqz_of_z (BZ.of_string s) in
           let env = { v_read_lp = (rl = "1"); v_read_mps = (rm = "1"); v_basis = zi bv; v_solver = zi sv; v_status = zi st; v_printsol = zi pv; v_writebasis = zi wv } in
           let av = List.map (fun a -> chars_of_string (dec a)) args in
           let so o = (match o with Some a -> enc (string_of_chars a) | None -> "-") in
           (match esolver av env with
            | RUsage -> Printf.printf "A %s USAGE\n" id
            | RVersion -> Printf.printf "A %s VERSION\n" id
            | RFault -> Printf.printf "A %s FAULT\n" id
            | RRun (c, o) ->
              Printf.printf "A %s RUN %s %s %s %s %s %s\n" id (match the_ftype c with FLp -> "L" | FMps -> "M" | FFault -> "?")
                (BZ.to_string (z_of_coqz o.o_exit)) (so o.o_line) (if o.o_basis then "1" else "0") (so c.e_sol) (so c.e_wbasis))
         | "parseline", [ v; l ] ->
           (match parse_line (v = "1") (chars_of_string (dec l)) with
            | None -> Printf.printf "A %s NONE\n" id
            | Some (nm, q) -> Printf.printf "A %s %s %s\n" id (enc (string_of_chars nm)) (show_q q))
         | _ -> Printf.printf "A %s UNKNOWN-QUERY\n" id)
      with Failure m -> Printf.printf "A %s PARSE-ERROR %s\n" id m);
      flush stdout; loop ()
    | Some _ -> loop ()
  in loop ()
