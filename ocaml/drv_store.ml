(* Model-side interpreter of the store op language: runs the same scripts as
   harness/h_store.c through the extracted reference model Store.Spec and prints
   the same canonical lines.  Ops the model does not cover (solves, accessors,
   bases, files, reduced-precision copies) print "R <OP> NA".

   Header line "M <p/q>" sets the sentinel; "inf"/"-inf" denote +-M in both
   directions. *)
open Model
open Glue

let cl_of_string (s : string) : char list = List.init (String.length s) (String.get s)
let string_of_cl (l : char list) : string = String.concat "" (List.map (String.make 1) l)

let z_of_int i = coqz_of_z (BZ.of_int i)
let z_of_tok t = coqz_of_z (BZ.of_string t)

let print_q (x : q) : string =
  if qeq_bool x !sentinel then "inf" else if qeq_bool x (qopp !sentinel) then "-inf" else string_of_q x

let tok_str (t : tok) : string = match t with
  | TZ z -> BZ.to_string (z_of_coqz z)
  | TQ x -> print_q x
  | TS s -> string_of_cl s
  | TBar -> "|"

let name_opt t = if t = "-" then None else Some (cl_of_string t)
let code_char t : char =
  if String.length t > 0 && t.[0] = '#' then
    (let n = (try int_of_string (String.sub t 1 (String.length t - 1)) with _ -> 0) in
     if n >= 0 && n < 256 then Char.chr n else Char.chr 0)
  else if String.length t > 0 then t.[0] else Char.chr 0
let objsense_code t = match t with "MIN" -> z_of_int 1 | "MAX" -> z_of_int (-1) | _ -> z_of_tok t
let handle t = int_of_string (String.sub t 1 (String.length t - 1))

exception Bad_args

(* token cursor *)
let cur : string list ref = ref []
let tk () = match !cur with [] -> raise Bad_args | t :: r -> cur := r; t
let tk_int () = try int_of_string (tk ()) with Failure _ -> raise Bad_args
let tk_z () = try z_of_tok (tk ()) with _ -> raise Bad_args
let tk_q () = try q_of_string (tk ()) with _ -> raise Bad_args
let rec tk_list n f = if n <= 0 then [] else let x = f () in x :: tk_list (n - 1) f
let tk_ent () = let k = tk_int () in if k < 0 then raise Bad_args else tk_list k (fun () -> let i = tk_z () in let v = tk_q () in (i, v))

let print_result op (r : result) =
  match r with
  | ROk out -> print_string ("R " ^ op ^ " OK rv=0"); List.iter (fun t -> print_char ' '; print_string (tok_str t)) out; print_newline ()
  | RErr -> print_endline ("R " ^ op ^ " ERR")
  | RSkip -> print_endline ("R " ^ op ^ " SKIP nohandle")

let st : store ref = ref []

(* Api layer (C05): per handle, what survives between calls; kept next to the store *)
let ast : (int, api) Hashtbl.t = Hashtbl.create 16
let api_reset h = (match get_h !st (nat_of_int h) with Some p -> Hashtbl.replace ast h (api_init p) | None -> Hashtbl.remove ast h)
let zeros n = List.init n (fun _ -> q_of_string "0")
let mk_basis cs rs = { ba_c = (if cs = "-" then [] else cl_of_string cs); ba_r = (if rs = "-" then [] else cl_of_string rs) }
let mk_cache (p : prob) (pi : q list) =
  let n = List.length p.p_cols and m = List.length p.p_rows in
  { ca_val = q_of_string "0"; ca_x = zeros n; ca_pi = (if List.length pi = m then pi else zeros m); ca_rc = zeros n; ca_slack = zeros m }
let print_api_state op (a : api) =
  let zi z = BZ.to_string (z_of_coqz z) in
  Printf.printf "R %s OK rv=0 qstatus=%s factorok=%d cache=%d" op (zi a.a_qstatus) (if a.a_factorok then 1 else 0) (match a.a_cache with Some _ -> 1 | None -> 0);
  (match a.a_cache with Some c -> Printf.printf " cache_dims=%d,%d" (List.length c.ca_x) (List.length c.ca_pi) | None -> ());
  (match a.a_basis with Some b -> Printf.printf " basis=%d,%d rownorms=%d" (List.length b.ba_c) (List.length b.ba_r) (if a.a_rn then 1 else 0) | None -> print_string " basis=-");
  print_newline ()

(* L2 layer (C06): per handle, the concrete column store (Store.Matrix) replayed next to the reference model.
   L2ok s = tracked; L2bad why = the model left the domain (Fault / Rej on a call the reference model accepted) *)
type l2state = L2ok of lstore | L2bad of string
(* which matrix_addrow the L2 model runs: QSX_L2_ADDROW=fixed (the repaired loop, notes/repo_patches/matrix_addrow_repeated_column.diff)
   or orig (the loop as found: Fault where the library calls exit(1)); checks/store_common.py probes the library and sets it.
   The op `L2VARIANT fixed|orig` overrides it inside a script. *)
let l2_fixed = ref (match Sys.getenv_opt "QSX_L2_ADDROW" with Some "orig" -> false | _ -> true)
let l2t : (int, l2state) Hashtbl.t = Hashtbl.create 16
let l2_set h (r : lstore res) what = Hashtbl.replace l2t h (match r with Ok s -> L2ok s | Rej -> L2bad ("REJ " ^ what) | Fault -> L2bad ("FAULT " ^ what))
let put_line tag (body : string) n full =
  if (not full) && String.length body > 400 then begin
    let h = ref (-3750763034362895579L) (* 14695981039346656037 *) in
    String.iter (fun c -> h := Int64.mul (Int64.logxor !h (Int64.of_int (Char.code c))) 1099511628211L) body;
    Printf.printf "%s #%016Lx n=%d\n" tag !h n end
  else print_endline (tag ^ body)
let print_l2 (s : lstore) full =
  let a = s.lA in
  let ints l = String.concat "" (List.map (fun n -> " " ^ string_of_int (int_of_nat n)) l) in
  let msz = List.length a.slots in
  Printf.printf "MAT matcols=%d matrows=%d matsize=%d matfree=%d matcolsize=%d nstruct=%d nrows=%d ncols=%d nzcount=%d\n"
    (List.length a.beg) (int_of_nat a.mrows) msz (int_of_nat a.mfree) (int_of_nat a.colsize)
    (List.length s.smap) (List.length s.rmap) (List.length a.beg) (int_of_nat s.nzc);
  print_endline ("BEG" ^ ints a.beg);
  print_endline ("CNT" ^ ints a.cnt);
  put_line "IND" (String.concat "" (List.map (fun (i, _) -> " " ^ BZ.to_string (z_of_coqz i)) a.slots)) msz full;
  let live = Array.make (msz + 1) false in
  List.iter2 (fun b c -> let b = int_of_nat b and c = int_of_nat c in
               for k = 0 to c - 1 do if b + k >= 0 && b + k < msz then live.(b + k) <- true done) a.beg a.cnt;
  put_line "VAL" (String.concat "" (List.mapi (fun k (_, v) -> if live.(k) then " " ^ print_q v else " _") a.slots)) msz full;
  print_endline ("SMAP" ^ ints s.smap);
  print_endline ("RMAP" ^ ints s.rmap);
  (* model side only (the check strips this line before comparing): the executable representation invariant of the state *)
  print_endline ("WF " ^ (if List.length a.beg <= 60 then string_of_bool (lwf_check s) else "skipped"));
  print_endline "END"

let on op h (o : pop) =
  let p0 = get_h !st (nat_of_int h) in
  let (s', r) = sstep !sentinel !st (SOn (nat_of_int h, o)) in
  st := s';
  (match r, p0, Hashtbl.find_opt l2t h with
   | ROk _, Some p, Some (L2ok l) -> l2_set h (l2_step_c !l2_fixed p l o) op
   | _ -> ());
  (match Hashtbl.find_opt ast h with
   | Some a -> let (a', _) = api_edit !sentinel a o in Hashtbl.replace ast h a'
   | None -> ());
  print_result op r

let exec (toks : string list) =
  match toks with
  | [] -> ()
  | op :: rest ->
    cur := rest;
    (try
      match op with
      | "CASE" -> print_endline ("CASE " ^ (match rest with t :: _ -> t | [] -> "?"))
      | "ECHO" -> print_endline (String.concat " " toks)
      | "GUARDS" ->
        (* the generated guard list (coq/Gen/Guards.v): every guard evaluated on a grid of sizes and boundary indices by the extracted
           guard_accepts, against the range of its role (role_accepts); `GX` lines are disagreements (none while Store/GuardsOk.v checks) *)
        let str cl = String.concat "" (List.map (String.make 1) cl) in
        let n = ref 0 and bad = ref 0 in
        List.iter (fun g ->
          incr n;
          let role = (match g.g_role with RRow -> "row" | RCol -> "col" | RICol -> "icol" | RUnknown -> "unknown") in
          Printf.printf "G %s %s %s %s\n" (str g.g_fn) (str g.g_arg) role (str g.g_src);
          List.iter (fun (nr, ns) ->
            let cand = [-1; 0; 1; ns - 1; ns; ns + 1; nr - 1; nr; nr + 1; ns + nr - 1; ns + nr; ns + nr + 1; 2147483647; -2147483648] in
            List.iter (fun i ->
              let a = guard_accepts g (z_of_int i) (z_of_int nr) (z_of_int ns) and b = role_accepts g.g_role (z_of_int i) (z_of_int nr) (z_of_int ns) in
              if a <> b then begin incr bad; Printf.printf "GX %s %s %s i=%d nrows=%d nstruct=%d guard_accepts=%b valid=%b\n" (str g.g_fn) (str g.g_arg) role i nr ns a b end)
              (List.sort_uniq compare cand))
            [(0, 0); (1, 0); (0, 1); (1, 1); (2, 3); (3, 2); (4, 4)]) guards;
        Printf.printf "R GUARDS OK rv=0 guards=%d disagreements=%d\n" !n !bad
      | "L2VARIANT" -> l2_fixed := (tk () <> "orig"); Printf.printf "R L2VARIANT OK rv=0 %s\n" (if !l2_fixed then "fixed" else "orig")
      | "RESET" -> st := []; Hashtbl.reset ast; Hashtbl.reset l2t; print_endline "R RESET OK rv=0"
      | "CREATE" ->
        let h = handle (tk ()) in let _nm = tk () in let c = objsense_code (tk ()) in
        let (s', r) = sstep !sentinel !st (SCreate (nat_of_int h, c)) in st := s'; api_reset h; Hashtbl.replace l2t h (L2ok empty_lstore); print_result op r
      | "LOAD" ->
        let h = handle (tk ()) in let _nm = tk () in let c = objsense_code (tk ()) in
        let nc = tk_int () in let nr = tk_int () in
        if nc < 0 || nr < 0 then raise Bad_args;
        let cols = tk_list nc (fun () ->
          let nm = name_opt (tk ()) in let o = tk_q () in let l = tk_q () in let u = tk_q () in let e = tk_ent () in
          ((((o, l), u), nm), e)) in
        let rows = tk_list nr (fun () -> let nm = name_opt (tk ()) in let s = code_char (tk ()) in let rhs = tk_q () in ((nm, s), rhs)) in
        let (s', r) = sstep !sentinel !st (SLoad (nat_of_int h, c, cols, rows)) in st := s'; api_reset h;
        (match r with ROk _ -> l2_set h (l2_load_c !l2_fixed cols rows) op | _ -> Hashtbl.remove l2t h);
        print_result op r
      | "READ" ->
        (* READ h <file> <LP|MPS> <MIN|MAX> nc nr cols rows: the library reads the file; the model is told what the file says -
           per column its raw list in the order of raw->cols[i] (duplicates of one (row, column) pair not merged), rows as in LOAD.
           Reference problem: QSload_prob-style from the merged columns (merge_col of the extracted model);
           L2: lib_load_raw (Store.RawLoad: buildMatrix + ILLlp_add_logicals) *)
        let h = handle (tk ()) in let _fn = tk () in let _ft = tk () in
        (match !cur with
         | [] -> Hashtbl.remove l2t h; api_reset h; print_endline "R READ SKIP nomodel"
         | _ ->
           let c = objsense_code (tk ()) in
           let nc = tk_int () in let nr = tk_int () in
           if nc < 0 || nr < 0 then raise Bad_args;
           let raw = tk_list nc (fun () ->
             let nm = name_opt (tk ()) in let o = tk_q () in let l = tk_q () in let u = tk_q () in let e = tk_ent () in
             ((((o, l), u), nm), e)) in
           let rows = tk_list nr (fun () -> let nm = name_opt (tk ()) in let s = code_char (tk ()) in let rhs = tk_q () in ((nm, s), rhs)) in
           let rcols = List.map (fun (_, e) -> nat_ents e) raw in
           let cols = List.map2 (fun (a, _) rc -> (a, List.map (fun (i, v) -> (z_of_int (int_of_nat i), v)) (merge_col_c rc))) raw rcols in
           let (s', r) = sstep !sentinel !st (SLoad (nat_of_int h, c, cols, rows)) in st := s'; api_reset h;
           (match r with ROk _ -> l2_set h (lib_load_raw_c rcols (List.map (fun ((_, sn), _) -> coef_of_sense sn) rows)) op | _ -> Hashtbl.remove l2t h);
           print_result op r)
      | "FREE" -> let h = handle (tk ()) in let (s', r) = sstep !sentinel !st (SFree (nat_of_int h)) in st := s'; api_reset h; Hashtbl.remove l2t h; print_result op r
      | "COPY" ->
        let h = handle (tk ()) in let h2 = handle (tk ()) in
        let (s', r) = sstep !sentinel !st (SCopy (nat_of_int h, nat_of_int h2)) in
        st := s'; (if h <> h2 then api_reset h2);
        (match r, get_h !st (nat_of_int h) with ROk _, Some p when h <> h2 -> l2_set h2 (l2_copy_c !l2_fixed p) op | _ -> ());
        (match r with RSkip when h = h2 -> print_endline "R COPY SKIP samehandle" | _ -> print_result op r)
      | "NEWCOL" ->
        let h = handle (tk ()) in let o = tk_q () in let l = tk_q () in let u = tk_q () in let nm = name_opt (tk ()) in
        on op h (NewCol (o, l, u, nm))
      | "ADDCOL" ->
        let h = handle (tk ()) in let o = tk_q () in let l = tk_q () in let u = tk_q () in let nm = name_opt (tk ()) in
        let e = tk_ent () in on op h (AddCol (o, l, u, nm, e))
      | "ADDCOLS" ->
        let h = handle (tk ()) in let n = tk_int () in
        if n < 0 then raise Bad_args;
        let cs = tk_list n (fun () -> let o = tk_q () in let l = tk_q () in let u = tk_q () in let nm = name_opt (tk ()) in let e = tk_ent () in
                                      ((((o, l), u), nm), e)) in
        on op h (AddCols cs)
      | "NEWROW" ->
        let h = handle (tk ()) in let rhs = tk_q () in let s = code_char (tk ()) in let nm = name_opt (tk ()) in
        on op h (NewRow (rhs, s, nm))
      | "ADDROW" ->
        let h = handle (tk ()) in let rhs = tk_q () in let s = code_char (tk ()) in let nm = name_opt (tk ()) in let e = tk_ent () in
        on op h (AddRow (rhs, s, None, nm, e))
      | "ADDRROW" ->
        let h = handle (tk ()) in let rhs = tk_q () in let s = code_char (tk ()) in let rg = tk_q () in let nm = name_opt (tk ()) in let e = tk_ent () in
        on op h (AddRow (rhs, s, Some rg, nm, e))
      | "ADDROWS" | "ADDRROWS" ->
        let ranged = (op = "ADDRROWS") in
        let h = handle (tk ()) in let n = tk_int () in
        if n < 0 then raise Bad_args;
        let rs = tk_list n (fun () ->
          let rhs = tk_q () in let s = code_char (tk ()) in
          let rg = if ranged then Some (tk_q ()) else None in
          let nm = name_opt (tk ()) in let e = tk_ent () in
          ((((rhs, s), rg), nm), e)) in
        on op h (AddRows rs)
      | "DELROW" -> let h = handle (tk ()) in let i = tk_z () in on op h (DelRows [ i ])
      | "DELCOL" -> let h = handle (tk ()) in let i = tk_z () in on op h (DelCols [ i ])
      | "DELROWS" | "DELCOLS" | "DELSETROWS" | "DELSETCOLS" ->
        let h = handle (tk ()) in let k = tk_int () in
        let l = if k < 0 then [] else tk_list k tk_z in
        on op h (match op with "DELROWS" -> DelRows l | "DELCOLS" -> DelCols l | "DELSETROWS" -> DelSetRows l | _ -> DelSetCols l)
      | "DELNROW" -> let h = handle (tk ()) in let nm = cl_of_string (tk ()) in on op h (DelNRows [ nm ])
      | "DELNCOL" -> let h = handle (tk ()) in let nm = cl_of_string (tk ()) in on op h (DelNCols [ nm ])
      | "DELNROWS" | "DELNCOLS" ->
        let h = handle (tk ()) in let k = tk_int () in
        if k < 0 then raise Bad_args;
        let l = tk_list k (fun () -> cl_of_string (tk ())) in
        on op h (if op = "DELNROWS" then DelNRows l else DelNCols l)
      | "CHGCOEF" -> let h = handle (tk ()) in let i = tk_z () in let j = tk_z () in let v = tk_q () in on op h (ChgCoef (i, j, v))
      | "CHGOBJ" -> let h = handle (tk ()) in let j = tk_z () in let v = tk_q () in on op h (ChgObj (j, v))
      | "CHGRHS" -> let h = handle (tk ()) in let i = tk_z () in let v = tk_q () in on op h (ChgRhs (i, v))
      | "CHGRANGE" -> let h = handle (tk ()) in let i = tk_z () in let v = tk_q () in on op h (ChgRange (i, v))
      | "CHGSENSE" -> let h = handle (tk ()) in let i = tk_z () in let s = code_char (tk ()) in on op h (ChgSenses [ (i, s) ])
      | "CHGSENSES" ->
        let h = handle (tk ()) in let k = tk_int () in
        if k < 0 then raise Bad_args;
        on op h (ChgSenses (tk_list k (fun () -> let i = tk_z () in let s = code_char (tk ()) in (i, s))))
      | "CHGBND" -> let h = handle (tk ()) in let j = tk_z () in let lu = code_char (tk ()) in let v = tk_q () in on op h (ChgBnds [ ((j, lu), v) ])
      | "CHGBNDS" ->
        let h = handle (tk ()) in let k = tk_int () in
        if k < 0 then raise Bad_args;
        on op h (ChgBnds (tk_list k (fun () -> let j = tk_z () in let lu = code_char (tk ()) in let v = tk_q () in ((j, lu), v))))
      | "CHGOBJSENSE" -> let h = handle (tk ()) in let c = objsense_code (tk ()) in on op h (ChgObjSense c)
      | "SETPARAM" -> let h = handle (tk ()) in let id = tk_z () in let v = tk_z () in on op h (SetParam (id, v))
      | "SETPARAMQ" -> let h = handle (tk ()) in let id = tk_z () in let v = tk_q () in on op h (SetParamQ (id, v))
      | "MARKINT" -> let h = handle (tk ()) in let j = tk_z () in on op h (MarkInt j)
      | "Q" ->
        let h = handle (tk ()) in
        let w = tk () in
        let zl () = let k = tk_int () in if k < 0 then raise Bad_args else tk_list k tk_z in
        (match w with
         | "counts" -> on op h QCounts
         | "coef" -> let i = tk_z () in let j = tk_z () in on op h (QCoef (i, j))
         | "obj" -> on op h QObj
         | "objlist" -> on op h (QObjList (zl ()))
         | "rhs" -> on op h QRhs
         | "senses" -> on op h QSenses
         | "bounds" -> on op h QBounds
         | "bound" -> let j = tk_z () in let lu = code_char (tk ()) in on op h (QBound (j, lu))
         | "boundslist" -> on op h (QBoundsList (zl ()))
         | "objsense" -> on op h QObjSense
         | "rows" -> on op h (QRows (false, None))
         | "rrows" -> on op h (QRows (true, None))
         | "rowslist" -> on op h (QRows (false, Some (zl ())))
         | "rrowslist" -> on op h (QRows (true, Some (zl ())))
         | "cols" -> on op h (QCols None)
         | "colslist" -> on op h (QCols (Some (zl ())))
         | "rownames" -> on op h QRowNames
         | "colnames" -> on op h QColNames
         | "rowidx" -> on op h (QRowIdx (cl_of_string (tk ())))
         | "colidx" -> on op h (QColIdx (cl_of_string (tk ())))
         | "intflags" -> on op h QIntFlags
         | "intcount" -> on op h QIntCount
         | "param" -> on op h (QParam (tk_z ()))
         | "paramq" -> on op h (QParamQ (tk_z ()))
         | "params" ->
           (match get_h !st (nat_of_int h) with
            | None -> print_endline "R Q SKIP nohandle"
            | Some p ->
              let a = p.p_par in
              let zi z = BZ.to_string (z_of_coqz z) in
              Printf.printf "R Q OK rv=0 0=0:%s 2=0:%s 4=0:%s 5=0:%s 7=0:%s 6=0:%s 8=0:%s 9=0:%s\n"
                (zi a.pa_pprice) (zi a.pa_dprice) (zi a.pa_display) (zi a.pa_maxiter) (zi a.pa_scaling)
                (print_q a.pa_maxtime) (print_q a.pa_ulim) (print_q a.pa_llim))
         | _ -> print_endline "R Q NA")
      | "SOLVE" ->
        (* SOLVE h PRIMAL|DUAL ORACLE <status> <cstat> <rstat> RN <0|1> PI <pi...> : the real solver's answer is the oracle of the Api model
           (RN: the basis grabbed after the solve carries row norms) *)
        let h = handle (tk ()) in
        let w = tk () in
        (match Hashtbl.find_opt ast h, w with
         | Some a, ("PRIMAL" | "DUAL") ->
           (match !cur with
            | "ORACLE" :: stt :: cs :: rs :: "RN" :: rn :: "PI" :: pis ->
              let ans = { an_status = z_of_tok stt; an_basis = mk_basis cs rs; an_sol = mk_cache a.a_p (List.map q_of_string pis); an_rn = (rn = "1") } in
              let (a', err) = api_solve a (w = "DUAL") ans in
              Hashtbl.replace ast h a';
              print_endline (if err then "R SOLVE ERR" else "R SOLVE OK rv=0")
            | _ -> print_endline "R SOLVE NA")
         | _ -> print_endline "R SOLVE NA")
      | "MLOADBASIS" ->
        let h = handle (tk ()) in let cs = tk () in let rs = tk () in
        (match Hashtbl.find_opt ast h with
         | Some a -> let (a', err) = api_load_basis a (mk_basis cs rs) in Hashtbl.replace ast h a';
           print_endline (if err then "R MLOADBASIS ERR" else "R MLOADBASIS OK rv=0")
         | None -> print_endline "R MLOADBASIS SKIP nohandle")
      | "SYNC" ->
        (* adopt the observed state after a call the Api model does not predict (QSexact_solver):
           SYNC h <qstatus> <factorok> <cache 0|1> <cstat|-|none> <rstat> RN <0|1> PI <pi...> *)
        let h = handle (tk ()) in let qs_ = tk_z () in let f = tk_int () in let c = tk_int () in let cs = tk () in let rs = tk () in
        let rn = (match !cur with "RN" :: r :: rest -> cur := rest; r = "1" | _ -> false) in
        let pis = (match !cur with "PI" :: r -> List.map q_of_string r | _ -> []) in
        (match Hashtbl.find_opt ast h with
         | Some a ->
           Hashtbl.replace ast h { a_p = a.a_p; a_basis = (if cs = "none" then None else Some (mk_basis cs rs));
                                   a_cache = (if c = 1 then Some (mk_cache a.a_p pis) else None); a_qstatus = qs_; a_factorok = (f = 1); a_rn = rn };
           print_endline "R SYNC OK rv=0"
         | None -> print_endline "R SYNC SKIP nohandle")
      | "STATE" ->
        let h = handle (tk ()) in
        (match Hashtbl.find_opt ast h with Some a -> print_api_state op a | None -> print_endline "R STATE SKIP nohandle")
      | "DUMPM" | "DUMPMF" ->
        let h = handle (tk ()) in
        (match Hashtbl.find_opt l2t h with
         | Some (L2ok l) -> print_l2 l (op = "DUMPMF")
         | Some (L2bad why) -> print_endline ("MAT " ^ why); print_endline "END"
         | None -> print_endline ("R " ^ op ^ " SKIP nohandle"))
      | "WFM" ->
        (* the executable representation invariant on the model's own state *)
        let h = handle (tk ()) in
        (match Hashtbl.find_opt l2t h with
         | Some (L2ok l) -> Printf.printf "R WFM OK rv=0 %b\n" (lwf_check l)
         | _ -> print_endline "R WFM SKIP nohandle")
      | "DUMP" ->
        let h = handle (tk ()) in
        (match get_h !st (nat_of_int h) with
         | None -> print_endline "R DUMP SKIP nohandle"
         | Some p ->
           List.iter (fun line -> print_endline (String.concat " " (List.map tok_str line))) (dump_lines p);
           print_endline "END")
      | _ -> print_endline ("R " ^ op ^ " NA")
    with
    | Bad_args -> print_endline ("R " ^ op ^ " SKIP args")
    | Failure _ | Invalid_argument _ -> print_endline ("R " ^ op ^ " SKIP args"))

let () =
  let ic = stdin in
  let rec loop () =
    match next_tokens ic with
    | None -> ()
    | Some [ "M"; m ] -> sentinel := q_of_string m; print_endline ("M " ^ m); loop ()
    | Some (t :: _) when String.length t > 0 && t.[0] = '#' -> loop ()
    | Some ("FORK" :: n :: _) ->
      (* the C side runs the next n lines in a forked child: their effect on the state is discarded *)
      let saved = !st in
      let saved_a = Hashtbl.copy ast in
      let saved_l2 = Hashtbl.copy l2t in
      let n = (try int_of_string n with _ -> 0) in
      (try
         for _ = 1 to n do
           (match read_line_opt ic with
            | None -> raise Exit
            | Some l -> (match split_ws l with
                | [] -> ()
                | t :: _ when String.length t > 0 && t.[0] = '#' -> ()
                | toks -> exec toks))
         done
       with Exit -> ());
      st := saved;
      Hashtbl.reset ast; Hashtbl.iter (fun k v -> Hashtbl.replace ast k v) saved_a;
      Hashtbl.reset l2t; Hashtbl.iter (fun k v -> Hashtbl.replace l2t k v) saved_l2;
      print_endline "FORKEND OK";
      loop ()
    | Some [ "KKTU"; id ] ->
      (* stateless judge: ULP block (query-API view), Z (x ++ logical values), Y (pi), V (objective value):
         is (Z, Y, V) an exact optimality certificate of to_internal M ULP ? *)
      (try
         let hdr = (match next_tokens ic with Some h -> h | None -> failwith "eof") in
         let (u, _, _) = read_ulp ic hdr in
         let expect tag = (match next_tokens ic with Some (t :: r) when t = tag -> r | _ -> failwith ("expected " ^ tag)) in
         let z = qlist (expect "Z") in
         let y = qlist (expect "Y") in
         let v = (match expect "V" with [ v ] -> q_of_string v | _ -> failwith "V") in
         let ok = wf_ulp u && check_kkt (inf_sentinel !sentinel) (to_internal !sentinel u) z y v in
         Printf.printf "A %s %s\n" id (string_of_bool ok)
       with Failure m -> Printf.printf "A %s PARSE-ERROR %s\n" id m);
      loop ()
    | Some toks -> exec toks; loop ()
  in
  loop ()
