/* Solve-domain harness: builds LPs through the public API, drives the solve
 * entry points and the exact tests, prints everything the models need.
 *
 * Script (stdin):
 *   CASE <id>                      echo marker (flushes)
 *   LP ... block                   (see common.h) replaces the current problem
 *   PARAM <id> <int>               mpq_QSset_param
 *   LOADBASIS <cstat> <rstat>      mpq_QSload_basis_array
 *   SOLVE EXACT <P|D> [<cstat> <rstat>]   QSexact_solver (optional caller basis)
 *   SOLVE PRIMAL | SOLVE DUAL      mpq_QSopt_primal / mpq_QSopt_dual
 *   ACCESS                         all solution accessors
 *   GETBASIS                       mpq_QSget_basis
 *   OPTTEST <cstat> <rstat> <x>*ncols <y>*nrows     QSexact_optimal_test (ncols = internal)
 *   INFTEST <y>*nrows              QSexact_infeasible_test
 *   BOPT <cstat> <rstat>           QSexact_basis_optimalstatus
 *   BDUAL <cstat> <rstat>          QSexact_basis_dualstatus
 *   DUMP                           ILP + ULP
 *   CHG ...                        a few edit calls (see below) for history tests
 */
#include "common.h"

static mpq_QSdata *P = NULL;
static QSbasis *KEPT = NULL;	/* basis remembered by KEEPBASIS */
/* basis + row norms remembered by GETBN */
static char *BN_cs = NULL, *BN_rs = NULL;
static mpq_t *BN_norms = NULL;
static int BN_n = 0, BN_m = 0, BN_ok = 0;

static void trace_cb (int event, int level, int value)
{
	printf ("TRACE %d %d %d\n", event, level, value);
}

static QSbasis *mk_basis (const char *cs, const char *rs)
{
	QSbasis *B = (QSbasis *) calloc (1, sizeof (QSbasis));
	int n = strcmp (cs, "-") ? (int) strlen (cs) : 0, m = strcmp (rs, "-") ? (int) strlen (rs) : 0;
	B->nstruct = n; B->nrows = m;
	B->cstat = (char *) malloc (n + 1); B->rstat = (char *) malloc (m + 1);
	memcpy (B->cstat, n ? cs : "", n); memcpy (B->rstat, m ? rs : "", m);
	B->cstat[n] = 0; B->rstat[m] = 0;
	return B;
}
static void free_basis (QSbasis * B)
{
	if (!B) return;
	free (B->cstat); free (B->rstat); free (B);
}

static void do_access (void)
{
	int n = mpq_QSget_colcount (P), m = mpq_QSget_rowcount (P), rv, st = -1;
	mpq_t v, *x = mpq_EGlpNumAllocArray (n + 1), *pi = mpq_EGlpNumAllocArray (m + 1),
		*rc = mpq_EGlpNumAllocArray (n + 1), *sl = mpq_EGlpNumAllocArray (m + 1);
	mpq_init (v);
	rv = mpq_QSget_status (P, &st);
	printf ("ACC status %d %d\n", rv, st);
	rv = mpq_QSget_objval (P, &v);
	printf ("ACC objval %d ", rv); qsx_print_q (stdout, v); putchar ('\n');
	rv = mpq_QSget_x_array (P, x);
	printf ("ACC x %d", rv); if (!rv) qsx_print_qarr (stdout, x, n); putchar ('\n');
	rv = mpq_QSget_pi_array (P, pi);
	printf ("ACC pi %d", rv); if (!rv) qsx_print_qarr (stdout, pi, m); putchar ('\n');
	rv = mpq_QSget_rc_array (P, rc);
	printf ("ACC rc %d", rv); if (!rv) qsx_print_qarr (stdout, rc, n); putchar ('\n');
	rv = mpq_QSget_slack_array (P, sl);
	printf ("ACC slack %d", rv); if (!rv) qsx_print_qarr (stdout, sl, m); putchar ('\n');
	rv = mpq_QSget_solution (P, &v, x, pi, sl, rc);
	printf ("ACC solution %d ", rv);
	if (!rv)
	{
		qsx_print_q (stdout, v); fputs (" |", stdout); qsx_print_qarr (stdout, x, n);
		fputs (" |", stdout); qsx_print_qarr (stdout, pi, m);
		fputs (" |", stdout); qsx_print_qarr (stdout, sl, m);
		fputs (" |", stdout); qsx_print_qarr (stdout, rc, n);
	}
	putchar ('\n');
	mpq_clear (v);
	mpq_EGlpNumFreeArray (x); mpq_EGlpNumFreeArray (pi); mpq_EGlpNumFreeArray (rc); mpq_EGlpNumFreeArray (sl);
}

int main (int argc, char **argv)
{
	FILE *in = stdin;
	int quiet_log = 1;
	(void) argc; (void) argv;
	qsx_capture_init ();
	if (getenv ("QSX_SCRATCH") && chdir (getenv ("QSX_SCRATCH"))) qsx_die ("cannot enter QSX_SCRATCH");
	QSexactStart ();
	if (quiet_log) QSlog_set_handler (qsx_log_sink, NULL);
#ifdef QSX_VERIF
	qsx_trace_cb = trace_cb;
#endif
	printf ("M "); mpq_out_str (stdout, 10, mpq_ILL_MAXDOUBLE); putchar ('\n');
	while (qsx_next (in))
	{
		const char *op = qsx_tok[0];
		if (!strcmp (op, "CASE"))
		{
			qsx_capture_report ();
			printf ("CASE %s\n", qsx_ntok > 1 ? qsx_tok[1] : "?");
		}
		else if (!strcmp (op, "RESTART"))
		{
			/* a second library session in the same process: everything freed, QSexactClear, QSexactStart;
			 * the log handler registered at start-up is NOT registered again (the host set it once) */
			if (P) mpq_QSfree_prob (P);
			P = NULL;
			if (KEPT) free_basis (KEPT);
			KEPT = NULL;
			free (BN_cs); free (BN_rs); if (BN_norms) mpq_EGlpNumFreeArray (BN_norms);
			BN_cs = BN_rs = NULL; BN_norms = NULL; BN_ok = 0; BN_n = BN_m = 0;
			QSexactClear ();
			QSexactStart ();
			printf ("RESTART\n");
		}
		else if (!strcmp (op, "LP"))
		{
			if (P) mpq_QSfree_prob (P);
			P = qsx_read_lp (in);
			printf ("LP %s\n", P ? "OK" : "ERR");
		}
		else if (!strcmp (op, "GETD"))
		{
			/* GETD <p/q> : mpq_get_d as an exact rational (C16: reduced-precision copies) */
			mpq_t a, b;
			double d;
			mpq_init (a); mpq_init (b);
			qsx_parse_q (qsx_tok[1], a);
			d = mpq_get_d (a);
			mpq_set_d (b, d);
			printf ("GETD "); mpq_out_str (qsx_get_out (), 10, b); putchar ('\n');
			mpq_clear (a); mpq_clear (b);
		}
		else if (!strcmp (op, "MKFILE"))
		{
			/* MKFILE <name> <hex bytes | -> : create a file in the scratch directory (scripts stay self-contained) */
			FILE *f = fopen (qsx_tok[1], "wb");
			const char *h = qsx_ntok > 2 ? qsx_tok[2] : "-";
			if (f)
			{
				if (strcmp (h, "-"))
					for (; h[0] && h[1]; h += 2)
					{
						unsigned int b = 0;
						sscanf (h, "%2x", &b);
						fputc ((int) b, f);
					}
				fclose (f);
			}
			printf ("MKFILE %s\n", f ? "OK" : "ERR");
		}
		else if (!strcmp (op, "READPROB"))
		{
			/* READPROB <file> <LP|MPS> : mpq_QSread_prob (may fail) */
			mpq_QSdata *np = mpq_QSread_prob (qsx_tok[1], qsx_tok[2]);
			printf ("READPROB %s\n", np ? "OK" : "NULL");
			if (np) { if (P) mpq_QSfree_prob (P); P = np; }
		}
		else if (!strcmp (op, "READPROBM"))
		{
			/* READPROBM <file> <LP|MPS> : the same through mpq_QSget_prob with a line reader and an error memory
			   (every stored error is looked at, then reader, collector and memory are released) */
			mpq_QSdata *np = NULL;
			int nerr = 0;
			EGioFile_t *f = EGioOpen (qsx_tok[1], "r");
			if (f)
			{
				mpq_QSline_reader rd = mpq_QSline_reader_new ((void *) EGioGets, f);
				mpq_QSerror_memory mem = mpq_QSerror_memory_create (0);
				mpq_QSerror_collector col = mpq_QSerror_memory_collector_new (mem);
				mpq_QSformat_error e;
				mpq_QSline_reader_set_error_collector (rd, col);
				np = mpq_QSget_prob (rd, qsx_tok[1], qsx_tok[2]);
				for (e = mpq_QSerror_memory_get_last_error (mem); e; e = mpq_QSerror_memory_get_prev_error (e)) nerr++;
				mpq_QSline_reader_free (rd);
				mpq_QSerror_collector_free (col);
				mpq_QSerror_memory_free (mem);
				EGioClose (f);
			}
			printf ("READPROBM %s %d\n", np ? "OK" : "NULL", nerr);
			if (np) { if (P) mpq_QSfree_prob (P); P = np; }
		}
		else if (!P)
		{
			printf ("NOPROB %s\n", op);
		}
		else if (!strcmp (op, "PARAM"))
		{
			int rv = mpq_QSset_param (P, atoi (qsx_tok[1]), atoi (qsx_tok[2]));
			printf ("PARAM %d\n", rv);
		}
		else if (!strcmp (op, "PRECISION"))
		{
			QSexact_set_precision ((unsigned) atoi (qsx_tok[1]));
			printf ("PRECISION %s\n", qsx_tok[1]);
		}
		else if (!strcmp (op, "LOADBASIS"))
		{
			int n = mpq_QSget_colcount (P), m = mpq_QSget_rowcount (P), rv;
			if ((int) strlen (qsx_tok[1]) != n || (int) strlen (qsx_tok[2]) != m)
				printf ("LOADBASIS SKIP\n");
			else
			{
				rv = mpq_QSload_basis_array (P, qsx_tok[1], qsx_tok[2]);
				printf ("LOADBASIS %d\n", rv);
			}
		}
		else if (!strcmp (op, "SOLVE") && !strcmp (qsx_tok[1], "EXACT"))
		{
			int n = mpq_QSget_colcount (P), m = mpq_QSget_rowcount (P), rv, st = -1;
			int algo = qsx_tok[2][0] == 'D' ? DUAL_SIMPLEX : PRIMAL_SIMPLEX;
			mpq_t *x = mpq_EGlpNumAllocArray (n + m + 1), *y = mpq_EGlpNumAllocArray (m + 1);
			QSbasis *B = NULL;
			if (qsx_ntok == 4 && !strcmp (qsx_tok[3], "KEPT"))
			{
				if (KEPT) B = mk_basis (KEPT->nstruct ? KEPT->cstat : "-", KEPT->nrows ? KEPT->rstat : "-");
				if (B && KEPT) { B->cstat[KEPT->nstruct] = 0; B->rstat[KEPT->nrows] = 0; }
			}
			else if (qsx_ntok >= 5) B = mk_basis (qsx_tok[3], qsx_tok[4]);
			else if (qsx_ntok == 4 && !strcmp (qsx_tok[3], "EMPTY")) B = (QSbasis *) calloc (1, sizeof (QSbasis));
			rv = QSexact_solver (P, x, y, B, algo, &st);
			printf ("SOLVE EXACT %d %d\n", rv, st);
			fputs ("X", stdout); qsx_print_qarr (stdout, x, n); putchar ('\n');
			fputs ("Y", stdout); qsx_print_qarr (stdout, y, m); putchar ('\n');
			fputs ("EBASIS", stdout); qsx_print_basis (stdout, B); putchar ('\n');
			if (B) { if (B->cstat) free (B->cstat); if (B->rstat) free (B->rstat); free (B); }
			mpq_EGlpNumFreeArray (x); mpq_EGlpNumFreeArray (y);
		}
		else if (!strcmp (op, "SOLVE"))
		{
			int rv, st = -1;
			if (!strcmp (qsx_tok[1], "PRIMAL")) rv = mpq_QSopt_primal (P, &st);
			else rv = mpq_QSopt_dual (P, &st);
			printf ("SOLVE %s %d %d\n", qsx_tok[1], rv, st);
		}
		else if (!strcmp (op, "ACCESS"))
		{
			do_access ();
		}
		else if (!strcmp (op, "INTSOL"))
		{
			/* values the rational simplex holds internally (before ILLlib_solution's sign reversal for MAX):
			 * INTSOL <optimal flag> <objval> | piz[nrows] | dz of the structural columns (0 when basic) */
			mpq_lpinfo *lp = P->lp;
			mpq_ILLlpdata *q = P->qslp;
			int i;
			if (!lp || !lp->piz || !lp->dz || !lp->vstat || !lp->vindex || lp->nrows != q->nrows || lp->ncols != q->ncols)
				printf ("INTSOL NA\n");
			else
			{
				printf ("INTSOL %d ", lp->basisstat.optimal);
				qsx_print_q (stdout, lp->objval);
				fputs (" |", stdout);
				qsx_print_qarr (stdout, lp->piz, lp->nrows);
				fputs (" |", stdout);
				for (i = 0; i < q->nstruct; i++)
				{
					int c = q->structmap[i];
					fputc (' ', stdout);
					if (lp->vstat[c] == STAT_BASIC) fputs ("0", stdout);
					else qsx_print_q (stdout, lp->dz[lp->vindex[c]]);
				}
				putchar ('\n');
			}
		}
		else if (!strcmp (op, "GETBASIS"))
		{
			QSbasis *B = mpq_QSget_basis (P);
			fputs ("BASIS", stdout); qsx_print_basis (stdout, B); putchar ('\n');
			if (B) mpq_QSfree_basis (B);
		}
		else if (!strcmp (op, "INFEASARR"))
		{
			int m = mpq_QSget_rowcount (P), rv;
			mpq_t *y = mpq_EGlpNumAllocArray (m + 1);
			rv = mpq_QSget_infeas_array (P, (qsx_ntok > 1 && !strcmp (qsx_tok[1], "NULL")) ? NULL : y);
			printf ("INFEASARR %d", rv); if (!rv) qsx_print_qarr (stdout, y, m); putchar ('\n');
			mpq_EGlpNumFreeArray (y);
		}
		else if (!strcmp (op, "PIVOTIN"))
		{
			/* PIVOTIN ROW|COL k i1..ik */
			int k = atoi (qsx_tok[2]), i, rv, *l = (int *) malloc (sizeof (int) * (k + 1));
			for (i = 0; i < k; i++) l[i] = atoi (qsx_tok[3 + i]);
			rv = qsx_tok[1][0] == 'R' ? mpq_QSopt_pivotin_row (P, k, l) : mpq_QSopt_pivotin_col (P, k, l);
			printf ("PIVOTIN %d\n", rv);
			free (l);
		}
		else if (!strcmp (op, "WRITEPROB"))
		{
			int rv = mpq_QSwrite_prob (P, qsx_tok[1], qsx_tok[2]);
			printf ("WRITEPROB %d\n", rv);
		}
		else if (!strcmp (op, "NEWCOL"))
		{
			/* NEWCOL <obj> <lo> <up> [count] : mpq_QSnew_col (empty columns) */
			int k = qsx_ntok > 4 ? atoi (qsx_tok[4]) : 1, rv = 0;
			mpq_t a, b, c;
			mpq_init (a); mpq_init (b); mpq_init (c);
			qsx_parse_q (qsx_tok[1], a); qsx_parse_q (qsx_tok[2], b); qsx_parse_q (qsx_tok[3], c);
			while (k-- > 0 && !rv) rv = mpq_QSnew_col (P, a, b, c, NULL);
			printf ("NEWCOL %d\n", rv);
			mpq_clear (a); mpq_clear (b); mpq_clear (c);
		}
		else if (!strcmp (op, "NEWROW"))
		{
			/* NEWROW <rhs> <sense> [count] */
			int k = qsx_ntok > 3 ? atoi (qsx_tok[3]) : 1, rv = 0;
			mpq_t a;
			mpq_init (a);
			qsx_parse_q (qsx_tok[1], a);
			while (k-- > 0 && !rv) rv = mpq_QSnew_row (P, a, qsx_tok[2][0], NULL);
			printf ("NEWROW %d\n", rv);
			mpq_clear (a);
		}
		else if (!strcmp (op, "ADDROW") || !strcmp (op, "ADDCOL"))
		{
			/* ADDROW <sense> <rhs> <k> (<col> <coef>)*k      ADDCOL <obj> <lo> <up> <k> (<row> <coef>)*k */
			int isrow = op[3] == 'R', off = isrow ? 3 : 4, k = atoi (qsx_tok[off]), j, rv;
			int *ind = (int *) malloc (sizeof (int) * (k + 1));
			mpq_t *val = mpq_EGlpNumAllocArray (k + 1), a, b, c;
			mpq_init (a); mpq_init (b); mpq_init (c);
			for (j = 0; j < k; j++) { ind[j] = atoi (qsx_tok[off + 1 + 2 * j]); qsx_parse_q (qsx_tok[off + 2 + 2 * j], val[j]); }
			if (isrow)
			{
				qsx_parse_q (qsx_tok[2], a);
				rv = mpq_QSadd_row (P, k, ind, val, &a, qsx_tok[1][0], NULL);
			}
			else
			{
				qsx_parse_q (qsx_tok[1], a); qsx_parse_q (qsx_tok[2], b); qsx_parse_q (qsx_tok[3], c);
				rv = mpq_QSadd_col (P, k, ind, val, a, b, c, NULL);
			}
			printf ("%s %d\n", op, rv);
			free (ind); mpq_EGlpNumFreeArray (val);
			mpq_clear (a); mpq_clear (b); mpq_clear (c);
		}
		else if (!strcmp (op, "GETBN"))
		{
			/* remember basis and row norms of the current problem */
			int n = mpq_QSget_colcount (P), m = mpq_QSget_rowcount (P), rv;
			free (BN_cs); free (BN_rs); if (BN_norms) mpq_EGlpNumFreeArray (BN_norms);
			BN_cs = (char *) calloc (n + 1, 1); BN_rs = (char *) calloc (m + 1, 1);
			BN_norms = mpq_EGlpNumAllocArray (m + 1);
			rv = mpq_QSget_basis_and_row_norms_array (P, BN_cs, BN_rs, BN_norms);
			BN_n = n; BN_m = m; BN_ok = !rv;
			printf ("GETBN %d\n", rv);
		}
		else if (!strcmp (op, "LOADBN"))
		{
			/* load the remembered basis (+ norms) into the possibly grown problem: new columns at
			 * lower bound, new rows basic, new norms 1 */
			int n = mpq_QSget_colcount (P), m = mpq_QSget_rowcount (P), i, rv = -1;
			if (BN_ok && n >= BN_n && m >= BN_m)
			{
				char *cs = (char *) calloc (n + 1, 1), *rs = (char *) calloc (m + 1, 1);
				mpq_t *nr = mpq_EGlpNumAllocArray (m + 1);
				for (i = 0; i < n; i++) cs[i] = i < BN_n ? BN_cs[i] : QS_COL_BSTAT_LOWER;
				for (i = 0; i < m; i++) rs[i] = i < BN_m ? BN_rs[i] : QS_ROW_BSTAT_BASIC;
				for (i = 0; i < m; i++) { if (i < BN_m) mpq_set (nr[i], BN_norms[i]); else mpq_set_ui (nr[i], 1UL, 1UL); }
				if (qsx_ntok > 1 && !strcmp (qsx_tok[1], "NONORMS")) rv = mpq_QSload_basis_array (P, cs, rs);
				else rv = mpq_QSload_basis_and_row_norms_array (P, cs, rs, nr);
				free (cs); free (rs); mpq_EGlpNumFreeArray (nr);
			}
			printf ("LOADBN %d\n", rv);
		}
		else if (!strcmp (op, "KEEPBASIS"))
		{
			QSbasis *B = mpq_QSget_basis (P);
			if (KEPT) free_basis (KEPT);
			KEPT = NULL;
			if (B)
			{
				char *cs = (char *) calloc (B->nstruct + 2, 1), *rs = (char *) calloc (B->nrows + 2, 1);
				memcpy (cs, B->cstat, B->nstruct); memcpy (rs, B->rstat, B->nrows);
				KEPT = mk_basis (B->nstruct ? cs : "-", B->nrows ? rs : "-");
				free (cs); free (rs);
				mpq_QSfree_basis (B);
			}
			printf ("KEEPBASIS %d\n", KEPT ? 1 : 0);
		}
		else if (!strcmp (op, "LOADKEPT"))
		{
			int rv = -1;
			if (KEPT && KEPT->nstruct == mpq_QSget_colcount (P) && KEPT->nrows == mpq_QSget_rowcount (P))
				rv = mpq_QSload_basis_array (P, KEPT->cstat, KEPT->rstat);
			printf ("LOADKEPT %d\n", rv);
		}
		else if (!strcmp (op, "OPTTEST"))
		{
			int nc = P->qslp->nstruct + P->qslp->nrows, m = P->qslp->nrows, i, r;
			QSbasis *B = mk_basis (qsx_tok[1], qsx_tok[2]);
			mpq_t *x = mpq_EGlpNumAllocArray (nc + 1), *y = mpq_EGlpNumAllocArray (m + 1);
			if (qsx_ntok != 3 + nc + m) qsx_die ("OPTTEST arity");
			for (i = 0; i < nc; i++) qsx_parse_q (qsx_tok[3 + i], x[i]);
			for (i = 0; i < m; i++) qsx_parse_q (qsx_tok[3 + nc + i], y[i]);
			r = QSexact_optimal_test (P, x, y, B);
			printf ("OPTTEST %d\n", r);
			if (r) do_access ();
			free_basis (B);
			mpq_EGlpNumFreeArray (x); mpq_EGlpNumFreeArray (y);
		}
		else if (!strcmp (op, "INFTEST"))
		{
			int m = P->qslp->nrows, i, r;
			mpq_t *y = mpq_EGlpNumAllocArray (m + 1);
			if (qsx_ntok != 1 + m) qsx_die ("INFTEST arity");
			for (i = 0; i < m; i++) qsx_parse_q (qsx_tok[1 + i], y[i]);
			r = QSexact_infeasible_test (P, y);
			printf ("INFTEST %d\n", r);
			mpq_EGlpNumFreeArray (y);
		}
		else if (!strcmp (op, "BOPT") || !strcmp (op, "BDUAL"))
		{
			QSbasis *B = mk_basis (qsx_tok[1], qsx_tok[2]);
			char res = 0;
			int rv;
			mpq_t d;
			mpq_init (d);
			if (!strcmp (op, "BOPT")) rv = QSexact_basis_optimalstatus (P, B, &res, 0);
			else rv = QSexact_basis_dualstatus (P, B, &res, &d, 0);
			printf ("%s %d %d ", op, rv, (int) res); qsx_print_q (stdout, d); putchar ('\n');
			mpq_clear (d);
			free_basis (B);
		}
		else if (!strcmp (op, "WRITEBAS"))
		{
			/* WRITEBAS <file> : the problem's own basis */
			int rv = mpq_QSwrite_basis (P, NULL, qsx_tok[1]);
			printf ("WRITEBAS %d\n", rv);
		}
		else if (!strcmp (op, "READBAS"))
		{
			int rv = mpq_QSread_and_load_basis (P, qsx_tok[1]);
			printf ("READBAS %d\n", rv);
		}
		else if (!strcmp (op, "PRINTSOL"))
		{
			/* PRINTSOL <file> : QSexact_print_sol of the current (exactly solved) problem */
			EGioFile_t *f = EGioOpen (qsx_tok[1], "w");
			int rv = f ? QSexact_print_sol (P, f) : -1;
			if (f) EGioClose (f);
			printf ("PRINTSOL %d\n", rv);
		}
		else if (!strcmp (op, "VERIFY"))
		{
			/* VERIFY <useprestep 0|1> [cstat rstat] : QSexact_verify with the given basis (or the problem's own) */
			QSbasis *B = qsx_ntok >= 4 ? mk_basis (qsx_tok[2], qsx_tok[3]) : mpq_QSget_basis (P);
			char res = 0;
			int rv;
			mpq_t d;
			mpq_init (d);
			if (!B) { printf ("VERIFY NOBASIS\n"); mpq_clear (d); continue; }
			rv = QSexact_verify (P, B, atoi (qsx_tok[1]), NULL, NULL, &res, &d, 0);
			printf ("VERIFY %d %d ", rv, (int) res); qsx_print_q (stdout, d); putchar ('\n');
			mpq_clear (d);
			if (qsx_ntok >= 4) free_basis (B); else mpq_QSfree_basis (B);
		}
		else if (!strcmp (op, "DUMP"))
		{
			qsx_dump_ilp (stdout, P);
			if (qsx_dump_user (stdout, P)) printf ("ULP ERR\n");
		}
		else if (!strcmp (op, "CHG"))
		{
			/* CHG coef i j v | obj j v | rhs i v | sense i s | bound j L|U|B v | objsense MIN|MAX
			 * | delrow i | delcol j | range i v */
			int rv = -99;
			mpq_t v;
			mpq_init (v);
			if (!strcmp (qsx_tok[1], "coef")) { qsx_parse_q (qsx_tok[4], v); rv = mpq_QSchange_coef (P, atoi (qsx_tok[2]), atoi (qsx_tok[3]), v); }
			else if (!strcmp (qsx_tok[1], "obj")) { qsx_parse_q (qsx_tok[3], v); rv = mpq_QSchange_objcoef (P, atoi (qsx_tok[2]), v); }
			else if (!strcmp (qsx_tok[1], "rhs")) { qsx_parse_q (qsx_tok[3], v); rv = mpq_QSchange_rhscoef (P, atoi (qsx_tok[2]), v); }
			else if (!strcmp (qsx_tok[1], "range")) { qsx_parse_q (qsx_tok[3], v); rv = mpq_QSchange_range (P, atoi (qsx_tok[2]), v); }
			else if (!strcmp (qsx_tok[1], "sense")) rv = mpq_QSchange_sense (P, atoi (qsx_tok[2]), qsx_tok[3][0]);
			else if (!strcmp (qsx_tok[1], "bound")) { qsx_parse_q (qsx_tok[4], v); rv = mpq_QSchange_bound (P, atoi (qsx_tok[2]), qsx_tok[3][0], v); }
			else if (!strcmp (qsx_tok[1], "objsense")) rv = mpq_QSchange_objsense (P, strcmp (qsx_tok[2], "MAX") ? QS_MIN : QS_MAX);
			else if (!strcmp (qsx_tok[1], "delrow")) rv = mpq_QSdelete_row (P, atoi (qsx_tok[2]));
			else if (!strcmp (qsx_tok[1], "delbasicrow"))
			{
				/* delete the k-th row (k = argument, counted cyclically) whose logical is basic in the stored basis:
				   the delete call that may keep basis and cached solution */
				int m = mpq_QSget_rowcount (P), n = mpq_QSget_colcount (P), i, cnt = 0, pick = -1, want = atoi (qsx_tok[2]);
				char *cs = (char *) malloc ((size_t) n + 1), *rs = (char *) malloc ((size_t) m + 1);
				rv = 0;
				if (m > 1 && mpq_QSget_basis_array (P, cs, rs) == 0)
				{
					for (i = 0; i < m; i++) if (rs[i] == QS_ROW_BSTAT_BASIC) cnt++;
					if (cnt) for (i = 0, want = want % cnt; i < m; i++) if (rs[i] == QS_ROW_BSTAT_BASIC && want-- == 0) { pick = i; break; }
					if (pick >= 0) rv = mpq_QSdelete_row (P, pick);
				}
				free (cs); free (rs);
			}
			else if (!strcmp (qsx_tok[1], "delcol")) rv = mpq_QSdelete_col (P, atoi (qsx_tok[2]));
			printf ("CHG %d\n", rv);
			mpq_clear (v);
		}
		else
		{
			printf ("UNKNOWN %s\n", op);
		}
		fflush (stdout);
	}
	if (P) mpq_QSfree_prob (P);
	if (KEPT) free_basis (KEPT);
	free (BN_cs); free (BN_rs); if (BN_norms) mpq_EGlpNumFreeArray (BN_norms);
	QSexactClear ();
	free (qsx_line); free (qsx_tok);
	qsx_capture_report ();
	fflush (qsx_get_out ());
	return 0;
}
