/* Basis / factorization harness (C12, C13).
 *
 * Script (stdin), one op per line:
 *   CASE <id>
 *   LP ... block                    (common.h) replaces the current problem
 *   PARAM <id> <int>                mpq_QSset_param
 *   DUMP                            ILP + ULP dumps
 *   BOPT <cstat> <rstat>            QSexact_basis_optimalstatus
 *   BDUAL <cstat> <rstat>           QSexact_basis_dualstatus
 *   BDUALP <g> <cstat> <rstat>      same, after filling the dead stack below the caller with the int g
 *   VERIFY <prestep> <cstat> <rstat>  QSexact_verify (dbl solutions NULL)
 *   LOADBASIS <cstat> <rstat>       mpq_QSload_basis_array
 *   KEEPBASIS                       remember mpq_QSget_basis (SOLVE EXACT remembers its returned basis as KEPTE);
 *                                   BOPT/BDUAL/BDUALP/VERIFY/LOADBASIS accept `KEPT -` or `KEPTE -` as the basis
 *   SOLVE EXACT <P|D> | SOLVE PRIMAL | SOLVE DUAL
 *   GETBASIS                        mpq_QSget_basis
 *   ITCNT                           mpq_QSget_itcnt
 *   ACCESS                          status, objval, x, pi, slack, rc
 *   TABLEAU                         basis order, every row of B^-1, every tableau row
 *   PIVROW <k> <r>*k | PIVCOL <k> <c>*k    mpq_QSopt_pivotin_row / _col
 *   CHG coef i j v | obj j v | rhs i v | sense i s | bound j L|U|B v | objsense MIN|MAX | range i v   edits of the current object
 *  component level (mpq_ILLfactor*):
 *   FNEW <n> [<param> <val>]*       fresh factor_work of dimension n (iparams: 1 MAX_K, 2 P, 3 ETAMAX, 17 DENSE_MIN;
 *                                   d<code> <rational> = dparam, e.g. d11 ER_SPACE_MUL, d8 UC_SPACE_MUL, d16 DENSE_FRACT)
 *   FCOL <k> <cnt> (<row> <val>)*   set column k of the matrix (sparse)
 *   FACTOR                          mpq_ILLfactor on the current columns
 *   FTRAN <cnt> (<idx> <val>)*      -> FTRAN x_0 .. x_{n-1} ; XORD <cnt> <idx>*  (the indices of the result in the order listed)
 *   BTRAN <cnt> (<idx> <val>)*      -> BTRAN y_0 .. y_{n-1} ; XORD ...
 *   FUPD <col> <cnt> (<row> <val>)* ftran_update with the new column (-> FUPDX x, FUPDS spike as listed), then ILLfactor_update replacing basis position col;
 *                                   on failure / refactor request: fresh factorization (REFACTOR), undone if singular (REVERT)
 *   FDUMP                           representation dump of the factor_work (header field dense_base: -1 <=> dense_factor did not run);
 *                                   after a factorization that reported nsing > 0: "FDUMP sing n stage s nstages t dense_base d", RPERM, CPERM
 *   FFREE
 */
#include "common.h"
#include "factor_mpq.h"

static mpq_QSdata *P = NULL;

static QSbasis *mk_basis (const char *cs, const char *rs)
{
	QSbasis *B = (QSbasis *) calloc (1, sizeof (QSbasis));
	int n = strcmp (cs, "-") ? (int) strlen (cs) : 0, m = strcmp (rs, "-") ? (int) strlen (rs) : 0;
	B->nstruct = n; B->nrows = m;
	B->cstat = (char *) malloc (n + 1); B->rstat = (char *) malloc (m + 1);
	memcpy (B->cstat, n ? cs : "", n); memcpy (B->rstat, m ? rs : "", m);
	B->cstat[n] = 0; B->rstat[m] = 0;
	return B;
}
static void free_basis (QSbasis * B)
{
	if (!B) return;
	free (B->cstat); free (B->rstat); free (B);
}
static QSbasis *KEPT = NULL, *KEPTE = NULL;	/* remembered by KEEPBASIS / SOLVE EXACT; survive LP blocks */
static QSbasis *copy_basis (QSbasis * S)
{
	QSbasis *B;
	if (!S) return NULL;
	B = (QSbasis *) calloc (1, sizeof (QSbasis));
	B->nstruct = S->nstruct; B->nrows = S->nrows;
	B->cstat = (char *) calloc (S->nstruct + 1, 1); B->rstat = (char *) calloc (S->nrows + 1, 1);
	if (S->cstat) memcpy (B->cstat, S->cstat, S->nstruct);
	if (S->rstat) memcpy (B->rstat, S->rstat, S->nrows);
	return B;
}
/* basis argument: "<cstat> <rstat>" or "KEPT -" / "KEPTE -" */
static QSbasis *arg_basis (int t)
{
	if (!strcmp (qsx_tok[t], "KEPT")) return copy_basis (KEPT);
	if (!strcmp (qsx_tok[t], "KEPTE")) return copy_basis (KEPTE);
	return mk_basis (qsx_tok[t], qsx_tok[t + 1]);
}

/* fill the stack region that the next call will use with a chosen int pattern */
static void __attribute__ ((noinline)) poison_stack (int g)
{
	volatile int a[8192];
	int i;
	for (i = 0; i < 8192; i++) a[i] = g;
	(void) a[17];
}

static void do_access (void)
{
	int n = mpq_QSget_colcount (P), m = mpq_QSget_rowcount (P), rv, st = -1;
	mpq_t v, *x = mpq_EGlpNumAllocArray (n + 1), *pi = mpq_EGlpNumAllocArray (m + 1),
		*rc = mpq_EGlpNumAllocArray (n + 1), *sl = mpq_EGlpNumAllocArray (m + 1);
	mpq_init (v);
	rv = mpq_QSget_status (P, &st);
	printf ("ACC status %d %d\n", rv, st);
	rv = mpq_QSget_objval (P, &v);
	printf ("ACC objval %d ", rv); qsx_print_q (stdout, v); putchar ('\n');
	rv = mpq_QSget_x_array (P, x);
	printf ("ACC x %d", rv); if (!rv) qsx_print_qarr (stdout, x, n); putchar ('\n');
	rv = mpq_QSget_pi_array (P, pi);
	printf ("ACC pi %d", rv); if (!rv) qsx_print_qarr (stdout, pi, m); putchar ('\n');
	rv = mpq_QSget_rc_array (P, rc);
	printf ("ACC rc %d", rv); if (!rv) qsx_print_qarr (stdout, rc, n); putchar ('\n');
	rv = mpq_QSget_slack_array (P, sl);
	printf ("ACC slack %d", rv); if (!rv) qsx_print_qarr (stdout, sl, m); putchar ('\n');
	mpq_clear (v);
	mpq_EGlpNumFreeArray (x); mpq_EGlpNumFreeArray (pi); mpq_EGlpNumFreeArray (rc); mpq_EGlpNumFreeArray (sl);
}

/* ---- component level state ------------------------------------------------------------ */
static mpq_factor_work *F = NULL;
static int FN = 0;
static int *Fbasis = NULL, *Fcbeg = NULL, *Fclen = NULL, *Fcind = NULL;
static mpq_t *Fcoef = NULL;
static int Fcap = 0;		/* per column capacity = FN */
static int Fvalid = 0;		/* the last factorization succeeded and was non-singular */
static int Fsing = 0;		/* the last factorization returned 0 and reported nsing > 0 (permutations / stage still readable) */

static void f_free (void)
{
	if (F)
	{
		mpq_ILLfactor_free_factor_work (F);
		mpq_EGlpNumClearVar (F->fzero_tol); mpq_EGlpNumClearVar (F->szero_tol); mpq_EGlpNumClearVar (F->partial_tol);
		mpq_EGlpNumClearVar (F->maxelem_orig); mpq_EGlpNumClearVar (F->maxelem_factor); mpq_EGlpNumClearVar (F->maxelem_cur);
		mpq_EGlpNumClearVar (F->partial_cur);
		free (F); F = NULL;
	}
	free (Fbasis); free (Fcbeg); free (Fclen); free (Fcind); Fbasis = Fcbeg = Fclen = Fcind = NULL;
	if (Fcoef) mpq_EGlpNumFreeArray (Fcoef);
	Fcoef = NULL;
	FN = 0;
}

static void f_new (int n)
{
	int i;
	f_free ();
	Fvalid = 0;
	FN = n; Fcap = n > 0 ? n : 1;
	F = (mpq_factor_work *) calloc (1, sizeof (mpq_factor_work));
	mpq_EGlpNumInitVar (F->fzero_tol); mpq_EGlpNumInitVar (F->szero_tol); mpq_EGlpNumInitVar (F->partial_tol);
	mpq_EGlpNumInitVar (F->maxelem_orig); mpq_EGlpNumInitVar (F->maxelem_factor); mpq_EGlpNumInitVar (F->maxelem_cur);
	mpq_EGlpNumInitVar (F->partial_cur);
	mpq_ILLfactor_init_factor_work (F);
	Fbasis = (int *) calloc (n + 1, sizeof (int));
	Fcbeg = (int *) calloc (n + 1, sizeof (int));
	Fclen = (int *) calloc (n + 1, sizeof (int));
	Fcind = (int *) calloc ((size_t) n * Fcap + 1, sizeof (int));
	Fcoef = mpq_EGlpNumAllocArray (n * Fcap + 1);
	for (i = 0; i < n; i++) { Fbasis[i] = i; Fcbeg[i] = i * Fcap; Fclen[i] = 0; }
}

/* parse "<cnt> (<idx> <val>)*" starting at token t into an svector (allocated with dim n) */
static void parse_svec (int t, mpq_svector * v, int n)
{
	int k = atoi (qsx_tok[t]), i;
	mpq_ILLsvector_init (v);
	if (mpq_ILLsvector_alloc (v, n > 0 ? n : 1)) qsx_die ("svector alloc");
	if (qsx_ntok < t + 1 + 2 * k || k > n) qsx_die ("svector arity");
	for (i = 0; i < k; i++)
	{
		v->indx[i] = atoi (qsx_tok[t + 1 + 2 * i]);
		if (v->indx[i] < 0 || v->indx[i] >= n) qsx_die ("svector index");
		qsx_parse_q (qsx_tok[t + 2 + 2 * i], v->coef[i]);
	}
	v->nzcnt = k;
}

/* (re)factor the current columns; prints " <rv> <nsing> (<singr> <singc>)*"; returns non-zero when rv != 0 or nsing > 0 */
static int f_factor (void)
{
	int rv, nsing = 0, *singr = 0, *singc = 0, i;
	Fvalid = 0; Fsing = 0;
	if (F->rperm) mpq_ILLfactor_free_factor_work (F);
	rv = mpq_ILLfactor_create_factor_work (F, FN);
	if (rv) { printf (" %d create", rv); return 1; }
	/* dense_base is written by dense_build_matrix only: -1 afterwards <=> dense_factor did not run */
	F->dense_base = -1; F->drows = 0; F->dcols = 0;
	rv = mpq_ILLfactor (F, Fbasis, Fcbeg, Fclen, Fcind, Fcoef, &nsing, &singr, &singc);
	printf (" %d %d", rv, nsing);
	for (i = 0; i < nsing; i++) printf (" %d %d", singr[i], singc[i]);
	if (singr) mpq_QSfree (singr);
	if (singc) mpq_QSfree (singc);
	Fvalid = (rv == 0 && nsing == 0);
	Fsing = (rv == 0 && nsing > 0);
	return rv != 0 || nsing > 0;
}

static void print_dense (const char *tag, mpq_svector * x, int n)
{
	int i;
	mpq_t *d = mpq_EGlpNumAllocArray (n + 1);
	int bad = 0;
	for (i = 0; i < x->nzcnt; i++)
	{
		if (x->indx[i] < 0 || x->indx[i] >= n) { bad = 1; continue; }
		if (mpq_sgn (d[x->indx[i]]) != 0) bad = 2;	/* duplicate index */
		mpq_set (d[x->indx[i]], x->coef[i]);
	}
	printf ("%s %d", tag, bad);
	qsx_print_qarr (stdout, d, n);
	putchar ('\n');
	mpq_EGlpNumFreeArray (d);
}

static void f_dump (void)
{
	int i, k, n = FN;
	mpq_factor_work *f = F;
	if (f && f->rperm && !Fvalid && Fsing)
	{
		/* singular stop: no iteration data was built; the permutations and the stage counters are what handle_singularity read */
		printf ("FDUMP sing %d stage %d nstages %d dense_base %d\n", n, f->stage, f->nstages, f->dense_base);
		fputs ("RPERM", stdout); for (i = 0; i < n; i++) printf (" %d", f->rperm[i]); putchar ('\n');
		fputs ("CPERM", stdout); for (i = 0; i < n; i++) printf (" %d", f->cperm[i]); putchar ('\n');
		printf ("FDUMPEND\n");
		return;
	}
	if (!f || !f->rperm || !Fvalid) { printf ("FDUMP none\n"); return; }
	printf ("FDUMP %d stage %d nstages %d etacnt %d dense_base %d drows %d dcols %d\n", n, f->stage, f->nstages, f->etacnt,
					f->dense_base, f->drows, f->dcols);
	fputs ("RPERM", stdout); for (i = 0; i < n; i++) printf (" %d", f->rperm[i]); putchar ('\n');
	fputs ("CPERM", stdout); for (i = 0; i < n; i++) printf (" %d", f->cperm[i]); putchar ('\n');
	fputs ("RRANK", stdout); for (i = 0; i < n; i++) printf (" %d", f->rrank[i]); putchar ('\n');
	fputs ("CRANK", stdout); for (i = 0; i < n; i++) printf (" %d", f->crank[i]); putchar ('\n');
	/* L etas in column form, all dim of them as ILLfactor_ftranl walks them (the ranks >= nstages belong to row singletons and
	   are empty): for each stage, column c: list of (row, coef) */
	for (i = 0; i < n; i++)
	{
		mpq_lc_info *lc = f->lc_inf + i;
		printf ("LC %d %d", lc->c, lc->nzcnt);
		for (k = 0; k < lc->nzcnt; k++) { printf (" %d ", f->lcindx[lc->cbeg + k]); qsx_print_q (stdout, f->lccoef[lc->cbeg + k]); }
		putchar ('\n');
	}
	/* L in row form (used by btran) */
	for (i = 0; i < n; i++)
	{
		mpq_lr_info *lr = f->lr_inf + i;
		printf ("LR %d %d %d", i, lr->r, lr->nzcnt);
		for (k = 0; k < lr->nzcnt; k++) { printf (" %d ", f->lrindx[lr->rbeg + k]); qsx_print_q (stdout, f->lrcoef[lr->rbeg + k]); }
		putchar ('\n');
	}
	/* row etas of the updates */
	for (i = 0; i < f->etacnt; i++)
	{
		mpq_er_info *er = f->er_inf + i;
		printf ("ER %d %d", er->r, er->nzcnt);
		for (k = 0; k < er->nzcnt; k++) { printf (" %d ", f->erindx[er->rbeg + k]); qsx_print_q (stdout, f->ercoef[er->rbeg + k]); }
		putchar ('\n');
	}
	/* U by columns (pivot first) and by rows (pivot first) */
	for (i = 0; i < n; i++)
	{
		mpq_uc_info *uc = f->uc_inf + i;
		printf ("UC %d %d", i, uc->nzcnt);
		for (k = 0; k < uc->nzcnt; k++) { printf (" %d ", f->ucindx[uc->cbeg + k]); qsx_print_q (stdout, f->uccoef[uc->cbeg + k]); }
		putchar ('\n');
	}
	for (i = 0; i < n; i++)
	{
		mpq_ur_info *ur = f->ur_inf + i;
		printf ("UR %d %d", i, ur->nzcnt);
		for (k = 0; k < ur->nzcnt; k++) { printf (" %d ", f->urindx[ur->rbeg + k]); qsx_print_q (stdout, f->urcoef[ur->rbeg + k]); }
		putchar ('\n');
	}
	printf ("FDUMPEND\n");
}

int main (int argc, char **argv)
{
	FILE *in = stdin;
	(void) argc; (void) argv;
	QSexactStart ();
	QSlog_set_handler (qsx_log_sink, NULL);
	printf ("M "); mpq_out_str (stdout, 10, mpq_ILL_MAXDOUBLE); putchar ('\n');
	while (qsx_next (in))
	{
		const char *op = qsx_tok[0];
		if (!strcmp (op, "CASE"))
		{
			printf ("CASE %s\n", qsx_ntok > 1 ? qsx_tok[1] : "?");
		}
		else if (!strcmp (op, "LP"))
		{
			if (P) mpq_QSfree_prob (P);
			P = qsx_read_lp (in);
			printf ("LP %s\n", P ? "OK" : "ERR");
		}
		/* ---- component level: no problem needed ---- */
		else if (!strcmp (op, "FNEW"))
		{
			int i, rv = 0;
			f_new (atoi (qsx_tok[1]));
			for (i = 2; i + 1 < qsx_ntok; i += 2)
			{
				if (qsx_tok[i][0] == 'd')
				{
					mpq_t v;
					mpq_init (v);
					qsx_parse_q (qsx_tok[i + 1], v);
					rv |= mpq_ILLfactor_set_factor_dparam (F, atoi (qsx_tok[i] + 1), v);
					mpq_clear (v);
				}
				else
					rv |= mpq_ILLfactor_set_factor_iparam (F, atoi (qsx_tok[i]), atoi (qsx_tok[i + 1]));
			}
			printf ("FNEW %d %d\n", FN, rv);
		}
		else if (!strcmp (op, "FCOL"))
		{
			int k = atoi (qsx_tok[1]), cnt = atoi (qsx_tok[2]), i;
			if (!F || k < 0 || k >= FN || cnt > Fcap || qsx_ntok < 3 + 2 * cnt) qsx_die ("FCOL");
			for (i = 0; i < cnt; i++)
			{
				Fcind[Fcbeg[k] + i] = atoi (qsx_tok[3 + 2 * i]);
				qsx_parse_q (qsx_tok[4 + 2 * i], Fcoef[Fcbeg[k] + i]);
			}
			Fclen[k] = cnt;
		}
		else if (!strcmp (op, "FACTOR"))
		{
			if (!F) qsx_die ("FACTOR without FNEW");
			fputs ("FACTOR", stdout);
			f_factor ();
			putchar ('\n');
		}
		else if (!strcmp (op, "FTRAN") || !strcmp (op, "BTRAN"))
		{
			mpq_svector a, x;
			if (!F) qsx_die ("solve without factor");
			if (!Fvalid) { printf ("%s NOFACTOR\n", op); fflush (stdout); continue; }
			parse_svec (1, &a, FN);
			mpq_ILLsvector_init (&x);
			mpq_ILLsvector_alloc (&x, FN > 0 ? FN : 1);
			if (op[0] == 'F') mpq_ILLfactor_ftran (F, &a, &x);
			else mpq_ILLfactor_btran (F, &a, &x);
			print_dense (op, &x, FN);
			/* the order in which the result is listed = the order in which the last phase (ftranu / ftranu3, btranl2 / btranl3) handled
			   the entries with a non-zero value */
			{ int k; printf ("XORD %d", x.nzcnt); for (k = 0; k < x.nzcnt; k++) printf (" %d", x.indx[k]); putchar ('\n'); }
			mpq_ILLsvector_free (&a); mpq_ILLsvector_free (&x);
		}
		else if (!strcmp (op, "FUPD"))
		{
			mpq_svector a, upd, x;
			int col = atoi (qsx_tok[1]), refactor = 0, rv, i, oldlen, *oldind;
			mpq_t *oldcoef;
			if (!F || col < 0 || col >= FN) qsx_die ("FUPD");
			if (!Fvalid) { printf ("FUPDX NOFACTOR\nFUPDS NOFACTOR\nFUPD NOFACTOR\n"); fflush (stdout); continue; }
			parse_svec (2, &a, FN);
			mpq_ILLsvector_init (&x); mpq_ILLsvector_alloc (&x, FN);
			mpq_ILLsvector_init (&upd); mpq_ILLsvector_alloc (&upd, FN);
			/* remember the column that is replaced */
			oldlen = Fclen[col];
			oldind = (int *) calloc (FN + 1, sizeof (int));
			oldcoef = mpq_EGlpNumAllocArray (FN + 1);
			for (i = 0; i < oldlen; i++) { oldind[i] = Fcind[Fcbeg[col] + i]; mpq_set (oldcoef[i], Fcoef[Fcbeg[col] + i]); }
			for (i = 0; i < a.nzcnt; i++) { Fcind[Fcbeg[col] + i] = a.indx[i]; mpq_set (Fcoef[Fcbeg[col] + i], a.coef[i]); }
			Fclen[col] = a.nzcnt;
			mpq_ILLfactor_ftran_update (F, &a, &upd, &x);
			print_dense ("FUPDX", &x, FN);
			/* the spike handed to ILLfactor_update, as listed (order and explicit zeros kept) */
			printf ("FUPDS %d", upd.nzcnt);
			for (i = 0; i < upd.nzcnt; i++) { printf (" %d ", upd.indx[i]); qsx_print_q (stdout, upd.coef[i]); }
			putchar ('\n');
			rv = mpq_ILLfactor_update (F, &upd, col, &refactor);
			printf ("FUPD %d %d", rv, refactor);
			if (rv || refactor)
			{
				/* as ILLbasis_update: any failure or request means a fresh factorization of the new matrix */
				int sing;
				fputs (" REFACTOR", stdout);
				sing = f_factor ();
				if (sing)
				{
					/* singular (or failed): undo the replacement so that the script can go on */
					for (i = 0; i < oldlen; i++) { Fcind[Fcbeg[col] + i] = oldind[i]; mpq_set (Fcoef[Fcbeg[col] + i], oldcoef[i]); }
					Fclen[col] = oldlen;
					fputs (" REVERT", stdout);
					f_factor ();
				}
			}
			putchar ('\n');
			free (oldind); mpq_EGlpNumFreeArray (oldcoef);
			mpq_ILLsvector_free (&a); mpq_ILLsvector_free (&x); mpq_ILLsvector_free (&upd);
		}
		else if (!strcmp (op, "FDUMP"))
		{
			f_dump ();
		}
		else if (!strcmp (op, "FFREE"))
		{
			f_free ();
			printf ("FFREE\n");
		}
		else if (!P)
		{
			printf ("NOPROB %s\n", op);
		}
		else if (!strcmp (op, "PARAM"))
		{
			int rv = mpq_QSset_param (P, atoi (qsx_tok[1]), atoi (qsx_tok[2]));
			printf ("PARAM %d\n", rv);
		}
		else if (!strcmp (op, "DUMP"))
		{
			qsx_dump_ilp (stdout, P);
			if (qsx_dump_user (stdout, P)) printf ("ULP ERR\n");
		}
		else if (!strcmp (op, "CHG"))
		{
			/* CHG coef i j v | obj j v | rhs i v | sense i s | bound j L|U|B v | objsense MIN|MAX | range i v
			 * (edits on the current object: verdict calls after them must answer for the edited problem) */
			int rv = -99;
			mpq_t v;
			mpq_init (v);
			if (!strcmp (qsx_tok[1], "coef")) { qsx_parse_q (qsx_tok[4], v); rv = mpq_QSchange_coef (P, atoi (qsx_tok[2]), atoi (qsx_tok[3]), v); }
			else if (!strcmp (qsx_tok[1], "obj")) { qsx_parse_q (qsx_tok[3], v); rv = mpq_QSchange_objcoef (P, atoi (qsx_tok[2]), v); }
			else if (!strcmp (qsx_tok[1], "rhs")) { qsx_parse_q (qsx_tok[3], v); rv = mpq_QSchange_rhscoef (P, atoi (qsx_tok[2]), v); }
			else if (!strcmp (qsx_tok[1], "range")) { qsx_parse_q (qsx_tok[3], v); rv = mpq_QSchange_range (P, atoi (qsx_tok[2]), v); }
			else if (!strcmp (qsx_tok[1], "sense")) rv = mpq_QSchange_sense (P, atoi (qsx_tok[2]), qsx_tok[3][0]);
			else if (!strcmp (qsx_tok[1], "bound")) { qsx_parse_q (qsx_tok[4], v); rv = mpq_QSchange_bound (P, atoi (qsx_tok[2]), qsx_tok[3][0], v); }
			else if (!strcmp (qsx_tok[1], "objsense")) rv = mpq_QSchange_objsense (P, strcmp (qsx_tok[2], "MAX") ? QS_MIN : QS_MAX);
			printf ("CHG %d\n", rv);
			mpq_clear (v);
		}
		else if (!strcmp (op, "BOPT") || !strcmp (op, "BDUAL") || !strcmp (op, "BDUALP") || !strcmp (op, "VERIFY"))
		{
			int o = (!strcmp (op, "BDUALP") || !strcmp (op, "VERIFY")) ? 1 : 0;
			QSbasis *B = arg_basis (1 + o);
			char res = 0;
			int rv;
			mpq_t d;
			if (!B) { printf ("%s NOBASIS\n", op); fflush (stdout); continue; }
			mpq_init (d);
			if (!strcmp (op, "BOPT")) rv = QSexact_basis_optimalstatus (P, B, &res, 1);
			else if (!strcmp (op, "BDUAL")) rv = QSexact_basis_dualstatus (P, B, &res, &d, 1);
			else if (!strcmp (op, "BDUALP")) { poison_stack (atoi (qsx_tok[1])); rv = QSexact_basis_dualstatus (P, B, &res, &d, 1); }
			else rv = QSexact_verify (P, B, atoi (qsx_tok[1]), NULL, NULL, &res, &d, 1);
			printf ("%s %d %d ", op, rv, (int) res); qsx_print_q (stdout, d); putchar ('\n');
			mpq_clear (d);
			free_basis (B);
		}
		else if (!strcmp (op, "KEEPBASIS"))
		{
			QSbasis *B = mpq_QSget_basis (P);
			free_basis (KEPT);
			KEPT = copy_basis (B);
			fputs ("KEEPBASIS", stdout); qsx_print_basis (stdout, KEPT); putchar ('\n');
			if (B) mpq_QSfree_basis (B);
		}
		else if (!strcmp (op, "LOADBASIS") && (!strcmp (qsx_tok[1], "KEPT") || !strcmp (qsx_tok[1], "KEPTE")))
		{
			QSbasis *B = arg_basis (1);
			int rv = -1;
			if (B && B->nstruct == mpq_QSget_colcount (P) && B->nrows == mpq_QSget_rowcount (P))
				rv = mpq_QSload_basis (P, B);
			printf ("LOADBASIS %d\n", rv);
			free_basis (B);
		}
		else if (!strcmp (op, "LOADBASISQ"))
		{
			/* LOADBASISQ <cs> <rs> : the same basis through mpq_QSload_basis (a QSbasis object) instead of the array form */
			QSbasis *B = arg_basis (1);
			int rv = -1;
			if (B && B->nstruct == mpq_QSget_colcount (P) && B->nrows == mpq_QSget_rowcount (P))
				rv = mpq_QSload_basis (P, B);
			printf ("LOADBASIS %d\n", rv);
			free_basis (B);
		}
		else if (!strcmp (op, "LOADBASIS"))
		{
			int n = mpq_QSget_colcount (P), m = mpq_QSget_rowcount (P), rv;
			const char *cs = strcmp (qsx_tok[1], "-") ? qsx_tok[1] : "", *rs = strcmp (qsx_tok[2], "-") ? qsx_tok[2] : "";
			if ((int) strlen (cs) != n || (int) strlen (rs) != m)
				printf ("LOADBASIS SKIP\n");
			else
			{
				rv = mpq_QSload_basis_array (P, (char *) cs, (char *) rs);
				printf ("LOADBASIS %d\n", rv);
			}
		}
		else if (!strcmp (op, "SOLVE") && !strcmp (qsx_tok[1], "EXACT"))
		{
			int n = mpq_QSget_colcount (P), m = mpq_QSget_rowcount (P), rv, st = -1;
			int algo = qsx_tok[2][0] == 'D' ? DUAL_SIMPLEX : PRIMAL_SIMPLEX;
			mpq_t *x = mpq_EGlpNumAllocArray (n + m + 1), *y = mpq_EGlpNumAllocArray (m + 1);
			/* SOLVE EXACT P|D            cold: an empty QSbasis that receives the final basis
			 * SOLVE EXACT P|D <cs> <rs>  warm: the given statuses are the starting basis and are replaced by the final one */
			QSbasis *B = qsx_ntok >= 5 ? mk_basis (qsx_tok[3], qsx_tok[4]) : (QSbasis *) calloc (1, sizeof (QSbasis));
			rv = QSexact_solver (P, x, y, B, algo, &st);
			printf ("SOLVE EXACT %d %d\n", rv, st);
			fputs ("X", stdout); qsx_print_qarr (stdout, x, n); putchar ('\n');
			fputs ("Y", stdout); qsx_print_qarr (stdout, y, m); putchar ('\n');
			fputs ("EBASIS", stdout);
			if (B->cstat || B->rstat || (n == 0 && m == 0)) qsx_print_basis (stdout, B); else fputs (" ? ?", stdout);
			putchar ('\n');
			free_basis (KEPTE); KEPTE = NULL;
			if (B->cstat || B->rstat) KEPTE = copy_basis (B);
			if (B->cstat) free (B->cstat);
			if (B->rstat) free (B->rstat);
			free (B);
			mpq_EGlpNumFreeArray (x); mpq_EGlpNumFreeArray (y);
		}
		else if (!strcmp (op, "SOLVE"))
		{
			int rv, st = -1;
			if (!strcmp (qsx_tok[1], "PRIMAL")) rv = mpq_QSopt_primal (P, &st);
			else rv = mpq_QSopt_dual (P, &st);
			printf ("SOLVE %s %d %d\n", qsx_tok[1], rv, st);
		}
		else if (!strcmp (op, "ACCESS"))
		{
			do_access ();
		}
		else if (!strcmp (op, "GETBASIS"))
		{
			QSbasis *B = mpq_QSget_basis (P);
			fputs ("BASIS", stdout); qsx_print_basis (stdout, B); putchar ('\n');
			if (B) mpq_QSfree_basis (B);
		}
		else if (!strcmp (op, "ITCNT"))
		{
			int a = -1, b = -1, c = -1, d = -1, t = -1;
			int rv = mpq_QSget_itcnt (P, &a, &b, &c, &d, &t);
			printf ("ITCNT %d %d %d %d %d %d\n", rv, a, b, c, d, t);
		}
		else if (!strcmp (op, "TABLEAU"))
		{
			int m = mpq_QSget_rowcount (P), n = mpq_QSget_colcount (P), i, rv;
			int *ord = (int *) calloc (m + 1, sizeof (int));
			mpq_t *r = mpq_EGlpNumAllocArray (m + 1), *t = mpq_EGlpNumAllocArray (n + m + 1);
			rv = mpq_QSget_basis_order (P, ord);
			printf ("BORDER %d", rv);
			if (!rv) for (i = 0; i < m; i++) printf (" %d", ord[i]);
			putchar ('\n');
			for (i = 0; i < m; i++)
			{
				rv = mpq_QSget_binv_row (P, i, r);
				printf ("BINV %d %d", i, rv); if (!rv) qsx_print_qarr (stdout, r, m); putchar ('\n');
				rv = mpq_QSget_tableau_row (P, i, t);
				printf ("TROW %d %d", i, rv); if (!rv) qsx_print_qarr (stdout, t, n + m); putchar ('\n');
			}
			printf ("TABLEAUEND\n");
			free (ord);
			mpq_EGlpNumFreeArray (r); mpq_EGlpNumFreeArray (t);
		}
		else if (!strcmp (op, "PIVROW") || !strcmp (op, "PIVCOL"))
		{
			int k = atoi (qsx_tok[1]), i, rv;
			int *l = (int *) calloc (k + 1, sizeof (int));
			if (qsx_ntok < 2 + k) qsx_die ("PIV arity");
			for (i = 0; i < k; i++) l[i] = atoi (qsx_tok[2 + i]);
			if (!strcmp (op, "PIVROW")) rv = mpq_QSopt_pivotin_row (P, k, l);
			else rv = mpq_QSopt_pivotin_col (P, k, l);
			printf ("%s %d\n", op, rv);
			free (l);
		}
		else
		{
			printf ("UNKNOWN %s\n", op);
		}
		fflush (stdout);
	}
	if (P) mpq_QSfree_prob (P);
	free_basis (KEPT); free_basis (KEPTE);
	f_free ();
	QSexactClear ();
	return 0;
}
