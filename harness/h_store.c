/* Store-domain harness: an interpreter of the op language of DESIGN Appendix A
 * over the public mpq_QS* API, with several problem handles (h0..), basis slots
 * (b0..), and reduced-precision copies (d0.. = dbl, f0.. = mpf).
 *
 * One op per input line, one result line per op:
 *     R <OP> OK rv=0 <payload>      call returned 0 / non-NULL
 *     R <OP> ERR rv=<n>             call returned non-zero / NULL
 *     R <OP> SKIP <why>             harness could not issue the call (no such handle ...)
 * Multi-line answers (DUMP, DUMPI, ACCESS, DUMPDBL, DUMPMPF) end with "END".
 *
 * FORK <n>  reads the next n lines and interprets them in a forked child, so that
 * a crash (signal, sanitizer abort, hang) is reported as
 *     FORKEND CRASH sig=<n>|exit=<n>|timeout  [first sanitizer line]
 * and never kills the interpreter; the parent's state is what it was before the
 * FORK (the probe "never happened").  FORKEND OK otherwise.
 *
 * Arguments: rationals p/q, "inf"/"-inf" = sentinel; names bare words, "-" = NULL;
 * a sense / lu selector is one character or "#<int>" for an arbitrary code;
 * integers are plain C ints (INT_MAX = 2147483647).
 */
#include "common.h"
#include <limits.h>
#include <sys/wait.h>
#include <sys/types.h>
#include <time.h>
#include <errno.h>

#define NH 16
#define NB 8
static mpq_QSdata *H[NH];
static QSbasis *BS[NB];
static dbl_QSdata *DH[NH];
static mpf_QSdata *FH[NH];

/* ---- token cursor over the current line ------------------------------------------------- */
static char **T;
static int NT, CUR;
static int bad_args;

static const char *tk (void)
{
	if (CUR >= NT) { bad_args = 1; return "0"; }
	return T[CUR++];
}
static int tk_int (void)
{
	const char *t = tk ();
	char *e;
	long v;
	errno = 0;
	v = strtol (t, &e, 10);
	if (*e || errno) bad_args = 1;
	return (int) v;
}
static int tk_code (void)	/* one character or #<int> */
{
	const char *t = tk ();
	if (t[0] == '#') return atoi (t + 1);
	return (unsigned char) t[0];
}
static const char *tk_name (void)
{
	const char *t = tk ();
	return strcmp (t, "-") ? t : NULL;
}
static void tk_q (mpq_t q)
{
	const char *t = tk ();
	if (!strcmp (t, "inf")) { mpq_set (q, mpq_ILL_MAXDOUBLE); return; }
	if (!strcmp (t, "-inf")) { mpq_set (q, mpq_ILL_MINDOUBLE); return; }
	if (mpq_set_str (q, t, 10) || mpz_sgn (mpq_denref (q)) == 0) { bad_args = 1; mpq_set_ui (q, 0, 1); return; }
	mpq_canonicalize (q);
}
static int tk_handle (char kind, int n)
{
	const char *t = tk ();
	int i;
	if (t[0] != kind) { bad_args = 1; return 0; }
	i = atoi (t + 1);
	if (i < 0 || i >= n) { bad_args = 1; return 0; }
	return i;
}

static const char *OP = "?";
static void res_rv (int rv)
{
	if (rv) printf ("R %s ERR rv=%d\n", OP, rv);
	else printf ("R %s OK rv=0", OP);
}
static void res_end (void) { putchar ('\n'); }
static void res_simple (int rv)
{
	res_rv (rv);
	if (!rv) res_end ();
}
static void pq (mpq_t q) { putchar (' '); qsx_print_q (stdout, q); }

/* ---- helpers ---------------------------------------------------------------------------- */
static int objsense_tok (void)
{
	const char *t = tk ();
	if (!strcmp (t, "MIN")) return QS_MIN;
	if (!strcmp (t, "MAX")) return QS_MAX;
	return atoi (t);
}

static void free_names (char **nm, int n)
{
	int i;
	if (!nm) return;
	for (i = 0; i < n; i++) if (nm[i]) mpq_QSfree (nm[i]);
}

/* white-box: the raw column store (struct ILLmatrix of p->qslp) with structmap / rowmap / nzcount.
 * IND lists matind[0 .. matsize); VAL lists matval of the slots inside a column, "_" elsewhere (values of
 * free slots are not data).  A line longer than 400 characters is replaced by its FNV-1a digest unless full. */
static void put_line (const char *tag, char *buf, size_t len, int n, int full)
{
	if (!full && len > 400)
	{
		unsigned long long hsh = 14695981039346656037ULL;
		size_t i;
		for (i = 0; i < len; i++) { hsh ^= (unsigned char) buf[i]; hsh *= 1099511628211ULL; }
		printf ("%s #%016llx n=%d\n", tag, hsh, n);
	}
	else printf ("%s%s\n", tag, buf);
}
static void dump_matrix (mpq_QSdata * p, int full)
{
	mpq_ILLlpdata *q = p->qslp;
	mpq_ILLmatrix *A = &q->A;
	int j, k;
	char *live, *buf = NULL;
	size_t len = 0;
	FILE *f;
	printf ("MAT matcols=%d matrows=%d matsize=%d matfree=%d matcolsize=%d nstruct=%d nrows=%d ncols=%d nzcount=%d\n",
		A->matcols, A->matrows, A->matsize, A->matfree, A->matcolsize, q->nstruct, q->nrows, q->ncols, q->nzcount);
	fputs ("BEG", stdout); for (j = 0; j < A->matcols; j++) printf (" %d", A->matbeg[j]); putchar ('\n');
	fputs ("CNT", stdout); for (j = 0; j < A->matcols; j++) printf (" %d", A->matcnt[j]); putchar ('\n');
	f = open_memstream (&buf, &len);
	for (k = 0; k < A->matsize; k++) fprintf (f, " %d", A->matind[k]);
	fclose (f);
	put_line ("IND", buf, len, A->matsize, full);
	free (buf); buf = NULL; len = 0;
	live = (char *) calloc (A->matsize + 1, 1);
	for (j = 0; j < A->matcols; j++)
		for (k = 0; k < A->matcnt[j]; k++)
			if (A->matbeg[j] + k >= 0 && A->matbeg[j] + k < A->matsize) live[A->matbeg[j] + k] = 1;
	f = open_memstream (&buf, &len);
	for (k = 0; k < A->matsize; k++) { if (live[k]) { fputc (' ', f); qsx_print_q (f, A->matval[k]); } else fputs (" _", f); }
	fclose (f);
	put_line ("VAL", buf, len, A->matsize, full);
	free (buf);
	free (live);
	fputs ("SMAP", stdout); for (j = 0; j < q->nstruct; j++) printf (" %d", q->structmap[j]); putchar ('\n');
	fputs ("RMAP", stdout); for (j = 0; j < q->nrows; j++) printf (" %d", q->rowmap[j]); putchar ('\n');
	puts ("END");
}

/* canonical dump through the query API, with every return code visible */
static void dump_user (mpq_QSdata * p)
{
	int rv = qsx_dump_user (stdout, p);
	if (rv) printf ("ULP ERR %d\n", rv);
	puts ("END");
}

/* white-box view of what survives between calls (C05 / Api correspondence) */
static void print_state (mpq_QSdata * p)
{
	printf (" qstatus=%d factorok=%d cache=%d", p->qstatus, p->factorok, p->cache ? 1 : 0);
	if (p->cache) printf (" cache_dims=%d,%d cache_status=%d", p->cache->nstruct, p->cache->nrows, p->cache->status);
	if (p->basis) printf (" basis=%d,%d rownorms=%d colnorms=%d", p->basis->nstruct, p->basis->nrows, p->basis->rownorms ? 1 : 0, p->basis->colnorms ? 1 : 0);
	else printf (" basis=-");
	printf (" dims=%d,%d,%d nz=%d", p->qslp->nstruct, p->qslp->nrows, p->qslp->ncols, p->qslp->nzcount);
}

static void print_params (mpq_QSdata * p)
{
	static const int ids[] = { 0, 2, 4, 5, 7 };
	static const int qids[] = { 6, 8, 9 };
	int i, v, rv;
	mpq_t q;
	mpq_init (q);
	for (i = 0; i < 5; i++)
	{
		v = -12345;
		rv = mpq_QSget_param (p, ids[i], &v);
		printf (" %d=%d:%d", ids[i], rv, v);
	}
	for (i = 0; i < 3; i++)
	{
		rv = mpq_QSget_param_EGlpNum (p, qids[i], &q);
		printf (" %d=%d:", qids[i], rv);
		qsx_print_q (stdout, q);
	}
	mpq_clear (q);
}

static void do_access (mpq_QSdata * p)
{
	int n = mpq_QSget_colcount (p), m = mpq_QSget_rowcount (p), rv, st = -1;
	mpq_t v, *x = mpq_EGlpNumAllocArray (n + 1), *pi = mpq_EGlpNumAllocArray (m + 1),
		*rc = mpq_EGlpNumAllocArray (n + 1), *sl = mpq_EGlpNumAllocArray (m + 1);
	mpq_init (v);
	rv = mpq_QSget_status (p, &st);
	printf ("ACC status %d %d\n", rv, st);
	rv = mpq_QSget_objval (p, &v);
	printf ("ACC objval %d ", rv); qsx_print_q (stdout, v); putchar ('\n');
	rv = mpq_QSget_x_array (p, x);
	printf ("ACC x %d", rv); if (!rv) qsx_print_qarr (stdout, x, n); putchar ('\n');
	rv = mpq_QSget_pi_array (p, pi);
	printf ("ACC pi %d", rv); if (!rv) qsx_print_qarr (stdout, pi, m); putchar ('\n');
	rv = mpq_QSget_rc_array (p, rc);
	printf ("ACC rc %d", rv); if (!rv) qsx_print_qarr (stdout, rc, n); putchar ('\n');
	rv = mpq_QSget_slack_array (p, sl);
	printf ("ACC slack %d", rv); if (!rv) qsx_print_qarr (stdout, sl, m); putchar ('\n');
	rv = mpq_QSget_solution (p, &v, x, pi, sl, rc);
	printf ("ACC solution %d ", rv);
	if (!rv)
	{
		qsx_print_q (stdout, v); fputs (" |", stdout); qsx_print_qarr (stdout, x, n);
		fputs (" |", stdout); qsx_print_qarr (stdout, pi, m);
		fputs (" |", stdout); qsx_print_qarr (stdout, sl, m);
		fputs (" |", stdout); qsx_print_qarr (stdout, rc, n);
	}
	putchar ('\n');
	{
		QSbasis *B = mpq_QSget_basis (p);
		fputs ("ACC basis", stdout); qsx_print_basis (stdout, B); putchar ('\n');
		if (B) mpq_QSfree_basis (B);
	}
	printf ("ACC state"); print_state (p); putchar ('\n');
	puts ("END");
	mpq_clear (v);
	mpq_EGlpNumFreeArray (x); mpq_EGlpNumFreeArray (pi); mpq_EGlpNumFreeArray (rc); mpq_EGlpNumFreeArray (sl);
}

static QSbasis *mk_basis (const char *cs, const char *rs, int ns, int nr)
{
	QSbasis *B = (QSbasis *) calloc (1, sizeof (QSbasis));
	int n = strcmp (cs, "-") ? (int) strlen (cs) : 0, m = strcmp (rs, "-") ? (int) strlen (rs) : 0;
	B->nstruct = ns != INT_MIN ? ns : n;
	B->nrows = nr != INT_MIN ? nr : m;
	/* the arrays are as long as the *declared* sizes need (so that a size lie is the
	 * library's problem to detect, not an overread manufactured by the harness) */
	B->cstat = (char *) calloc ((size_t) (B->nstruct > n ? B->nstruct : n) + 1, 1);
	B->rstat = (char *) calloc ((size_t) (B->nrows > m ? B->nrows : m) + 1, 1);
	memcpy (B->cstat, n ? cs : "", n);
	memcpy (B->rstat, m ? rs : "", m);
	return B;
}
static void drop_basis (int b)
{
	if (BS[b])
	{
		/* slots hold either library-allocated or harness-allocated bases; both use malloc/free */
		free (BS[b]->cstat); free (BS[b]->rstat); free (BS[b]);
		BS[b] = NULL;
	}
}

/* sparse vector (idx val)^k from the token stream */
typedef struct { int k; int *ind; mpq_t *val; } svec;
static void sv_read (svec * s)
{
	int j;
	s->k = tk_int ();
	if (s->k < 0 || s->k > QSX_MAXTOK) { bad_args = 1; s->k = 0; }
	s->ind = (int *) calloc (s->k + 1, sizeof (int));
	s->val = mpq_EGlpNumAllocArray (s->k + 1);
	for (j = 0; j < s->k; j++) { s->ind[j] = tk_int (); tk_q (s->val[j]); }
}
static void sv_free (svec * s) { free (s->ind); mpq_EGlpNumFreeArray (s->val); }

static char *dupname (const char *s) { return s ? strdup (s) : NULL; }

/* ---- the ops ---------------------------------------------------------------------------- */
static void op_rows (mpq_QSdata * p, int ranged, int list)
{
	int *rowcnt = 0, *rowbeg = 0, *rowind = 0, num = 0, *rl = 0, rv, i, j;
	mpq_t *rowval = 0, *rhs = 0, *range = 0;
	char *sense = 0, **names = 0;
	if (list)
	{
		num = tk_int ();
		if (num < 0 || num > QSX_MAXTOK) { bad_args = 1; num = 0; }
		rl = (int *) calloc (num + 1, sizeof (int));
		for (i = 0; i < num; i++) rl[i] = tk_int ();
	}
	else num = mpq_QSget_rowcount (p);
	if (bad_args) { free (rl); return; }
	if (list && ranged) rv = mpq_QSget_ranged_rows_list (p, num, rl, &rowcnt, &rowbeg, &rowind, &rowval, &rhs, &sense, &range, &names);
	else if (list) rv = mpq_QSget_rows_list (p, num, rl, &rowcnt, &rowbeg, &rowind, &rowval, &rhs, &sense, &names);
	else if (ranged) rv = mpq_QSget_ranged_rows (p, &rowcnt, &rowbeg, &rowind, &rowval, &rhs, &sense, &range, &names);
	else rv = mpq_QSget_rows (p, &rowcnt, &rowbeg, &rowind, &rowval, &rhs, &sense, &names);
	res_rv (rv);
	if (!rv)
	{
		printf (" %d", num);
		for (i = 0; i < num && rowcnt; i++)
		{
			printf (" | %s %c", names && names[i] ? names[i] : "-", sense ? sense[i] : '?');
			pq (rhs[i]);
			if (ranged) pq (range[i]);
			printf (" %d", rowcnt[i]);
			for (j = 0; j < rowcnt[i]; j++) { printf (" %d", rowind[rowbeg[i] + j]); pq (rowval[rowbeg[i] + j]); }
		}
		res_end ();
	}
	if (names) { free_names (names, num); mpq_QSfree (names); }
	mpq_EGlpNumFreeArray (rowval); mpq_EGlpNumFreeArray (rhs); mpq_EGlpNumFreeArray (range);
	if (rowcnt) mpq_QSfree (rowcnt);
	if (rowbeg) mpq_QSfree (rowbeg);
	if (rowind) mpq_QSfree (rowind);
	if (sense) mpq_QSfree (sense);
	free (rl);
}

static void op_cols (mpq_QSdata * p, int list)
{
	int *cnt = 0, *beg = 0, *ind = 0, num = 0, *cl = 0, rv, i, j;
	mpq_t *val = 0, *obj = 0, *lo = 0, *up = 0;
	char **names = 0;
	if (list)
	{
		num = tk_int ();
		if (num < 0 || num > QSX_MAXTOK) { bad_args = 1; num = 0; }
		cl = (int *) calloc (num + 1, sizeof (int));
		for (i = 0; i < num; i++) cl[i] = tk_int ();
	}
	else num = mpq_QSget_colcount (p);
	if (bad_args) { free (cl); return; }
	if (list) rv = mpq_QSget_columns_list (p, num, cl, &cnt, &beg, &ind, &val, &obj, &lo, &up, &names);
	else rv = mpq_QSget_columns (p, &cnt, &beg, &ind, &val, &obj, &lo, &up, &names);
	res_rv (rv);
	if (!rv)
	{
		printf (" %d", num);
		for (i = 0; i < num && cnt; i++)
		{
			printf (" | %s", names && names[i] ? names[i] : "-");
			pq (obj[i]); pq (lo[i]); pq (up[i]);
			printf (" %d", cnt[i]);
			for (j = 0; j < cnt[i]; j++) { printf (" %d", ind[beg[i] + j]); pq (val[beg[i] + j]); }
		}
		res_end ();
	}
	if (names) { free_names (names, num); mpq_QSfree (names); }
	mpq_EGlpNumFreeArray (val); mpq_EGlpNumFreeArray (obj); mpq_EGlpNumFreeArray (lo); mpq_EGlpNumFreeArray (up);
	if (cnt) mpq_QSfree (cnt);
	if (beg) mpq_QSfree (beg);
	if (ind) mpq_QSfree (ind);
	free (cl);
}

static void op_query (mpq_QSdata * p)
{
	const char *w = tk ();
	int n = mpq_QSget_colcount (p), m = mpq_QSget_rowcount (p), rv, i;
	mpq_t q;
	mpq_init (q);
	if (!strcmp (w, "counts"))
	{
		printf ("R Q OK rv=0 %d %d %d\n", n, m, mpq_QSget_nzcount (p));
	}
	else if (!strcmp (w, "coef"))
	{
		int a = tk_int (), b = tk_int ();
		if (!bad_args) { rv = mpq_QSget_coef (p, a, b, &q); res_rv (rv); if (!rv) { pq (q); res_end (); } }
	}
	else if (!strcmp (w, "obj"))
	{
		mpq_t *o = mpq_EGlpNumAllocArray (n + 1);
		rv = mpq_QSget_obj (p, o); res_rv (rv);
		if (!rv) { qsx_print_qarr (stdout, o, n); res_end (); }
		mpq_EGlpNumFreeArray (o);
	}
	else if (!strcmp (w, "objlist"))
	{
		int k = tk_int (), *cl;
		mpq_t *o;
		if (k < 0 || k > QSX_MAXTOK) bad_args = 1;
		if (!bad_args)
		{
			cl = (int *) calloc (k + 1, sizeof (int)); o = mpq_EGlpNumAllocArray (k + 1);
			for (i = 0; i < k; i++) cl[i] = tk_int ();
			if (!bad_args) { rv = mpq_QSget_obj_list (p, k, cl, o); res_rv (rv); if (!rv) { qsx_print_qarr (stdout, o, k); res_end (); } }
			free (cl); mpq_EGlpNumFreeArray (o);
		}
	}
	else if (!strcmp (w, "rhs"))
	{
		mpq_t *o = mpq_EGlpNumAllocArray (m + 1);
		rv = mpq_QSget_rhs (p, o); res_rv (rv);
		if (!rv) { qsx_print_qarr (stdout, o, m); res_end (); }
		mpq_EGlpNumFreeArray (o);
	}
	else if (!strcmp (w, "senses"))
	{
		char *s = (char *) calloc (m + 2, 1);
		rv = mpq_QSget_senses (p, s); res_rv (rv);
		if (!rv) { printf (" %s", m ? s : "-"); res_end (); }
		free (s);
	}
	else if (!strcmp (w, "bounds"))
	{
		mpq_t *lo = mpq_EGlpNumAllocArray (n + 1), *up = mpq_EGlpNumAllocArray (n + 1);
		rv = mpq_QSget_bounds (p, lo, up); res_rv (rv);
		if (!rv) { qsx_print_qarr (stdout, lo, n); fputs (" |", stdout); qsx_print_qarr (stdout, up, n); res_end (); }
		mpq_EGlpNumFreeArray (lo); mpq_EGlpNumFreeArray (up);
	}
	else if (!strcmp (w, "bound"))
	{
		int j = tk_int (), lu = tk_code ();
		if (!bad_args) { rv = mpq_QSget_bound (p, j, lu, &q); res_rv (rv); if (!rv) { pq (q); res_end (); } }
	}
	else if (!strcmp (w, "boundslist"))
	{
		int k = tk_int (), *cl;
		mpq_t *lo, *up;
		if (k < 0 || k > QSX_MAXTOK) bad_args = 1;
		if (!bad_args)
		{
			cl = (int *) calloc (k + 1, sizeof (int)); lo = mpq_EGlpNumAllocArray (k + 1); up = mpq_EGlpNumAllocArray (k + 1);
			for (i = 0; i < k; i++) cl[i] = tk_int ();
			if (!bad_args)
			{
				rv = mpq_QSget_bounds_list (p, k, cl, lo, up); res_rv (rv);
				if (!rv) { qsx_print_qarr (stdout, lo, k); fputs (" |", stdout); qsx_print_qarr (stdout, up, k); res_end (); }
			}
			free (cl); mpq_EGlpNumFreeArray (lo); mpq_EGlpNumFreeArray (up);
		}
	}
	else if (!strcmp (w, "objsense"))
	{
		int s = 0;
		rv = mpq_QSget_objsense (p, &s); res_rv (rv);
		if (!rv) { printf (" %s", s == QS_MAX ? "MAX" : s == QS_MIN ? "MIN" : "?"); res_end (); }
	}
	else if (!strcmp (w, "rows")) op_rows (p, 0, 0);
	else if (!strcmp (w, "rrows")) op_rows (p, 1, 0);
	else if (!strcmp (w, "rowslist")) op_rows (p, 0, 1);
	else if (!strcmp (w, "rrowslist")) op_rows (p, 1, 1);
	else if (!strcmp (w, "cols")) op_cols (p, 0);
	else if (!strcmp (w, "colslist")) op_cols (p, 1);
	else if (!strcmp (w, "rownames") || !strcmp (w, "colnames"))
	{
		int isrow = w[0] == 'r', k = isrow ? m : n;
		char **nm = (char **) calloc (k + 1, sizeof (char *));
		rv = isrow ? mpq_QSget_rownames (p, nm) : mpq_QSget_colnames (p, nm);
		res_rv (rv);
		if (!rv) { for (i = 0; i < k; i++) printf (" %s", nm[i] ? nm[i] : "-"); res_end (); free_names (nm, k); }
		free (nm);
	}
	else if (!strcmp (w, "rowidx") || !strcmp (w, "colidx"))
	{
		const char *nm = tk ();
		int idx = -77;
		if (!bad_args)
		{
			rv = w[0] == 'r' ? mpq_QSget_row_index (p, nm, &idx) : mpq_QSget_column_index (p, nm, &idx);
			res_rv (rv);
			if (!rv) { printf (" %d", idx); res_end (); }
		}
	}
	else if (!strcmp (w, "intflags"))
	{
		int *f = (int *) calloc (n + 1, sizeof (int));
		rv = mpq_QSget_intflags (p, f); res_rv (rv);
		if (!rv) { for (i = 0; i < n; i++) printf (" %d", f[i]); res_end (); }
		free (f);
	}
	else if (!strcmp (w, "intcount"))
	{
		int c = -1;
		rv = mpq_QSget_intcount (p, &c); res_rv (rv);
		if (!rv) { printf (" %d", c); res_end (); }
	}
	else if (!strcmp (w, "probname") || !strcmp (w, "objname"))
	{
		char *s = w[0] == 'p' ? mpq_QSget_probname (p) : mpq_QSget_objname (p);
		printf ("R Q OK rv=0 %s\n", s ? s : "-");
		if (s) mpq_QSfree (s);
	}
	else if (!strcmp (w, "param"))
	{
		int id = tk_int (), v = -12345;
		if (!bad_args) { rv = mpq_QSget_param (p, id, &v); res_rv (rv); if (!rv) { printf (" %d", v); res_end (); } }
	}
	else if (!strcmp (w, "paramq"))
	{
		int id = tk_int ();
		if (!bad_args) { rv = mpq_QSget_param_EGlpNum (p, id, &q); res_rv (rv); if (!rv) { pq (q); res_end (); } }
	}
	else if (!strcmp (w, "params"))
	{
		printf ("R Q OK rv=0"); print_params (p); res_end ();
	}
	else if (!strcmp (w, "state"))
	{
		printf ("R Q OK rv=0"); print_state (p); res_end ();
	}
	else bad_args = 1;
	mpq_clear (q);
}

static void op_get (mpq_QSdata * p)
{
	const char *w = tk ();
	int n = mpq_QSget_colcount (p), m = mpq_QSget_rowcount (p), rv;
	mpq_t q;
	mpq_init (q);
	if (!strcmp (w, "status"))
	{
		int st = -1;
		rv = mpq_QSget_status (p, &st); res_rv (rv);
		if (!rv) { printf (" %d", st); res_end (); }
	}
	else if (!strcmp (w, "objval"))
	{
		rv = mpq_QSget_objval (p, &q); res_rv (rv);
		if (!rv) { pq (q); res_end (); }
	}
	else if (!strcmp (w, "x") || !strcmp (w, "rc"))
	{
		mpq_t *a = mpq_EGlpNumAllocArray (n + 1);
		rv = w[0] == 'x' ? mpq_QSget_x_array (p, a) : mpq_QSget_rc_array (p, a);
		res_rv (rv);
		if (!rv) { qsx_print_qarr (stdout, a, n); res_end (); }
		mpq_EGlpNumFreeArray (a);
	}
	else if (!strcmp (w, "pi") || !strcmp (w, "slack") || !strcmp (w, "infeas"))
	{
		mpq_t *a = mpq_EGlpNumAllocArray (m + 1);
		rv = w[0] == 'p' ? mpq_QSget_pi_array (p, a) : w[0] == 's' ? mpq_QSget_slack_array (p, a) : mpq_QSget_infeas_array (p, a);
		res_rv (rv);
		if (!rv) { qsx_print_qarr (stdout, a, m); res_end (); }
		mpq_EGlpNumFreeArray (a);
	}
	else if (!strncmp (w, "named_", 6))
	{
		const char *nm = tk ();
		if (!bad_args)
		{
			if (!strcmp (w, "named_x")) rv = mpq_QSget_named_x (p, nm, &q);
			else if (!strcmp (w, "named_rc")) rv = mpq_QSget_named_rc (p, nm, &q);
			else if (!strcmp (w, "named_pi")) rv = mpq_QSget_named_pi (p, nm, &q);
			else rv = mpq_QSget_named_slack (p, nm, &q);
			res_rv (rv);
			if (!rv) { pq (q); res_end (); }
		}
	}
	else if (!strcmp (w, "itcnt"))
	{
		int a, b, c, d, e;
		rv = mpq_QSget_itcnt (p, &a, &b, &c, &d, &e); res_rv (rv);
		if (!rv) { printf (" %d %d %d %d %d", a, b, c, d, e); res_end (); }
	}
	else if (!strcmp (w, "basisarr") || !strcmp (w, "basisnorms"))
	{
		char *cs = (char *) calloc (n + 2 + (p->basis ? p->basis->nstruct : 0), 1), *rs = (char *) calloc (m + 2 + (p->basis ? p->basis->nrows : 0), 1);
		mpq_t *nr = mpq_EGlpNumAllocArray (m + 1 + (p->basis ? p->basis->nrows : 0));
		rv = w[5] == 'a' ? mpq_QSget_basis_array (p, cs, rs) : mpq_QSget_basis_and_row_norms_array (p, cs, rs, nr);
		res_rv (rv);
		if (!rv) { printf (" %s %s", cs[0] ? cs : "-", rs[0] ? rs : "-"); res_end (); }
		free (cs); free (rs); mpq_EGlpNumFreeArray (nr);
	}
	else if (!strcmp (w, "testnorms"))
	{
		printf ("R GET OK rv=0 %d\n", mpq_QStest_row_norms (p));
	}
	else bad_args = 1;
	mpq_clear (q);
}

static void op_addrows (mpq_QSdata * p, int ranged)
{
	int num = tk_int (), i, j, tot = 0, cap = 16, rv, gap = 0, pos = 0;
	int *cnt, *beg, *ind = (int *) malloc (sizeof (int) * cap);
	char *sense, **names;
	mpq_t *rhs, *range, *val = NULL, tmp;
	int nval = 0;
	mpq_init (tmp);
	if (num < 0 || num > 100000) { bad_args = 1; num = 0; }
	cnt = (int *) calloc (num + 1, sizeof (int)); beg = (int *) calloc (num + 1, sizeof (int));
	sense = (char *) calloc (num + 1, 1); names = (char **) calloc (num + 1, sizeof (char *));
	rhs = mpq_EGlpNumAllocArray (num + 1); range = mpq_EGlpNumAllocArray (num + 1);
	/* first pass: values collected in a growing list of strings -> we need two passes; keep token positions */
	{
		int save = CUR, total = 0;
		for (i = 0; i < num && !bad_args; i++)
		{
			int k;
			tk (); tk (); if (ranged) tk (); tk ();
			k = tk_int ();
			if (k < 0 || k > QSX_MAXTOK) { bad_args = 1; break; }
			total += k;
			CUR += 2 * k;
			if (CUR > NT) bad_args = 1;
		}
		CUR = save;
		nval = total;
		val = mpq_EGlpNumAllocArray (total + 2 * num + 3);
		free (ind);
		ind = (int *) calloc (total + 2 * num + 3, sizeof (int));
	}
	/* the rows need not be stored back to back: gap slots (belonging to no row) precede every row in two of three calls */
	gap = (num + nval + 1) % 3;
	for (i = 0; i < num && !bad_args; i++)
	{
		tk_q (rhs[i]);
		sense[i] = (char) tk_code ();
		if (ranged) tk_q (range[i]);
		names[i] = dupname (tk_name ());
		cnt[i] = tk_int ();
		for (j = 0; j < gap; j++) { ind[pos] = 0; mpq_set_ui (val[pos], 1UL, 1UL); pos++; }
		beg[i] = pos;
		for (j = 0; j < cnt[i] && tot < nval; j++) { ind[pos] = tk_int (); tk_q (val[pos]); pos++; tot++; }
	}
	if (!bad_args)
	{
		if (ranged) rv = mpq_QSadd_ranged_rows (p, num, cnt, beg, ind, (const mpq_t *) val, (const mpq_t *) rhs, sense, (const mpq_t *) range, (const char **) names);
		else rv = mpq_QSadd_rows (p, num, cnt, beg, ind, (const mpq_t *) val, (const mpq_t *) rhs, sense, (const char **) names);
		res_simple (rv);
	}
	for (i = 0; i < num; i++) free (names[i]);
	free (cnt); free (beg); free (ind); free (sense); free (names);
	mpq_EGlpNumFreeArray (rhs); mpq_EGlpNumFreeArray (range); mpq_EGlpNumFreeArray (val);
	mpq_clear (tmp);
}

static void op_addcols (mpq_QSdata * p)
{
	int num = tk_int (), i, j, tot = 0, rv, nval = 0, gap = 0, pos = 0;
	int *cnt, *beg, *ind;
	char **names;
	mpq_t *obj, *lo, *up, *val;
	if (num < 0 || num > 100000) { bad_args = 1; num = 0; }
	cnt = (int *) calloc (num + 1, sizeof (int)); beg = (int *) calloc (num + 1, sizeof (int));
	names = (char **) calloc (num + 1, sizeof (char *));
	obj = mpq_EGlpNumAllocArray (num + 1); lo = mpq_EGlpNumAllocArray (num + 1); up = mpq_EGlpNumAllocArray (num + 1);
	{
		int save = CUR, total = 0;
		for (i = 0; i < num && !bad_args; i++)
		{
			int k;
			tk (); tk (); tk (); tk ();
			k = tk_int ();
			if (k < 0 || k > QSX_MAXTOK) { bad_args = 1; break; }
			total += k;
			CUR += 2 * k;
			if (CUR > NT) bad_args = 1;
		}
		CUR = save;
		nval = total;
	}
	val = mpq_EGlpNumAllocArray (nval + 2 * num + 3);
	ind = (int *) calloc (nval + 2 * num + 3, sizeof (int));
	gap = (num + nval + 1) % 3;		/* as in op_addrows: columns not stored back to back */
	for (i = 0; i < num && !bad_args; i++)
	{
		tk_q (obj[i]); tk_q (lo[i]); tk_q (up[i]);
		names[i] = dupname (tk_name ());
		cnt[i] = tk_int ();
		for (j = 0; j < gap; j++) { ind[pos] = 0; mpq_set_ui (val[pos], 1UL, 1UL); pos++; }
		beg[i] = pos;
		for (j = 0; j < cnt[i] && tot < nval; j++) { ind[pos] = tk_int (); tk_q (val[pos]); pos++; tot++; }
	}
	if (!bad_args)
	{
		rv = mpq_QSadd_cols (p, num, cnt, beg, ind, val, obj, lo, up, (const char **) names);
		res_simple (rv);
	}
	for (i = 0; i < num; i++) free (names[i]);
	free (cnt); free (beg); free (ind); free (names);
	mpq_EGlpNumFreeArray (obj); mpq_EGlpNumFreeArray (lo); mpq_EGlpNumFreeArray (up); mpq_EGlpNumFreeArray (val);
}

/* LOAD h name sense ncols nrows  (cname obj lo up k (row val)^k)^ncols  (rname sense rhs)^nrows */
static void op_load (int h)
{
	const char *pname = tk_name ();
	int os = objsense_tok (), nc = tk_int (), nr = tk_int (), i, j, tot = 0, nval = 0;
	int *cnt, *beg, *ind;
	char **cn, **rn, *sense;
	mpq_t *obj, *lo, *up, *val, *rhs;
	int anyc = 0, anyr = 0;
	char *pn = dupname (pname);
	if (nc < 0 || nr < 0 || nc > 100000 || nr > 100000) { bad_args = 1; nc = nr = 0; }
	cnt = (int *) calloc (nc + 1, sizeof (int)); beg = (int *) calloc (nc + 1, sizeof (int));
	cn = (char **) calloc (nc + 1, sizeof (char *)); rn = (char **) calloc (nr + 1, sizeof (char *));
	sense = (char *) calloc (nr + 1, 1);
	obj = mpq_EGlpNumAllocArray (nc + 1); lo = mpq_EGlpNumAllocArray (nc + 1); up = mpq_EGlpNumAllocArray (nc + 1);
	rhs = mpq_EGlpNumAllocArray (nr + 1);
	{
		int save = CUR, total = 0;
		for (i = 0; i < nc && !bad_args; i++)
		{
			int k;
			tk (); tk (); tk (); tk ();
			k = tk_int ();
			if (k < 0 || k > QSX_MAXTOK) { bad_args = 1; break; }
			total += k; CUR += 2 * k;
			if (CUR > NT) bad_args = 1;
		}
		CUR = save; nval = total;
	}
	val = mpq_EGlpNumAllocArray (nval + 1);
	ind = (int *) calloc (nval + 1, sizeof (int));
	for (i = 0; i < nc && !bad_args; i++)
	{
		cn[i] = dupname (tk_name ()); if (cn[i]) anyc = 1;
		tk_q (obj[i]); tk_q (lo[i]); tk_q (up[i]);
		cnt[i] = tk_int (); beg[i] = tot;
		for (j = 0; j < cnt[i] && tot < nval; j++) { ind[tot] = tk_int (); tk_q (val[tot]); tot++; }
	}
	for (i = 0; i < nr && !bad_args; i++)
	{
		rn[i] = dupname (tk_name ()); if (rn[i]) anyr = 1;
		sense[i] = (char) tk_code ();
		tk_q (rhs[i]);
	}
	if (!bad_args)
	{
		if (H[h]) { mpq_QSfree_prob (H[h]); H[h] = NULL; }
		H[h] = mpq_QSload_prob (pn, nc, nr, cnt, beg, ind, val, os, obj, rhs, sense, lo, up, anyc ? (const char **) cn : NULL, anyr ? (const char **) rn : NULL);
		res_simple (H[h] ? 0 : 1);
	}
	for (i = 0; i < nc; i++) free (cn[i]);
	for (i = 0; i < nr; i++) free (rn[i]);
	free (pn); free (cnt); free (beg); free (ind); free (cn); free (rn); free (sense);
	mpq_EGlpNumFreeArray (obj); mpq_EGlpNumFreeArray (lo); mpq_EGlpNumFreeArray (up); mpq_EGlpNumFreeArray (val); mpq_EGlpNumFreeArray (rhs);
}

static void print_dbl (double d)
{
	union { double d; unsigned long long u; } c;
	c.d = d;
	printf (" %016llx", c.u);
}
static void print_mpf (mpf_t f)
{
	mpq_t q;
	mpq_init (q);
	mpq_set_f (q, f);
	putchar (' ');
	mpq_out_str (stdout, 10, q);
	mpq_clear (q);
}

/* entry-by-entry view of a dbl copy through the dbl_ query API: bit patterns */
static void dump_dbl (dbl_QSdata * p)
{
	int n = dbl_QSget_colcount (p), m = dbl_QSget_rowcount (p), i, j, os = 0, rv;
	int *rowcnt = 0, *rowbeg = 0, *rowind = 0;
	double *rowval = 0, *rhs = 0, *range = 0, *obj = dbl_EGlpNumAllocArray (n + 1), *lo = dbl_EGlpNumAllocArray (n + 1), *up = dbl_EGlpNumAllocArray (n + 1);
	char *sense = 0, **cn = (char **) calloc (n + 1, sizeof (char *)), **rn = (char **) calloc (m + 1, sizeof (char *));
	dbl_QSget_objsense (p, &os);
	printf ("DLP %d %d %d\n", os == QS_MAX ? 1 : 0, n, m);
	printf ("DINF"); print_dbl (dbl_ILL_MAXDOUBLE); print_dbl (dbl_ILL_MINDOUBLE); putchar ('\n');
	rv = n ? dbl_QSget_obj (p, obj) : 0;
	if (!rv && n) rv = dbl_QSget_bounds (p, lo, up);
	if (!rv && n) rv = dbl_QSget_colnames (p, cn);
	if (!rv && m) rv = dbl_QSget_rownames (p, rn);
	if (!rv) rv = dbl_QSget_ranged_rows (p, &rowcnt, &rowbeg, &rowind, &rowval, &rhs, &sense, &range, 0);
	if (rv) printf ("DLP ERR %d\n", rv);
	else
	{
		for (j = 0; j < n; j++) { printf ("DC %s", cn[j] ? cn[j] : "-"); print_dbl (obj[j]); print_dbl (lo[j]); print_dbl (up[j]); putchar ('\n'); }
		for (i = 0; i < m; i++)
		{
			printf ("DR %s %c", rn[i] ? rn[i] : "-", sense[i]); print_dbl (rhs[i]); print_dbl (range[i]);
			printf (" %d", rowcnt[i]);
			for (j = 0; j < rowcnt[i]; j++) { printf (" %d", rowind[rowbeg[i] + j]); print_dbl (rowval[rowbeg[i] + j]); }
			putchar ('\n');
		}
		{
			static const int ids[] = { 0, 2, 4, 5, 7 };
			static const int qids[] = { 6, 8, 9 };
			int v;
			double d;
			printf ("DP");
			for (i = 0; i < 5; i++) { v = -12345; rv = dbl_QSget_param (p, ids[i], &v); printf (" %d=%d:%d", ids[i], rv, v); }
			for (i = 0; i < 3; i++) { d = 0; rv = dbl_QSget_param_EGlpNum (p, qids[i], &d); printf (" %d=%d:", qids[i], rv); print_dbl (d); }
			putchar ('\n');
		}
	}
	puts ("END");
	for (j = 0; j < n; j++) if (cn[j]) dbl_QSfree (cn[j]);
	for (i = 0; i < m; i++) if (rn[i]) dbl_QSfree (rn[i]);
	free (cn); free (rn);
	dbl_EGlpNumFreeArray (obj); dbl_EGlpNumFreeArray (lo); dbl_EGlpNumFreeArray (up);
	dbl_EGlpNumFreeArray (rowval); dbl_EGlpNumFreeArray (rhs); dbl_EGlpNumFreeArray (range);
	if (rowcnt) dbl_QSfree (rowcnt);
	if (rowbeg) dbl_QSfree (rowbeg);
	if (rowind) dbl_QSfree (rowind);
	if (sense) dbl_QSfree (sense);
}

static void dump_mpf (mpf_QSdata * p)
{
	int n = mpf_QSget_colcount (p), m = mpf_QSget_rowcount (p), i, j, os = 0, rv;
	int *rowcnt = 0, *rowbeg = 0, *rowind = 0;
	mpf_t *rowval = 0, *rhs = 0, *range = 0, *obj = mpf_EGlpNumAllocArray (n + 1), *lo = mpf_EGlpNumAllocArray (n + 1), *up = mpf_EGlpNumAllocArray (n + 1);
	char *sense = 0;
	mpf_QSget_objsense (p, &os);
	printf ("FLP %d %d %d %lu\n", os == QS_MAX ? 1 : 0, n, m, (unsigned long) mpf_get_default_prec ());
	printf ("FINF"); print_mpf (mpf_ILL_MAXDOUBLE); print_mpf (mpf_ILL_MINDOUBLE); putchar ('\n');
	rv = n ? mpf_QSget_obj (p, obj) : 0;
	if (!rv && n) rv = mpf_QSget_bounds (p, lo, up);
	if (!rv) rv = mpf_QSget_ranged_rows (p, &rowcnt, &rowbeg, &rowind, &rowval, &rhs, &sense, &range, 0);
	if (rv) printf ("FLP ERR %d\n", rv);
	else
	{
		for (j = 0; j < n; j++) { printf ("FC -"); print_mpf (obj[j]); print_mpf (lo[j]); print_mpf (up[j]); printf (" %lu\n", (unsigned long) mpf_get_prec (obj[j])); }
		for (i = 0; i < m; i++)
		{
			printf ("FR - %c", sense[i]); print_mpf (rhs[i]); print_mpf (range[i]);
			printf (" %d", rowcnt[i]);
			for (j = 0; j < rowcnt[i]; j++) { printf (" %d", rowind[rowbeg[i] + j]); print_mpf (rowval[rowbeg[i] + j]); }
			putchar ('\n');
		}
		{
			static const int ids[] = { 0, 2, 4, 5, 7 };
			static const int qids[] = { 6, 8, 9 };
			int v;
			mpf_t d;
			mpf_init (d);
			printf ("FP");
			for (i = 0; i < 5; i++) { v = -12345; rv = mpf_QSget_param (p, ids[i], &v); printf (" %d=%d:%d", ids[i], rv, v); }
			for (i = 0; i < 3; i++) { rv = mpf_QSget_param_EGlpNum (p, qids[i], &d); printf (" %d=%d:", qids[i], rv); print_mpf (d); }
			putchar ('\n');
			mpf_clear (d);
		}
	}
	puts ("END");
	mpf_EGlpNumFreeArray (obj); mpf_EGlpNumFreeArray (lo); mpf_EGlpNumFreeArray (up);
	mpf_EGlpNumFreeArray (rowval); mpf_EGlpNumFreeArray (rhs); mpf_EGlpNumFreeArray (range);
	if (rowcnt) mpf_QSfree (rowcnt);
	if (rowbeg) mpf_QSfree (rowbeg);
	if (rowind) mpf_QSfree (rowind);
	if (sense) mpf_QSfree (sense);
}

static mpq_QSdata *clone_prob (mpq_QSdata * p)
{
	int n = mpq_QSget_colcount (p), m = mpq_QSget_rowcount (p), j, os = 0, rv;
	int *rowcnt = 0, *rowbeg = 0, *rowind = 0;
	mpq_t *rowval = 0, *rhs = 0, *range = 0, *obj = mpq_EGlpNumAllocArray (n + 1), *lo = mpq_EGlpNumAllocArray (n + 1), *up = mpq_EGlpNumAllocArray (n + 1);
	char *sense = 0;
	mpq_QSdata *q = NULL;
	rv = mpq_QSget_objsense (p, &os);
	if (!rv && n) rv = mpq_QSget_obj (p, obj);
	if (!rv && n) rv = mpq_QSget_bounds (p, lo, up);
	if (!rv) rv = mpq_QSget_ranged_rows (p, &rowcnt, &rowbeg, &rowind, &rowval, &rhs, &sense, &range, 0);
	if (!rv) q = mpq_QScreate_prob ("clone", os);
	for (j = 0; q && !rv && j < n; j++) rv = mpq_QSnew_col (q, obj[j], lo[j], up[j], NULL);
	if (q && !rv && m) rv = mpq_QSadd_ranged_rows (q, m, rowcnt, rowbeg, rowind, (const mpq_t *) rowval, (const mpq_t *) rhs, sense, (const mpq_t *) range, NULL);
	if (rv && q) { mpq_QSfree_prob (q); q = NULL; }
	mpq_EGlpNumFreeArray (obj); mpq_EGlpNumFreeArray (lo); mpq_EGlpNumFreeArray (up);
	mpq_EGlpNumFreeArray (rowval); mpq_EGlpNumFreeArray (rhs); mpq_EGlpNumFreeArray (range);
	if (rowcnt) mpq_QSfree (rowcnt);
	if (rowbeg) mpq_QSfree (rowbeg);
	if (rowind) mpq_QSfree (rowind);
	if (sense) mpq_QSfree (sense);
	return q;
}

/* ---- one line --------------------------------------------------------------------------- */
static void exec_tokens (void);

static char **fork_lines = NULL;
static int fork_n = 0;

static void split_line (char *s)
{
	NT = 0;
	while (*s)
	{
		while (*s == ' ' || *s == '\t' || *s == '\n' || *s == '\r') s++;
		if (!*s) break;
		if (NT < QSX_MAXTOK) T[NT++] = s;
		while (*s && *s != ' ' && *s != '\t' && *s != '\n' && *s != '\r') s++;
		if (*s) *s++ = 0;
	}
}

static void run_fork (int n, FILE * in)
{
	int i, status = 0;
	pid_t pid;
	char errname[64];
	int efd;
	fork_lines = (char **) calloc (n + 1, sizeof (char *));
	fork_n = 0;
	for (i = 0; i < n; i++)
	{
		char *l = NULL;
		size_t cap = 0;
		if (getline (&l, &cap, in) < 0) { free (l); break; }
		fork_lines[fork_n++] = l;
	}
	strcpy (errname, "/tmp/qsx_store_err_XXXXXX");
	efd = mkstemp (errname);
	fflush (stdout);
	pid = fork ();
	if (pid == 0)
	{
		if (efd >= 0) { dup2 (efd, 2); close (efd); }
		alarm (60);
		for (i = 0; i < fork_n; i++)
		{
			split_line (fork_lines[i]);
			if (NT > 0 && T[0][0] != '#') { exec_tokens (); fflush (stdout); }
		}
		fflush (stdout);
		_exit (0);
	}
	else if (pid > 0)
	{
		waitpid (pid, &status, 0);
		if (WIFEXITED (status) && WEXITSTATUS (status) == 0) printf ("FORKEND OK\n");
		else
		{
			char buf[400], first[400];
			FILE *ef = efd >= 0 ? fdopen (efd, "r") : NULL;
			first[0] = 0;
			if (ef)
			{
				rewind (ef);
				while (fgets (buf, sizeof buf, ef))
				{
					if (strstr (buf, "ERROR: AddressSanitizer") || strstr (buf, "runtime error:") || strstr (buf, "SUMMARY:"))
					{
						char *c;
						strcpy (first, buf);
						for (c = first; *c; c++) if (*c == '\n' || *c == '\r') *c = ' ';
						if (strstr (buf, "SUMMARY:")) break;
					}
				}
			}
			if (WIFSIGNALED (status)) printf ("FORKEND CRASH sig=%d%s %s\n", WTERMSIG (status), WTERMSIG (status) == SIGALRM ? " timeout" : "", first);
			else printf ("FORKEND CRASH exit=%d %s\n", WEXITSTATUS (status), first);
			if (ef) { fclose (ef); efd = -1; }
		}
	}
	else printf ("FORKEND NOFORK\n");
	if (efd >= 0) close (efd);
	unlink (errname);
	for (i = 0; i < fork_n; i++) free (fork_lines[i]);
	free (fork_lines);
	fork_lines = NULL;
}

#define NEEDH(h) if (bad_args || !H[h]) { printf ("R %s SKIP %s\n", OP, bad_args ? "args" : "nohandle"); goto DONE; }

static void exec_tokens (void)
{
	mpq_t a, b, c;
	int h, rv;
	CUR = 0;
	bad_args = 0;
	OP = tk ();
	if (!strcmp (OP, "CASE")) { printf ("CASE %s\n", NT > 1 ? T[1] : "?"); return; }
	if (!strcmp (OP, "ECHO")) { int i; printf ("ECHO"); for (i = 1; i < NT; i++) printf (" %s", T[i]); putchar ('\n'); return; }
	if (!strcmp (OP, "RESET"))
	{
		int i;
		for (i = 0; i < NH; i++) { if (H[i]) mpq_QSfree_prob (H[i]); H[i] = NULL; if (DH[i]) dbl_QSfree_prob (DH[i]); DH[i] = NULL; if (FH[i]) mpf_QSfree_prob (FH[i]); FH[i] = NULL; }
		for (i = 0; i < NB; i++) drop_basis (i);
		printf ("R RESET OK rv=0\n");
		return;
	}
	if (!strcmp (OP, "PRECISION")) { unsigned pr = (unsigned) tk_int (); if (!bad_args) QSexact_set_precision (pr); printf ("R PRECISION OK rv=0 %u\n", pr); return; }
	mpq_init (a); mpq_init (b); mpq_init (c);
	if (!strcmp (OP, "MKBASIS"))
	{
		int bi = tk_handle ('b', NB);
		const char *cs = tk (), *rs = tk ();
		int ns = INT_MIN, nr = INT_MIN;	/* INT_MIN = "as long as the string" */
		if (CUR < NT) { if (!strcmp (T[CUR], "=")) CUR++; else ns = tk_int (); }
		if (CUR < NT) { if (!strcmp (T[CUR], "=")) CUR++; else nr = tk_int (); }
		if (bad_args || ns > 10000000 || nr > 10000000) printf ("R MKBASIS SKIP args\n");
		else { drop_basis (bi); BS[bi] = mk_basis (cs, rs, ns, nr); printf ("R MKBASIS OK rv=0\n"); }
		goto DONE;
	}
	if (!strcmp (OP, "FREEBASIS")) { int bi = tk_handle ('b', NB); if (!bad_args) drop_basis (bi); printf ("R FREEBASIS OK rv=0\n"); goto DONE; }
	if (!strcmp (OP, "FREEDBL")) { int d = tk_handle ('d', NH); if (!bad_args && DH[d]) { dbl_QSfree_prob (DH[d]); DH[d] = NULL; } printf ("R FREEDBL OK rv=0\n"); goto DONE; }
	if (!strcmp (OP, "FREEMPF")) { int d = tk_handle ('f', NH); if (!bad_args && FH[d]) { mpf_QSfree_prob (FH[d]); FH[d] = NULL; } printf ("R FREEMPF OK rv=0\n"); goto DONE; }
	if (!strcmp (OP, "DUMPDBL")) { int d = tk_handle ('d', NH); if (bad_args || !DH[d]) printf ("R DUMPDBL SKIP nohandle\n"); else dump_dbl (DH[d]); goto DONE; }
	if (!strcmp (OP, "DUMPMPF")) { int d = tk_handle ('f', NH); if (bad_args || !FH[d]) printf ("R DUMPMPF SKIP nohandle\n"); else dump_mpf (FH[d]); goto DONE; }

	h = tk_handle ('h', NH);
	if (!strcmp (OP, "CREATE"))
	{
		const char *nm = tk_name ();
		int os = objsense_tok ();
		if (bad_args) { printf ("R CREATE SKIP args\n"); goto DONE; }
		if (H[h]) mpq_QSfree_prob (H[h]);
		H[h] = mpq_QScreate_prob (nm, os);
		res_simple (H[h] ? 0 : 1);
	}
	else if (!strcmp (OP, "LOAD")) { op_load (h); if (bad_args) printf ("R LOAD SKIP args\n"); }
	else if (!strcmp (OP, "READ"))
	{
		const char *fn = tk (), *ft = tk ();
		if (bad_args) { printf ("R READ SKIP args\n"); goto DONE; }
		if (H[h]) mpq_QSfree_prob (H[h]);
		H[h] = mpq_QSread_prob (fn, ft);
		res_simple (H[h] ? 0 : 1);
	}
	else if (!strcmp (OP, "FREE"))
	{
		if (!bad_args && H[h]) { mpq_QSfree_prob (H[h]); H[h] = NULL; }
		printf ("R FREE OK rv=0\n");
	}
	else if (!strcmp (OP, "COPY"))
	{
		int h2 = tk_handle ('h', NH);
		const char *nm = tk_name ();
		mpq_QSdata *q;
		NEEDH (h);
		q = mpq_QScopy_prob (H[h], nm);
		if (h2 != h && H[h2]) mpq_QSfree_prob (H[h2]);
		if (h2 == h) { if (q) mpq_QSfree_prob (q); printf ("R COPY SKIP samehandle\n"); }
		else { H[h2] = q; res_simple (q ? 0 : 1); }
	}
	else if (!strcmp (OP, "CLONE"))
	{
		/* a fresh problem built from what the query API reports (independent of QScopy_prob) */
		int h2 = tk_handle ('h', NH);
		NEEDH (h);
		if (h2 == h) { printf ("R CLONE SKIP samehandle\n"); goto DONE; }
		if (H[h2]) { mpq_QSfree_prob (H[h2]); H[h2] = NULL; }
		H[h2] = clone_prob (H[h]);
		res_simple (H[h2] ? 0 : 1);
	}
	else if (!strcmp (OP, "COPYDBL"))
	{
		int d = tk_handle ('d', NH);
		NEEDH (h);
		if (DH[d]) dbl_QSfree_prob (DH[d]);
		DH[d] = QScopy_prob_mpq_dbl (H[h], "dblcopy");
		res_simple (DH[d] ? 0 : 1);
	}
	else if (!strcmp (OP, "COPYMPF"))
	{
		int d = tk_handle ('f', NH);
		NEEDH (h);
		if (FH[d]) mpf_QSfree_prob (FH[d]);
		FH[d] = QScopy_prob_mpq_mpf (H[h], "mpfcopy");
		res_simple (FH[d] ? 0 : 1);
	}
	else if (!strcmp (OP, "NEWCOL"))
	{
		const char *nm;
		tk_q (a); tk_q (b); tk_q (c); nm = tk_name ();
		NEEDH (h);
		res_simple (mpq_QSnew_col (H[h], a, b, c, nm));
	}
	else if (!strcmp (OP, "ADDCOL"))
	{
		const char *nm;
		svec s;
		tk_q (a); tk_q (b); tk_q (c); nm = tk_name ();
		sv_read (&s);
		if (bad_args || !H[h]) { printf ("R %s SKIP %s\n", OP, bad_args ? "args" : "nohandle"); sv_free (&s); goto DONE; }
		res_simple (mpq_QSadd_col (H[h], s.k, s.ind, s.val, a, b, c, nm));
		sv_free (&s);
	}
	else if (!strcmp (OP, "ADDCOLS")) { NEEDH (h); op_addcols (H[h]); if (bad_args) printf ("R ADDCOLS SKIP args\n"); }
	else if (!strcmp (OP, "NEWROW"))
	{
		int sn;
		const char *nm;
		tk_q (a); sn = tk_code (); nm = tk_name ();
		NEEDH (h);
		res_simple (mpq_QSnew_row (H[h], a, sn, nm));
	}
	else if (!strcmp (OP, "ADDROW") || !strcmp (OP, "ADDRROW"))
	{
		int sn, ranged = OP[4] == 'R';
		const char *nm;
		svec s;
		tk_q (a); sn = tk_code ();
		if (ranged) tk_q (b);
		nm = tk_name ();
		sv_read (&s);
		if (bad_args || !H[h]) { printf ("R %s SKIP %s\n", OP, bad_args ? "args" : "nohandle"); sv_free (&s); goto DONE; }
		if (ranged) rv = mpq_QSadd_ranged_row (H[h], s.k, s.ind, (const mpq_t *) s.val, (const mpq_t *) &a, sn, (const mpq_t *) &b, nm);
		else rv = mpq_QSadd_row (H[h], s.k, s.ind, (const mpq_t *) s.val, (const mpq_t *) &a, sn, nm);
		res_simple (rv);
		sv_free (&s);
	}
	else if (!strcmp (OP, "ADDROWS")) { NEEDH (h); op_addrows (H[h], 0); if (bad_args) printf ("R ADDROWS SKIP args\n"); }
	else if (!strcmp (OP, "ADDRROWS")) { NEEDH (h); op_addrows (H[h], 1); if (bad_args) printf ("R ADDRROWS SKIP args\n"); }
	else if (!strcmp (OP, "DELROW") || !strcmp (OP, "DELCOL"))
	{
		int i = tk_int ();
		NEEDH (h);
		res_simple (OP[3] == 'R' ? mpq_QSdelete_row (H[h], i) : mpq_QSdelete_col (H[h], i));
	}
	else if (!strcmp (OP, "DELROWS") || !strcmp (OP, "DELCOLS") || !strcmp (OP, "DELSETROWS") || !strcmp (OP, "DELSETCOLS"))
	{
		int k = tk_int (), i, *l, set = OP[3] == 'S', isrow = OP[set ? 6 : 3] == 'R', need;
		NEEDH (h);
		need = isrow ? mpq_QSget_rowcount (H[h]) : mpq_QSget_colcount (H[h]);
		if (k < 0 && !set) { /* negative count is itself a probe */ l = (int *) calloc (4, sizeof (int)); res_simple (isrow ? mpq_QSdelete_rows (H[h], k, l) : mpq_QSdelete_cols (H[h], k, l)); free (l); goto DONE; }
		if (k < 0 || k > QSX_MAXTOK) { printf ("R %s SKIP args\n", OP); goto DONE; }
		l = (int *) calloc ((k > need ? k : need) + 1, sizeof (int));
		for (i = 0; i < k; i++) l[i] = tk_int ();
		if (bad_args) { printf ("R %s SKIP args\n", OP); free (l); goto DONE; }
		if (set) rv = isrow ? mpq_QSdelete_setrows (H[h], l) : mpq_QSdelete_setcols (H[h], l);
		else rv = isrow ? mpq_QSdelete_rows (H[h], k, l) : mpq_QSdelete_cols (H[h], k, l);
		res_simple (rv);
		free (l);
	}
	else if (!strcmp (OP, "DELNROW") || !strcmp (OP, "DELNCOL"))
	{
		const char *nm = tk ();
		NEEDH (h);
		res_simple (OP[4] == 'R' ? mpq_QSdelete_named_row (H[h], nm) : mpq_QSdelete_named_column (H[h], nm));
	}
	else if (!strcmp (OP, "DELNROWS") || !strcmp (OP, "DELNCOLS"))
	{
		int k = tk_int (), i;
		const char **l;
		NEEDH (h);
		if (k < 0 || k > QSX_MAXTOK) { printf ("R %s SKIP args\n", OP); goto DONE; }
		l = (const char **) calloc (k + 1, sizeof (char *));
		for (i = 0; i < k; i++) l[i] = tk ();
		if (bad_args) { printf ("R %s SKIP args\n", OP); free (l); goto DONE; }
		res_simple (OP[4] == 'R' ? mpq_QSdelete_named_rows_list (H[h], k, l) : mpq_QSdelete_named_columns_list (H[h], k, l));
		free (l);
	}
	else if (!strcmp (OP, "CHGCOEF"))
	{
		int i = tk_int (), j = tk_int ();
		tk_q (a);
		NEEDH (h);
		res_simple (mpq_QSchange_coef (H[h], i, j, a));
	}
	else if (!strcmp (OP, "CHGOBJ") || !strcmp (OP, "CHGRHS") || !strcmp (OP, "CHGRANGE"))
	{
		int i = tk_int ();
		tk_q (a);
		NEEDH (h);
		res_simple (OP[3] == 'O' ? mpq_QSchange_objcoef (H[h], i, a) : OP[4] == 'H' ? mpq_QSchange_rhscoef (H[h], i, a) : mpq_QSchange_range (H[h], i, a));
	}
	else if (!strcmp (OP, "CHGSENSE"))
	{
		int i = tk_int (), s = tk_code ();
		NEEDH (h);
		res_simple (mpq_QSchange_sense (H[h], i, s));
	}
	else if (!strcmp (OP, "CHGSENSES"))
	{
		int k = tk_int (), i, *l;
		char *s;
		NEEDH (h);
		if (k < 0 || k > QSX_MAXTOK) { printf ("R %s SKIP args\n", OP); goto DONE; }
		l = (int *) calloc (k + 1, sizeof (int)); s = (char *) calloc (k + 1, 1);
		for (i = 0; i < k; i++) { l[i] = tk_int (); s[i] = (char) tk_code (); }
		if (bad_args) printf ("R %s SKIP args\n", OP);
		else res_simple (mpq_QSchange_senses (H[h], k, l, s));
		free (l); free (s);
	}
	else if (!strcmp (OP, "CHGBND"))
	{
		int j = tk_int (), lu = tk_code ();
		tk_q (a);
		NEEDH (h);
		res_simple (mpq_QSchange_bound (H[h], j, lu, a));
	}
	else if (!strcmp (OP, "CHGBNDS"))
	{
		int k = tk_int (), i, *l;
		char *s;
		mpq_t *v;
		NEEDH (h);
		if (k < 0 || k > QSX_MAXTOK) { printf ("R %s SKIP args\n", OP); goto DONE; }
		l = (int *) calloc (k + 1, sizeof (int)); s = (char *) calloc (k + 1, 1); v = mpq_EGlpNumAllocArray (k + 1);
		for (i = 0; i < k; i++) { l[i] = tk_int (); s[i] = (char) tk_code (); tk_q (v[i]); }
		if (bad_args) printf ("R %s SKIP args\n", OP);
		else res_simple (mpq_QSchange_bounds (H[h], k, l, s, (const mpq_t *) v));
		free (l); free (s); mpq_EGlpNumFreeArray (v);
	}
	else if (!strcmp (OP, "CHGOBJSENSE"))
	{
		int s = objsense_tok ();
		NEEDH (h);
		res_simple (mpq_QSchange_objsense (H[h], s));
	}
	else if (!strcmp (OP, "SETPARAM"))
	{
		int id = tk_int (), v = tk_int ();
		NEEDH (h);
		res_simple (mpq_QSset_param (H[h], id, v));
	}
	else if (!strcmp (OP, "SETPARAMQ"))
	{
		int id = tk_int ();
		tk_q (a);
		NEEDH (h);
		res_simple (mpq_QSset_param_EGlpNum (H[h], id, a));
	}
	else if (!strcmp (OP, "POISON"))
	{
		/* white-box: fill the unused capacity of structmap / rowmap (entries at and beyond the logical length,
		 * which no correct call reads) with the valid internal column 0, so that an off-by-one index check does
		 * not depend on uninitialised memory but deterministically acts on column 0 (and becomes observable) */
		mpq_ILLlpdata *q;
		int k;
		NEEDH (h);
		q = H[h]->qslp;
		if (q->ncols > 0)
		{
			for (k = q->nstruct; q->structmap && k < q->structsize; k++) q->structmap[k] = 0;
			for (k = q->nrows; q->rowmap && k < q->rowsize; k++) q->rowmap[k] = 0;
		}
		printf ("R POISON OK rv=0\n");
	}
	else if (!strcmp (OP, "MARKINT"))
	{
		/* white-box set-up step (what the LP/MPS readers do): mark structural j as integer */
		int j = tk_int ();
		mpq_ILLlpdata *q;
		NEEDH (h);
		q = H[h]->qslp;
		if (j < 0 || j >= q->nstruct) { printf ("R MARKINT ERR rv=1\n"); goto DONE; }
		if (!q->intmarker) q->intmarker = (char *) calloc (q->structsize > 0 ? q->structsize : 1, 1);
		q->intmarker[j] = 1;
		printf ("R MARKINT OK rv=0\n");
	}
	else if (!strcmp (OP, "SOLVE"))
	{
		const char *w = tk ();
		int st = -1;
		NEEDH (h);
		if (!strcmp (w, "EXACT"))
		{
			const char *al = tk ();
			int n = mpq_QSget_colcount (H[h]), m = mpq_QSget_rowcount (H[h]);
			int algo = al[0] == 'D' ? DUAL_SIMPLEX : PRIMAL_SIMPLEX;
			mpq_t *x = mpq_EGlpNumAllocArray (n + m + 1), *y = mpq_EGlpNumAllocArray (m + 1);
			QSbasis *B = NULL;
			if (CUR < NT && strcmp (T[CUR], "-")) { int bi = tk_handle ('b', NB); if (!bad_args) B = BS[bi]; }
			rv = QSexact_solver (H[h], x, y, B, algo, &st);
			res_rv (rv);
			if (!rv)
			{
				printf (" %d |", st);
				if (st == QS_LP_OPTIMAL) qsx_print_qarr (stdout, x, n);
				fputs (" |", stdout);
				if (st == QS_LP_OPTIMAL || st == QS_LP_INFEASIBLE) qsx_print_qarr (stdout, y, m);
				res_end ();
			}
			mpq_EGlpNumFreeArray (x); mpq_EGlpNumFreeArray (y);
		}
		else
		{
			rv = !strcmp (w, "PRIMAL") ? mpq_QSopt_primal (H[h], &st) : mpq_QSopt_dual (H[h], &st);
			res_rv (rv);
			if (!rv) { printf (" %d", st); res_end (); }
		}
	}
	else if (!strcmp (OP, "GETBASIS"))
	{
		int bi = tk_handle ('b', NB);
		QSbasis *B;
		NEEDH (h);
		B = mpq_QSget_basis (H[h]);
		res_rv (B ? 0 : 1);
		if (B) { qsx_print_basis (stdout, B); res_end (); drop_basis (bi); BS[bi] = B; }
	}
	else if (!strcmp (OP, "LOADBASIS"))
	{
		int bi = tk_handle ('b', NB);
		NEEDH (h);
		if (!BS[bi]) { printf ("R LOADBASIS SKIP nobasis\n"); goto DONE; }
		res_simple (mpq_QSload_basis (H[h], BS[bi]));
	}
	else if (!strcmp (OP, "LOADBASISARR") || !strcmp (OP, "LOADBASISNORMS"))
	{
		const char *cs = tk (), *rs = tk ();
		int n, m, lc, lr, i;
		char *c2, *r2;
		NEEDH (h);
		n = mpq_QSget_colcount (H[h]); m = mpq_QSget_rowcount (H[h]);
		lc = strcmp (cs, "-") ? (int) strlen (cs) : 0; lr = strcmp (rs, "-") ? (int) strlen (rs) : 0;
		c2 = (char *) calloc ((n > lc ? n : lc) + 1, 1); r2 = (char *) calloc ((m > lr ? m : lr) + 1, 1);
		memcpy (c2, lc ? cs : "", lc); memcpy (r2, lr ? rs : "", lr);
		if (OP[9] == 'A') rv = mpq_QSload_basis_array (H[h], !strcmp (cs, "NULL") ? NULL : c2, !strcmp (rs, "NULL") ? NULL : r2);
		else
		{
			mpq_t *nr = mpq_EGlpNumAllocArray (m + 1);
			for (i = 0; i < m; i++) mpq_set_ui (nr[i], 1, 1);
			rv = mpq_QSload_basis_and_row_norms_array (H[h], c2, r2, nr);
			mpq_EGlpNumFreeArray (nr);
		}
		res_simple (rv);
		free (c2); free (r2);
	}
	else if (!strcmp (OP, "WRITEBASIS"))
	{
		const char *bt = tk (), *fn = tk ();
		QSbasis *B = NULL;
		NEEDH (h);
		if (strcmp (bt, "-")) { int bi = atoi (bt + 1); if (bt[0] == 'b' && bi >= 0 && bi < NB) B = BS[bi]; }
		res_simple (mpq_QSwrite_basis (H[h], B, fn));
	}
	else if (!strcmp (OP, "READBASIS"))
	{
		const char *fn = tk ();
		int bi = tk_handle ('b', NB);
		QSbasis *B;
		NEEDH (h);
		B = mpq_QSread_basis (H[h], fn);
		res_rv (B ? 0 : 1);
		if (B) { qsx_print_basis (stdout, B); res_end (); drop_basis (bi); BS[bi] = B; }
	}
	else if (!strcmp (OP, "READLOADBASIS"))
	{
		const char *fn = tk ();
		NEEDH (h);
		res_simple (mpq_QSread_and_load_basis (H[h], fn));
	}
	else if (!strcmp (OP, "WRITE"))
	{
		const char *fn = tk (), *ft = tk ();
		NEEDH (h);
		res_simple (mpq_QSwrite_prob (H[h], fn, ft));
	}
	else if (!strcmp (OP, "BINV") || !strcmp (OP, "TABROW"))
	{
		int i = tk_int (), n, m;
		mpq_t *r;
		NEEDH (h);
		n = mpq_QSget_colcount (H[h]); m = mpq_QSget_rowcount (H[h]);
		r = mpq_EGlpNumAllocArray (n + m + 1);
		rv = OP[0] == 'B' ? mpq_QSget_binv_row (H[h], i, r) : mpq_QSget_tableau_row (H[h], i, r);
		res_rv (rv);
		if (!rv) { qsx_print_qarr (stdout, r, OP[0] == 'B' ? m : n + m); res_end (); }
		mpq_EGlpNumFreeArray (r);
	}
	else if (!strcmp (OP, "BASORDER"))
	{
		int m, i, *o;
		NEEDH (h);
		m = mpq_QSget_rowcount (H[h]);
		o = (int *) calloc (m + 1, sizeof (int));
		rv = mpq_QSget_basis_order (H[h], o);
		res_rv (rv);
		if (!rv) { for (i = 0; i < m; i++) printf (" %d", o[i]); res_end (); }
		free (o);
	}
	else if (!strcmp (OP, "PIVOTINROW") || !strcmp (OP, "PIVOTINCOL"))
	{
		int k = tk_int (), i, *l;
		NEEDH (h);
		if (k < 0 || k > QSX_MAXTOK) { printf ("R %s SKIP args\n", OP); goto DONE; }
		l = (int *) calloc (k + 1, sizeof (int));
		for (i = 0; i < k; i++) l[i] = tk_int ();
		if (bad_args) printf ("R %s SKIP args\n", OP);
		else res_simple (OP[7] == 'R' ? mpq_QSopt_pivotin_row (H[h], k, l) : mpq_QSopt_pivotin_col (H[h], k, l));
		free (l);
	}
	else if (!strcmp (OP, "ROWNORMS")) { NEEDH (h); res_simple (mpq_QScompute_row_norms (H[h])); }
	else if (!strcmp (OP, "GET")) { NEEDH (h); op_get (H[h]); if (bad_args) printf ("R GET SKIP args\n"); }
	else if (!strcmp (OP, "Q")) { NEEDH (h); op_query (H[h]); if (bad_args) printf ("R Q SKIP args\n"); }
	else if (!strcmp (OP, "ACCESS")) { NEEDH (h); do_access (H[h]); }
	else if (!strcmp (OP, "DUMP")) { NEEDH (h); dump_user (H[h]); }
	else if (!strcmp (OP, "DUMPI")) { NEEDH (h); qsx_dump_ilp (stdout, H[h]); puts ("END"); }
	else if (!strcmp (OP, "DUMPM") || !strcmp (OP, "DUMPMF")) { NEEDH (h); dump_matrix (H[h], OP[5] == 'F'); }
	else if (!strcmp (OP, "DUMPALL"))
	{
		/* everything C07 compares before/after: problem, parameters, basis, solution, state */
		NEEDH (h);
		printf ("PARAMS"); print_params (H[h]); putchar ('\n');
		{
			QSbasis *B = H[h]->basis ? mpq_QSget_basis (H[h]) : NULL;
			fputs ("BASIS", stdout); qsx_print_basis (stdout, B); putchar ('\n');
			if (B) mpq_QSfree_basis (B);
		}
		do_access (H[h]);
		dump_user (H[h]);
	}
	else printf ("R %s SKIP unknown-op\n", OP);
DONE:
	mpq_clear (a); mpq_clear (b); mpq_clear (c);
}

/* QSX_LOG=1: library log messages go to stderr (diagnosis of failing calls) */
static void log_echo (const char *msg, void *data)
{
	(void) data;
	fprintf (stderr, "LOG %s\n", msg);
}

int main (int argc, char **argv)
{
	FILE *in = stdin;
	char *line = NULL;
	size_t cap = 0;
	(void) argc; (void) argv;
	QSexactStart ();
	QSlog_set_handler (getenv ("QSX_LOG") ? log_echo : qsx_log_sink, NULL);
	T = (char **) malloc (sizeof (char *) * QSX_MAXTOK);
	printf ("M "); mpq_out_str (stdout, 10, mpq_ILL_MAXDOUBLE); putchar ('\n');
	fflush (stdout);
	while (getline (&line, &cap, in) >= 0)
	{
		split_line (line);
		if (NT == 0 || T[0][0] == '#') continue;
		if (!strcmp (T[0], "FORK")) { run_fork (NT > 1 ? atoi (T[1]) : 0, in); fflush (stdout); continue; }
		exec_tokens ();
		fflush (stdout);
	}
	{
		int i;
		for (i = 0; i < NH; i++) { if (H[i]) mpq_QSfree_prob (H[i]); if (DH[i]) dbl_QSfree_prob (DH[i]); if (FH[i]) mpf_QSfree_prob (FH[i]); }
		for (i = 0; i < NB; i++) drop_basis (i);
	}
	free (line);
	QSexactClear ();
	return 0;
}
