/* Shared helpers of the verification harness programs (built against the
 * library compiled from /repo's working tree by tools/build_repo.sh).
 *
 * Text protocol, one record per line, blank separated tokens.
 *   rationals: "p/q" or "p" (canonical), "inf"/"-inf" on input = the sentinel
 *   LP block on input:
 *     LP <name> MIN|MAX <ncols> <nrows>
 *     COL <name> <obj> <lo> <up>
 *     ROW <name> <L|G|E|R> <rhs> <range> <k> (<col> <coef>)*k
 */
#ifndef QSX_COMMON_H
#define QSX_COMMON_H
#include <stdio.h>
#include <stdlib.h>
#include <string.h>
#include <unistd.h>
#include <signal.h>
#include <gmp.h>
#include "QSopt_ex.h"
#include "logging-private.h"

/* ---- output of the harness itself goes to qsx_out, so that file descriptors 1 and 2 can be
 * captured separately (C20: the library must not write to them once a log handler is installed).
 * With env QSX_CAPTURE=<prefix> fd 1 and fd 2 are redirected to <prefix>.1 / <prefix>.2 and the
 * harness prints `CAP <bytes on fd1> <bytes on fd2>` at every CASE marker. */
static FILE *qsx_out = NULL;
static FILE *qsx_get_out (void);
static int qsx_cap_on = 0;
static char qsx_cap1[1024], qsx_cap2[1024];
#include <sys/stat.h>
#include <fcntl.h>
static void qsx_capture_init (void)
{
	const char *pre = getenv ("QSX_CAPTURE");
	if (qsx_out) return;
	int fd = dup (1);
	qsx_out = fdopen (fd, "w");
	if (pre && *pre)
	{
		int f1, f2;
		snprintf (qsx_cap1, sizeof qsx_cap1, "%s.1", pre);
		snprintf (qsx_cap2, sizeof qsx_cap2, "%s.2", pre);
		f1 = open (qsx_cap1, O_WRONLY | O_CREAT | O_TRUNC | O_APPEND, 0644);
		f2 = open (qsx_cap2, O_WRONLY | O_CREAT | O_TRUNC | O_APPEND, 0644);
		if (f1 >= 0 && f2 >= 0)
		{
			fflush (NULL);
			dup2 (f1, 1); dup2 (f2, 2);
			close (f1); close (f2);
			qsx_cap_on = 1;
		}
	}
}
static void qsx_capture_report (void)
{
	struct stat a, b;
	if (!qsx_cap_on) return;
	fflush (NULL);
	if (stat (qsx_cap1, &a)) a.st_size = -1;
	if (stat (qsx_cap2, &b)) b.st_size = -1;
	fprintf (qsx_get_out (), "CAP %ld %ld\n", (long) a.st_size, (long) b.st_size);
}
/* from here on the harness never touches the real standard output; qsx_out is set up on first use
 * (harness programs that want the capture call qsx_capture_init () first thing in main) */
static FILE *qsx_get_out (void)
{
	if (!qsx_out) qsx_capture_init ();
	return qsx_out;
}
#undef stdout
#define stdout qsx_get_out ()
#define printf(...) fprintf (qsx_get_out (), __VA_ARGS__)
#define putchar(c) fputc ((c), qsx_get_out ())
#define puts(s) (fputs ((s), qsx_get_out ()), fputc ('\n', qsx_get_out ()))

#define QSX_MAXTOK 200000
static char *qsx_line = NULL;
static size_t qsx_line_cap = 0;
static char **qsx_tok = NULL;
static int qsx_ntok = 0;

/* read next non-empty line from in, split into tokens; returns 0 on EOF */
static int qsx_next (FILE * in)
{
	ssize_t n;
	if (!qsx_tok) qsx_tok = (char **) malloc (sizeof (char *) * QSX_MAXTOK);
	while ((n = getline (&qsx_line, &qsx_line_cap, in)) >= 0)
	{
		char *s = qsx_line;
		qsx_ntok = 0;
		while (*s)
		{
			while (*s == ' ' || *s == '\t' || *s == '\n' || *s == '\r') s++;
			if (!*s) break;
			if (qsx_ntok < QSX_MAXTOK) qsx_tok[qsx_ntok++] = s;
			while (*s && *s != ' ' && *s != '\t' && *s != '\n' && *s != '\r') s++;
			if (*s) *s++ = 0;
		}
		if (qsx_ntok > 0 && qsx_tok[0][0] != '#') return 1;
	}
	return 0;
}

static void qsx_die (const char *msg)
{
	fprintf (stderr, "qsx harness: %s\n", msg);
	exit (3);
}

static void qsx_parse_q (const char *t, mpq_t out)
{
	if (!strcmp (t, "inf")) { mpq_set (out, mpq_ILL_MAXDOUBLE); return; }
	if (!strcmp (t, "-inf")) { mpq_set (out, mpq_ILL_MINDOUBLE); return; }
	if (mpq_set_str (out, t, 10)) qsx_die ("bad rational token");
	if (mpz_sgn (mpq_denref (out)) == 0) qsx_die ("zero denominator token");
	mpq_canonicalize (out);
}

static void qsx_print_q (FILE * o, mpq_t q)
{
	if (mpq_equal (q, mpq_ILL_MAXDOUBLE)) fputs ("inf", o);
	else if (mpq_equal (q, mpq_ILL_MINDOUBLE)) fputs ("-inf", o);
	else mpq_out_str (o, 10, q);
}

static void qsx_print_qarr (FILE * o, mpq_t * a, int n)
{
	int i;
	for (i = 0; i < n; i++) { fputc (' ', o); qsx_print_q (o, a[i]); }
}

/* Build a problem through the public API from an LP block whose header line is
 * in qsx_tok now.  Returns NULL on API failure. */
static mpq_QSdata *qsx_read_lp (FILE * in)
{
	/* optional 6th header token: build order
	 *   (none)     all columns (QSnew_col), then rows (QSadd_row)
	 *   ROWSFIRST  empty rows first (QSnew_row), then columns with their entries (QSadd_col)
	 *   MIXED      first half of the columns, all rows restricted to them, remaining columns with QSadd_col
	 * the resulting problem is the same; the internal column order (structmap/rowmap) differs */
	int ncols, nrows, i, j, rv = 0, order = 0, ncfirst;
	mpq_QSdata *p;
	mpq_t a, b, c;
	char **cname = 0, **rname = 0, *rsense = 0;
	mpq_t *cobj = 0, *clo = 0, *cup = 0, *rrhs = 0, *rrng = 0;
	int *rk = 0, **rind = 0;
	mpq_t **rval = 0;
	if (qsx_ntok < 5 || strcmp (qsx_tok[0], "LP")) qsx_die ("LP header expected");
	ncols = atoi (qsx_tok[3]);
	nrows = atoi (qsx_tok[4]);
	if (qsx_ntok > 5) order = !strcmp (qsx_tok[5], "ROWSFIRST") ? 1 : (!strcmp (qsx_tok[5], "MIXED") ? 2 : 0);
	p = mpq_QScreate_prob (qsx_tok[1], strcmp (qsx_tok[2], "MAX") ? QS_MIN : QS_MAX);
	if (!p) return NULL;
	mpq_init (a); mpq_init (b); mpq_init (c);
	cname = (char **) calloc (ncols + 1, sizeof (char *)); rname = (char **) calloc (nrows + 1, sizeof (char *));
	rsense = (char *) calloc (nrows + 1, 1);
	cobj = mpq_EGlpNumAllocArray (ncols + 1); clo = mpq_EGlpNumAllocArray (ncols + 1); cup = mpq_EGlpNumAllocArray (ncols + 1);
	rrhs = mpq_EGlpNumAllocArray (nrows + 1); rrng = mpq_EGlpNumAllocArray (nrows + 1);
	rk = (int *) calloc (nrows + 1, sizeof (int)); rind = (int **) calloc (nrows + 1, sizeof (int *));
	rval = (mpq_t **) calloc (nrows + 1, sizeof (mpq_t *));
	for (i = 0; i < ncols; i++)
	{
		if (!qsx_next (in) || strcmp (qsx_tok[0], "COL") || qsx_ntok < 5) qsx_die ("COL expected");
		cname[i] = strcmp (qsx_tok[1], "-") ? strdup (qsx_tok[1]) : NULL;
		qsx_parse_q (qsx_tok[2], cobj[i]); qsx_parse_q (qsx_tok[3], clo[i]); qsx_parse_q (qsx_tok[4], cup[i]);
	}
	for (i = 0; i < nrows; i++)
	{
		int k;
		if (!qsx_next (in) || strcmp (qsx_tok[0], "ROW") || qsx_ntok < 6) qsx_die ("ROW expected");
		rname[i] = strcmp (qsx_tok[1], "-") ? strdup (qsx_tok[1]) : NULL;
		rsense[i] = qsx_tok[2][0];
		qsx_parse_q (qsx_tok[3], rrhs[i]); qsx_parse_q (qsx_tok[4], rrng[i]);
		k = atoi (qsx_tok[5]);
		if (qsx_ntok < 6 + 2 * k) qsx_die ("ROW too short");
		rk[i] = k;
		rind[i] = (int *) malloc (sizeof (int) * (k + 1));
		rval[i] = mpq_EGlpNumAllocArray (k + 1);
		for (j = 0; j < k; j++)
		{
			rind[i][j] = atoi (qsx_tok[6 + 2 * j]);
			qsx_parse_q (qsx_tok[7 + 2 * j], rval[i][j]);
		}
	}
	ncfirst = order == 0 ? ncols : (order == 1 ? 0 : ncols / 2);
	for (i = 0; i < ncfirst && !rv; i++) rv = mpq_QSnew_col (p, cobj[i], clo[i], cup[i], cname[i]);
	for (i = 0; i < nrows && !rv; i++)
	{
		/* entries restricted to the columns that exist already */
		int k = 0, *ind = (int *) malloc (sizeof (int) * (rk[i] + 1));
		mpq_t *val = mpq_EGlpNumAllocArray (rk[i] + 1);
		for (j = 0; j < rk[i]; j++)
			if (rind[i][j] < ncfirst || order == 0) { ind[k] = rind[i][j]; mpq_set (val[k], rval[i][j]); k++; }
		if (rsense[i] == 'R') rv = mpq_QSadd_ranged_row (p, k, ind, val, &rrhs[i], 'R', &rrng[i], rname[i]);
		else rv = mpq_QSadd_row (p, k, ind, val, &rrhs[i], rsense[i], rname[i]);
		free (ind); mpq_EGlpNumFreeArray (val);
	}
	for (i = ncfirst; i < ncols && !rv; i++)
	{
		/* column i with its entries (in row order; repeated indices of a row are kept as repeated entries) */
		int k = 0, cap = 0, r, *ind;
		mpq_t *val;
		for (r = 0; r < nrows; r++) for (j = 0; j < rk[r]; j++) if (rind[r][j] == i) cap++;
		ind = (int *) malloc (sizeof (int) * (cap + 1));
		val = mpq_EGlpNumAllocArray (cap + 1);
		for (r = 0; r < nrows; r++)
		{
			/* QSadd_col wants distinct row indices: sum repeated entries of one row */
			int seen = 0;
			for (j = 0; j < rk[r]; j++)
				if (rind[r][j] == i)
				{
					if (!seen) { ind[k] = r; mpq_set (val[k], rval[r][j]); k++; seen = 1; }
					else mpq_add (val[k - 1], val[k - 1], rval[r][j]);
				}
		}
		rv = mpq_QSadd_col (p, k, ind, val, cobj[i], clo[i], cup[i], cname[i]);
		free (ind); mpq_EGlpNumFreeArray (val);
	}
	for (i = 0; i < ncols; i++) free (cname[i]);
	for (i = 0; i < nrows; i++) { free (rname[i]); free (rind[i]); mpq_EGlpNumFreeArray (rval[i]); }
	free (cname); free (rname); free (rsense); free (rk); free (rind); free (rval);
	mpq_EGlpNumFreeArray (cobj); mpq_EGlpNumFreeArray (clo); mpq_EGlpNumFreeArray (cup);
	mpq_EGlpNumFreeArray (rrhs); mpq_EGlpNumFreeArray (rrng);
	mpq_clear (a); mpq_clear (b); mpq_clear (c);
	if (rv) { mpq_QSfree_prob (p); return NULL; }
	return p;
}

/* Internal form, normalised: structural columns in API order (through
 * structmap), then one logical per row in row order (through rowmap).
 *   ILP <max> <ncols> <nrows> <nstruct>
 *   C <obj> <lo> <up> <k> (<row> <val>)*k
 *   B <rhs>*nrows                                             */
static void qsx_dump_ilp (FILE * o, mpq_QSdata * p)
{
	mpq_ILLlpdata *q = p->qslp;
	int i, j, k;
	fprintf (o, "ILP %d %d %d %d\n", q->objsense == QS_MAX ? 1 : 0, q->nstruct + q->nrows, q->nrows, q->nstruct);
	for (i = 0; i < q->nstruct + q->nrows; i++)
	{
		int c = i < q->nstruct ? q->structmap[i] : q->rowmap[i - q->nstruct];
		fputs ("C ", o); qsx_print_q (o, q->obj[c]);
		fputc (' ', o); qsx_print_q (o, q->lower[c]);
		fputc (' ', o); qsx_print_q (o, q->upper[c]);
		k = q->A.matcnt[c];
		fprintf (o, " %d", k);
		for (j = 0; j < k; j++)
		{
			fprintf (o, " %d ", q->A.matind[q->A.matbeg[c] + j]);
			qsx_print_q (o, q->A.matval[q->A.matbeg[c] + j]);
		}
		fputc ('\n', o);
	}
	fputs ("B", o);
	qsx_print_qarr (o, q->rhs, q->nrows);
	fputc ('\n', o);
}

/* User view through the query API only.
 *   ULP <max> <ncols> <nrows>
 *   UC <name> <obj> <lo> <up> <int>
 *   UR <name> <sense> <rhs> <range> <k> (<col> <coef>)*k                       */
static int qsx_dump_user (FILE * o, mpq_QSdata * p)
{
	int ncols = mpq_QSget_colcount (p), nrows = mpq_QSget_rowcount (p);
	int i, j, rv = 0, os = 0;
	int *rowcnt = 0, *rowbeg = 0, *rowind = 0, *intf = 0;
	mpq_t *rowval = 0, *rhs = 0, *range = 0, *obj = 0, *lo = 0, *up = 0;
	char *sense = 0, **rn = 0, **cn = 0;
	rv = mpq_QSget_objsense (p, &os);
	if (rv) return rv;
	obj = mpq_EGlpNumAllocArray (ncols + 1);
	lo = mpq_EGlpNumAllocArray (ncols + 1);
	up = mpq_EGlpNumAllocArray (ncols + 1);
	intf = (int *) calloc (ncols + 1, sizeof (int));
	rn = (char **) calloc (nrows + 1, sizeof (char *));
	cn = (char **) calloc (ncols + 1, sizeof (char *));
	if (ncols) rv = mpq_QSget_obj (p, obj);
	if (!rv && ncols) rv = mpq_QSget_bounds (p, lo, up);
	if (!rv && ncols) rv = mpq_QSget_intflags (p, intf);
	if (!rv && ncols) rv = mpq_QSget_colnames (p, cn);
	if (!rv && nrows) rv = mpq_QSget_rownames (p, rn);
	if (!rv) rv = mpq_QSget_ranged_rows (p, &rowcnt, &rowbeg, &rowind, &rowval, &rhs, &sense, &range, 0);
	if (rv) goto DONE;
	fprintf (o, "ULP %d %d %d\n", os == QS_MAX ? 1 : 0, ncols, nrows);
	for (j = 0; j < ncols; j++)
	{
		fprintf (o, "UC %s ", cn[j] ? cn[j] : "-");
		qsx_print_q (o, obj[j]); fputc (' ', o);
		qsx_print_q (o, lo[j]); fputc (' ', o);
		qsx_print_q (o, up[j]);
		fprintf (o, " %d\n", intf[j]);
	}
	for (i = 0; i < nrows; i++)
	{
		fprintf (o, "UR %s %c ", rn[i] ? rn[i] : "-", sense[i]);
		qsx_print_q (o, rhs[i]); fputc (' ', o);
		qsx_print_q (o, range[i]);
		fprintf (o, " %d", rowcnt[i]);
		for (j = 0; j < rowcnt[i]; j++)
		{
			fprintf (o, " %d ", rowind[rowbeg[i] + j]);
			qsx_print_q (o, rowval[rowbeg[i] + j]);
		}
		fputc ('\n', o);
	}
DONE:
	for (i = 0; i < nrows; i++) if (rn && rn[i]) mpq_QSfree (rn[i]);
	for (j = 0; j < ncols; j++) if (cn && cn[j]) mpq_QSfree (cn[j]);
	free (rn); free (cn); free (intf);
	mpq_EGlpNumFreeArray (obj); mpq_EGlpNumFreeArray (lo); mpq_EGlpNumFreeArray (up);
	mpq_EGlpNumFreeArray (rowval); mpq_EGlpNumFreeArray (rhs); mpq_EGlpNumFreeArray (range);
	if (rowcnt) mpq_QSfree (rowcnt);
	if (rowbeg) mpq_QSfree (rowbeg);
	if (rowind) mpq_QSfree (rowind);
	if (sense) mpq_QSfree (sense);
	return rv;
}

static void qsx_print_basis (FILE * o, QSbasis * B)
{
	int i;
	if (!B) { fputs (" - -", o); return; }
	fputc (' ', o);
	if (B->nstruct == 0) fputc ('-', o);
	for (i = 0; i < B->nstruct; i++) fputc (B->cstat[i] >= 32 && B->cstat[i] < 127 ? B->cstat[i] : '?', o);
	fputc (' ', o);
	if (B->nrows == 0) fputc ('-', o);
	for (i = 0; i < B->nrows; i++) fputc (B->rstat[i] >= 32 && B->rstat[i] < 127 ? B->rstat[i] : '?', o);
}

/* log handler that swallows (or counts) everything */
static long qsx_log_msgs = 0;
static void qsx_log_sink (const char *msg, void *data)
{
	(void) data;
	qsx_log_msgs++;
	if (getenv ("QSX_LOG")) fprintf (qsx_get_out (), "LOG %s\n", msg);
}

#endif
