/* I/O-domain harness (properties C08 C09 C10 C11 C14 C19).
 *
 * usage: h_io <scratch-dir>          script on stdin, one op per line
 *
 * Names and free strings travel %-encoded (every byte outside 0x21..0x7e and '%' itself
 * is written %XX); "-" denotes "no name".
 *
 *   CASE <id>
 *   NUM <enc>            mpq_EGlpNumReadStrXc on the decoded string -> "NUM <n_char> <value|->"
 *   NUMF <enc>           same in a forked child               -> as NUM or "NUM CRASH <sig>"
 *   GETVAL <enc>         mpq_ILLget_value (what the LP/MPS readers call) in a child
 *   PRINTNUM <p/q>       mpq_EGlpNumGetStr                    -> "PRINTNUM <enc>"
 *   LOAD <h>             followed by a block
 *        LP <probname> MIN|MAX <ncols> <nrows>
 *        COL <name> <obj> <lo> <up> <int>
 *        ROW <name> <L|G|E|R> <rhs> <range> <k> (<colindex> <coef>)*k
 *   LOADMIX <h> <k>      same block; the rows are added after the first k columns, the other columns after the rows
 *   WRITE <h> <file> LP|MPS     mpq_QSwrite_prob   -> "WRITE <rv> <nmsg>" then "W <enc log message>"*
 *   READ <h> <file> LP|MPS      mpq_QSget_prob with error memory -> "READ OK|FAIL <nerr> <nwarn>" then "E <type> <line> <enc desc>"*
 *   READP <h> <file> LP|MPS     mpq_QSread_prob (the plain public entry)
 *   TRYREAD <file> LP|MPS [s]   C11: child with alarm(s, default 10): read; if a problem comes back write it (LP, MPS), solve, free
 *                               -> "TRYREAD PROB <nerr> <ncols> <nrows> w<rv><rv> s<rv>:<status>" | "TRYREAD FAIL <nerr>"
 *                                | "TRYREAD CRASH <how> <enc first sanitizer line>" | "TRYREAD TIMEOUT"
 *   TRYBASIS <h> <file>         C11: child: mpq_QSread_basis + mpq_QSread_and_load_basis on problem h
 *   DUMP <h> | DUMPO <h>        by names, sorted by name | in index order
 *   DUMPC <h>                   by columns in the storage order of the matrix: "PC <sense> <ncols> <nrows> <probname> <objname|-> <intmarker?> <rangeval?>",
 *                               "CC <name> <obj> <lo> <up> <int> <k> (<rowname> <coef>)*k", "RR <name> <sense> <rhs> <range>"
 *   SOLVE <h>                   QSexact_solver -> "SOLVE <rv> <status> <objval|->" ; "X ..." ; "PI ..."
 *   OPT <h> PRIMAL|DUAL         mpq_QSopt_primal/dual (uses/creates the problem's own basis)
 *   GETBASIS <h>                "BASIS <cstat> <rstat>"
 *   LOADBASIS <h> <cstat> <rstat>
 *   WRITEBASIS <h> <file> <cstat> <rstat> | WRITEBASIS <h> <file> OWN
 *   READBASIS <h> <file>        mpq_QSread_basis -> "READBASIS OK <cstat> <rstat>" | "READBASIS FAIL"
 *   READLOADBASIS <h> <file>    mpq_QSread_and_load_basis
 *   BOPT <h> <cstat> <rstat>    QSexact_basis_optimalstatus
 *   PRINTSOL <h> <file>         QSexact_print_sol
 *   SOLUTION <h>                "SOLUTION <rv> <status> <value|->" ; "SX .." ; "SRC .." ; "SPI .." ; "SSLACK .." (query API, after a solve)
 *   DUMPILP <h>                 internal form (common.h qsx_dump_ilp)
 *   CAT <file>                  "CAT <nbytes>" then "L <enc line>"*  (decompressing through EGio when .gz/.bz2)
 *   PUT <file> <enc>            write the decoded bytes to file (plain)
 *   FREE <h>
 */
#include "common.h"
#include <sys/wait.h>
#include <sys/stat.h>
#include <fcntl.h>
#include <errno.h>
#include "eg_io.h"
#include "exact.h"

#define NH 16
static mpq_QSdata *H[NH];
static const char *SCR = "/tmp";

/* ---- %-encoding ---------------------------------------------------------- */
static void put_enc (FILE * o, const char *s, long n)
{
	long i;
	if (n < 0) n = (long) strlen (s);
	if (n == 0) { fputs ("%", o); return; }	/* lone % = empty string */
	for (i = 0; i < n; i++)
	{
		unsigned char c = (unsigned char) s[i];
		if (c < 0x21 || c > 0x7e || c == '%') fprintf (o, "%%%02X", c);
		else fputc (c, o);
	}
}
static int hexv (int c)
{
	if (c >= '0' && c <= '9') return c - '0';
	if (c >= 'A' && c <= 'F') return c - 'A' + 10;
	if (c >= 'a' && c <= 'f') return c - 'a' + 10;
	return -1;
}
/* decode in place, returns length */
static long dec (char *s)
{
	char *w = s, *r = s;
	if (s[0] == '%' && s[1] == 0) { s[0] = 0; return 0; }
	while (*r)
	{
		if (*r == '%' && hexv (r[1]) >= 0 && hexv (r[2]) >= 0) { *w++ = (char) (hexv (r[1]) * 16 + hexv (r[2])); r += 3; }
		else *w++ = *r++;
	}
	*w = 0;
	return (long) (w - s);
}
static char *path_of (const char *f)
{
	static char buf[4][4096];
	static int k = 0;
	char *b = buf[k = (k + 1) % 4];
	if (f[0] == '/') snprintf (b, 4096, "%s", f);
	else snprintf (b, 4096, "%s/%s", SCR, f);
	return b;
}
static int hidx (const char *t)
{
	int h = atoi (t + (t[0] == 'h' ? 1 : 0));
	if (h < 0 || h >= NH) qsx_die ("bad handle");
	return h;
}

/* ---- log capture --------------------------------------------------------- */
#define MAXMSG 4000
static char *msgs[MAXMSG];
static int nmsgs = 0, capture = 0;
static void log_capture (const char *msg, void *data)
{
	(void) data;
	if (capture && nmsgs < MAXMSG) msgs[nmsgs++] = strdup (msg);
}
static void msgs_clear (void)
{
	int i;
	for (i = 0; i < nmsgs; i++) free (msgs[i]);
	nmsgs = 0;
}

/* ---- block loader with names / integer marks ------------------------------ */
/* kfirst < 0: all columns first, then the rows (LOAD).  kfirst >= 0 (LOADMIX): the first kfirst columns, then the
 * rows with their entries in those columns, then the remaining columns with their entries (mpq_QSadd_col): the
 * structural columns added last lie behind the logicals, structmap is not the identity. */
static mpq_QSdata *load_block (FILE * in, int kfirst)
{
	int ncols, nrows, i, j, rv = 0, anyint = 0;
	char *ints, **cname, **rname, *rsense;
	int *rk, **rind;
	mpq_t *cobj, *clo, *cup, *rrhs, *rrange, **rval;
	mpq_QSdata *p;
	if (!qsx_next (in) || qsx_ntok < 5 || strcmp (qsx_tok[0], "LP")) qsx_die ("LP header expected");
	ncols = atoi (qsx_tok[3]);
	nrows = atoi (qsx_tok[4]);
	dec (qsx_tok[1]);
	p = mpq_QScreate_prob (qsx_tok[1], strcmp (qsx_tok[2], "MAX") ? QS_MIN : QS_MAX);
	if (!p) return NULL;
	if (kfirst < 0 || kfirst > ncols) kfirst = ncols;
	ints = (char *) calloc (ncols + 1, 1);
	cname = (char **) calloc (ncols + 1, sizeof (char *));
	rname = (char **) calloc (nrows + 1, sizeof (char *));
	rsense = (char *) calloc (nrows + 1, 1);
	rk = (int *) calloc (nrows + 1, sizeof (int));
	rind = (int **) calloc (nrows + 1, sizeof (int *));
	rval = (mpq_t **) calloc (nrows + 1, sizeof (mpq_t *));
	cobj = mpq_EGlpNumAllocArray (ncols + 1); clo = mpq_EGlpNumAllocArray (ncols + 1); cup = mpq_EGlpNumAllocArray (ncols + 1);
	rrhs = mpq_EGlpNumAllocArray (nrows + 1); rrange = mpq_EGlpNumAllocArray (nrows + 1);
	for (i = 0; i < ncols; i++)
	{
		if (!qsx_next (in) || strcmp (qsx_tok[0], "COL") || qsx_ntok < 5) qsx_die ("COL expected");
		qsx_parse_q (qsx_tok[2], cobj[i]); qsx_parse_q (qsx_tok[3], clo[i]); qsx_parse_q (qsx_tok[4], cup[i]);
		if (qsx_ntok > 5 && atoi (qsx_tok[5])) { ints[i] = 1; anyint = 1; }
		if (strcmp (qsx_tok[1], "-")) { dec (qsx_tok[1]); cname[i] = strdup (qsx_tok[1]); }
	}
	for (i = 0; i < nrows; i++)
	{
		int k;
		if (!qsx_next (in) || strcmp (qsx_tok[0], "ROW") || qsx_ntok < 6) qsx_die ("ROW expected");
		rsense[i] = qsx_tok[2][0];
		qsx_parse_q (qsx_tok[3], rrhs[i]); qsx_parse_q (qsx_tok[4], rrange[i]);
		k = atoi (qsx_tok[5]);
		if (qsx_ntok < 6 + 2 * k) qsx_die ("ROW too short");
		rk[i] = k;
		rind[i] = (int *) malloc (sizeof (int) * (k + 1));
		rval[i] = mpq_EGlpNumAllocArray (k + 1);
		for (j = 0; j < k; j++)
		{
			rind[i][j] = atoi (qsx_tok[6 + 2 * j]);
			qsx_parse_q (qsx_tok[7 + 2 * j], rval[i][j]);
		}
		if (strcmp (qsx_tok[1], "-")) { dec (qsx_tok[1]); rname[i] = strdup (qsx_tok[1]); }
	}
	for (i = 0; i < kfirst && !rv; i++) rv = mpq_QSnew_col (p, cobj[i], clo[i], cup[i], cname[i]);
	for (i = 0; i < nrows && !rv; i++)
	{
		int k = 0, *ind = (int *) malloc (sizeof (int) * (rk[i] + 1));
		mpq_t *val = mpq_EGlpNumAllocArray (rk[i] + 1);
		for (j = 0; j < rk[i]; j++)
			if (rind[i][j] < kfirst) { ind[k] = rind[i][j]; mpq_set (val[k], rval[i][j]); k++; }
		if (rsense[i] == 'R') rv = mpq_QSadd_ranged_row (p, k, ind, val, &rrhs[i], 'R', &rrange[i], rname[i]);
		else rv = mpq_QSadd_row (p, k, ind, val, &rrhs[i], rsense[i], rname[i]);
		free (ind);
		mpq_EGlpNumFreeArray (val);
	}
	for (i = kfirst; i < ncols && !rv; i++)
	{
		int k = 0, r, *ind = (int *) malloc (sizeof (int) * (nrows + 1));
		mpq_t *val = mpq_EGlpNumAllocArray (nrows + 1);
		for (r = 0; r < nrows; r++)
			for (j = 0; j < rk[r]; j++)
				if (rind[r][j] == i) { ind[k] = r; mpq_set (val[k], rval[r][j]); k++; break; }
		rv = mpq_QSadd_col (p, k, ind, val, cobj[i], clo[i], cup[i], cname[i]);
		free (ind);
		mpq_EGlpNumFreeArray (val);
	}
	if (!rv && anyint)
	{
		/* no public setter exists: mark through the (installed-header) struct exactly as the readers do */
		mpq_ILLlpdata *q = p->qslp;
		if (!q->intmarker) q->intmarker = (char *) calloc (q->structsize + 1, 1);
		for (i = 0; i < ncols; i++) q->intmarker[i] = ints[i];
	}
	for (i = 0; i < ncols; i++) free (cname[i]);
	for (i = 0; i < nrows; i++) { free (rname[i]); free (rind[i]); mpq_EGlpNumFreeArray (rval[i]); }
	free (ints); free (cname); free (rname); free (rsense); free (rk); free (rind); free (rval);
	mpq_EGlpNumFreeArray (cobj); mpq_EGlpNumFreeArray (clo); mpq_EGlpNumFreeArray (cup);
	mpq_EGlpNumFreeArray (rrhs); mpq_EGlpNumFreeArray (rrange);
	if (rv) { mpq_QSfree_prob (p); return NULL; }
	return p;
}

/* ---- dump by names ------------------------------------------------------- */
typedef struct { const char *name; int idx; } nameidx;
static int cmp_ni (const void *a, const void *b)
{
	int c = strcmp (((const nameidx *) a)->name, ((const nameidx *) b)->name);
	if (c) return c;
	return ((const nameidx *) a)->idx - ((const nameidx *) b)->idx;
}
typedef struct { const char *name; int pos; } entidx;
static int cmp_ei (const void *a, const void *b)
{
	int c = strcmp (((const entidx *) a)->name, ((const entidx *) b)->name);
	if (c) return c;
	return ((const entidx *) a)->pos - ((const entidx *) b)->pos;
}

static int dump_names (FILE * o, mpq_QSdata * p, int sorted)
{
	int ncols = mpq_QSget_colcount (p), nrows = mpq_QSget_rowcount (p);
	int i, j, rv = 0, os = 0;
	int *rowcnt = 0, *rowbeg = 0, *rowind = 0, *intf = 0;
	mpq_t *rowval = 0, *rhs = 0, *range = 0, *obj = 0, *lo = 0, *up = 0;
	char *sense = 0, **rn = 0, **cn = 0, *pn;
	nameidx *co, *ro;
	rv = mpq_QSget_objsense (p, &os);
	if (rv) return rv;
	obj = mpq_EGlpNumAllocArray (ncols + 1);
	lo = mpq_EGlpNumAllocArray (ncols + 1);
	up = mpq_EGlpNumAllocArray (ncols + 1);
	intf = (int *) calloc (ncols + 1, sizeof (int));
	rn = (char **) calloc (nrows + 1, sizeof (char *));
	cn = (char **) calloc (ncols + 1, sizeof (char *));
	co = (nameidx *) calloc (ncols + 1, sizeof (nameidx));
	ro = (nameidx *) calloc (nrows + 1, sizeof (nameidx));
	if (ncols) rv = mpq_QSget_obj (p, obj);
	if (!rv && ncols) rv = mpq_QSget_bounds (p, lo, up);
	if (!rv && ncols) rv = mpq_QSget_intflags (p, intf);
	if (!rv && ncols) rv = mpq_QSget_colnames (p, cn);
	if (!rv && nrows) rv = mpq_QSget_rownames (p, rn);
	if (!rv) rv = mpq_QSget_ranged_rows (p, &rowcnt, &rowbeg, &rowind, &rowval, &rhs, &sense, &range, 0);
	if (rv) goto DONE;
	for (j = 0; j < ncols; j++) { co[j].name = cn[j] ? cn[j] : ""; co[j].idx = j; }
	for (i = 0; i < nrows; i++) { ro[i].name = rn[i] ? rn[i] : ""; ro[i].idx = i; }
	if (sorted) { qsort (co, ncols, sizeof (nameidx), cmp_ni); qsort (ro, nrows, sizeof (nameidx), cmp_ni); }
	pn = mpq_QSget_probname (p);
	fprintf (o, "P %s %d %d ", os == QS_MAX ? "MAX" : "MIN", ncols, nrows);
	if (pn) { put_enc (o, pn, -1); mpq_QSfree (pn); } else fputc ('-', o);
	/* what the writers use besides the query view: the stored objective name and whether intmarker is allocated */
	fputc (' ', o);
	if (p->qslp->objname) put_enc (o, p->qslp->objname, -1); else fputc ('-', o);
	fprintf (o, " %d\n", p->qslp->intmarker ? 1 : 0);
	for (j = 0; j < ncols; j++)
	{
		int c = co[j].idx;
		fputs ("C ", o); put_enc (o, co[j].name, -1); fputc (' ', o);
		qsx_print_q (o, obj[c]); fputc (' ', o);
		qsx_print_q (o, lo[c]); fputc (' ', o);
		qsx_print_q (o, up[c]);
		fprintf (o, " %d\n", intf[c] ? 1 : 0);
	}
	for (i = 0; i < nrows; i++)
	{
		int r = ro[i].idx, k = rowcnt[r];
		entidx *e = (entidx *) calloc (k + 1, sizeof (entidx));
		fputs ("R ", o); put_enc (o, ro[i].name, -1);
		fprintf (o, " %c ", sense[r]);
		qsx_print_q (o, rhs[r]); fputc (' ', o);
		qsx_print_q (o, range[r]);
		fprintf (o, " %d", k);
		for (j = 0; j < k; j++) { int cj = rowind[rowbeg[r] + j]; e[j].name = (cj >= 0 && cj < ncols && cn[cj]) ? cn[cj] : "?"; e[j].pos = rowbeg[r] + j; }
		if (sorted) qsort (e, k, sizeof (entidx), cmp_ei);
		for (j = 0; j < k; j++)
		{
			fputc (' ', o); put_enc (o, e[j].name, -1); fputc (' ', o);
			qsx_print_q (o, rowval[e[j].pos]);
		}
		fputc ('\n', o);
		free (e);
	}
DONE:
	for (i = 0; i < nrows; i++) if (rn && rn[i]) mpq_QSfree (rn[i]);
	for (j = 0; j < ncols; j++) if (cn && cn[j]) mpq_QSfree (cn[j]);
	free (rn); free (cn); free (intf); free (co); free (ro);
	mpq_EGlpNumFreeArray (obj); mpq_EGlpNumFreeArray (lo); mpq_EGlpNumFreeArray (up);
	mpq_EGlpNumFreeArray (rowval); mpq_EGlpNumFreeArray (rhs); mpq_EGlpNumFreeArray (range);
	if (rowcnt) mpq_QSfree (rowcnt);
	if (rowbeg) mpq_QSfree (rowbeg);
	if (rowind) mpq_QSfree (rowind);
	if (sense) mpq_QSfree (sense);
	return rv;
}

/* ---- dump by columns (storage order of the matrix, which is the order the MPS writer walks) ------------------------ */
static int dump_columns (FILE * o, mpq_QSdata * p)
{
	int ncols = mpq_QSget_colcount (p), nrows = mpq_QSget_rowcount (p);
	int j, k, rv = 0, os = 0;
	int *colcnt = 0, *colbeg = 0, *colind = 0, *intf = 0;
	mpq_t *colval = 0, *obj = 0, *lo = 0, *up = 0, *rhs = 0, *range = 0;
	char **cn = 0, **rn = 0, *sense = 0, *pn;
	rv = mpq_QSget_objsense (p, &os);
	if (rv) return rv;
	intf = (int *) calloc (ncols + 1, sizeof (int));
	rn = (char **) calloc (nrows + 1, sizeof (char *));
	sense = (char *) calloc (nrows + 1, 1);
	rhs = mpq_EGlpNumAllocArray (nrows + 1);
	range = mpq_EGlpNumAllocArray (nrows + 1);
	rv = mpq_QSget_columns (p, &colcnt, &colbeg, &colind, &colval, &obj, &lo, &up, &cn);
	if (!rv && ncols) rv = mpq_QSget_intflags (p, intf);
	if (!rv && nrows) rv = mpq_QSget_rownames (p, rn);
	if (!rv && nrows) rv = mpq_QSget_senses (p, sense);
	if (!rv && nrows) rv = mpq_QSget_rhs (p, rhs);
	if (rv) goto DONE;
	for (k = 0; k < nrows; k++)
	{
		if (p->qslp->rangeval) mpq_set (range[k], p->qslp->rangeval[k]); else mpq_set_ui (range[k], 0UL, 1UL);
	}
	pn = mpq_QSget_probname (p);
	fprintf (o, "PC %s %d %d ", os == QS_MAX ? "MAX" : "MIN", ncols, nrows);
	if (pn) { put_enc (o, pn, -1); mpq_QSfree (pn); } else fputc ('-', o);
	fputc (' ', o);
	if (p->qslp->objname) put_enc (o, p->qslp->objname, -1); else fputc ('-', o);
	fprintf (o, " %d %d\n", p->qslp->intmarker ? 1 : 0, p->qslp->rangeval ? 1 : 0);
	for (j = 0; j < ncols; j++)
	{
		fputs ("CC ", o); put_enc (o, cn[j] ? cn[j] : "", -1); fputc (' ', o);
		qsx_print_q (o, obj[j]); fputc (' ', o);
		qsx_print_q (o, lo[j]); fputc (' ', o);
		qsx_print_q (o, up[j]);
		fprintf (o, " %d %d", intf[j] ? 1 : 0, colcnt[j]);
		for (k = colbeg[j]; k < colbeg[j] + colcnt[j]; k++)
		{
			int r = colind[k];
			fputc (' ', o); put_enc (o, (r >= 0 && r < nrows && rn[r]) ? rn[r] : "?", -1); fputc (' ', o);
			qsx_print_q (o, colval[k]);
		}
		fputc ('\n', o);
	}
	for (k = 0; k < nrows; k++)
	{
		fputs ("RR ", o); put_enc (o, rn[k] ? rn[k] : "", -1);
		fprintf (o, " %c ", sense[k]);
		qsx_print_q (o, rhs[k]); fputc (' ', o);
		qsx_print_q (o, range[k]); fputc ('\n', o);
	}
DONE:
	for (k = 0; k < nrows; k++) if (rn && rn[k]) mpq_QSfree (rn[k]);
	for (j = 0; j < ncols; j++) if (cn && cn[j]) mpq_QSfree (cn[j]);
	free (rn); if (cn) mpq_QSfree (cn); free (intf); free (sense);
	mpq_EGlpNumFreeArray (colval); mpq_EGlpNumFreeArray (obj); mpq_EGlpNumFreeArray (lo); mpq_EGlpNumFreeArray (up);
	mpq_EGlpNumFreeArray (rhs); mpq_EGlpNumFreeArray (range);
	if (colcnt) mpq_QSfree (colcnt);
	if (colbeg) mpq_QSfree (colbeg);
	if (colind) mpq_QSfree (colind);
	return rv;
}

/* ---- reading with an error memory ----------------------------------------- */
static mpq_QSdata *read_collect (const char *path, const char *type, int *nerr, int *nwarn, int print)
{
	mpq_QSdata *p = NULL;
	EGioFile_t *f = EGioOpen (path, "r");
	mpq_QSline_reader rd;
	mpq_QSerror_memory mem;
	mpq_QSerror_collector col;
	mpq_QSformat_error e;
	*nerr = *nwarn = 0;
	if (!f) { *nerr = -1; return NULL; }
	rd = mpq_QSline_reader_new ((void *) EGioGets, f);
	mem = mpq_QSerror_memory_create (0);
	col = mpq_QSerror_memory_collector_new (mem);
	mpq_QSline_reader_set_error_collector (rd, col);
	p = mpq_QSget_prob (rd, path, type);
	for (e = mpq_QSerror_memory_get_last_error (mem); e; e = mpq_QSerror_memory_get_prev_error (e))
	{
		int t = mpq_QSerror_get_type (e);
		if (t == QS_DATA_WARN || t == QS_MPS_FORMAT_WARN || t == QS_LP_FORMAT_WARN) (*nwarn)++;
		else (*nerr)++;
	}
	if (print == 1) printf ("READ %s %d %d\n", p ? "OK" : "FAIL", *nerr, *nwarn);
	if (print)
		for (e = mpq_QSerror_memory_get_last_error (mem); e; e = mpq_QSerror_memory_get_prev_error (e))
		{
			const char *d = mpq_QSerror_get_desc (e);
			printf ("E %d %d ", mpq_QSerror_get_type (e), mpq_QSerror_get_line_number (e));
			put_enc (stdout, d ? d : "", -1);
			putchar ('\n');
		}
	mpq_QSline_reader_free (rd);
	mpq_QSerror_collector_free (col);
	mpq_QSerror_memory_free (mem);
	EGioClose (f);
	return p;
}

/* ---- forked execution ----------------------------------------------------- */
/* runs fn(arg) in a child with stderr captured; the child prints its own result line.
 * returns 0 if the child exited 0, else prints "<tag> CRASH <how> <first report line>" or "<tag> TIMEOUT". */
static int in_child (const char *tag, void (*fn) (void *), void *arg, int secs)
{
	char errf[4096];
	pid_t pid;
	int st = 0;
	snprintf (errf, sizeof errf, "%s/.child_stderr_%d", SCR, (int) getpid ());
	fflush (stdout);
	pid = fork ();
	if (pid < 0) qsx_die ("fork failed");
	if (pid == 0)
	{
		int fd = open (errf, O_WRONLY | O_CREAT | O_TRUNC, 0600);
		if (fd >= 0) { dup2 (fd, 2); close (fd); }
		signal (SIGALRM, SIG_DFL);
		alarm (secs);
		fn (arg);
		fflush (stdout);
		_exit (0);
	}
	while (waitpid (pid, &st, 0) < 0 && errno == EINTR) ;
	if (WIFEXITED (st) && WEXITSTATUS (st) == 0) { unlink (errf); return 0; }
	if (WIFSIGNALED (st) && WTERMSIG (st) == SIGALRM) { printf ("%s TIMEOUT\n", tag); unlink (errf); return 1; }
	{
		char line[600], first[600], frames[2600];
		int nfr = 0;
		FILE *e = fopen (errf, "r");
		first[0] = 0; frames[0] = 0;
		if (e)
		{
			while (fgets (line, sizeof line, e))
			{
				char *in_;
				if (!first[0] && (strstr (line, "ERROR: AddressSanitizer") || strstr (line, "runtime error")))
					snprintf (first, sizeof first, "%s", line);
				else if (first[0] && strlen (first) < 400 && (!strncmp (line, "WRITE of size", 13) || !strncmp (line, "READ of size", 12)))
				{
					size_t l = strlen (first);
					snprintf (first + l, sizeof first - l, "%.60s", line);
				}
				/* "    #1 0x... in func file:line" : keep the first few function names of the first stack */
				if (nfr < 18 && line[0] == ' ' && strstr (line, " #") && (in_ = strstr (line, " in ")))
				{
					char fn[120];
					if (sscanf (in_ + 4, "%119s", fn) == 1)
					{
						size_t l = strlen (frames);
						snprintf (frames + l, sizeof frames - l, "%s%s", nfr ? "<" : "", fn);
						nfr++;
					}
				}
				if (nfr && line[0] == '\n') nfr = 99;	/* end of first stack */
			}
			fclose (e);
		}
		unlink (errf);
		if (WIFSIGNALED (st)) printf ("%s CRASH sig%d ", tag, WTERMSIG (st));
		else printf ("%s CRASH exit%d ", tag, WEXITSTATUS (st));
		put_enc (stdout, first, -1);
		putchar (' ');
		put_enc (stdout, frames, -1);
		putchar ('\n');
	}
	return 1;
}

static void do_num (void *arg)
{
	char *s = (char *) arg;
	mpq_t v;
	int n;
	mpq_init (v);
	n = mpq_EGlpNumReadStrXc (v, s);
	printf ("NUM %d ", n);
	if (n) mpq_out_str (stdout, 10, v); else putchar ('-');
	putchar ('\n');
	mpq_clear (v);
}
static void do_getval (void *arg)
{
	char *s = (char *) arg;
	mpq_t v;
	int n;
	mpq_init (v);
	n = mpq_ILLget_value (s, &v);
	printf ("GETVAL %d ", n);
	mpq_out_str (stdout, 10, v);
	putchar ('\n');
	mpq_clear (v);
}

typedef struct { const char *path, *type; int nosolve; } tryarg;
static void do_tryread (void *arg)
{
	tryarg *a = (tryarg *) arg;
	int nerr, nwarn;
	mpq_QSdata *p = read_collect (a->path, a->type, &nerr, &nwarn, 0);
	if (!p) { printf ("TRYREAD FAIL %d\n", nerr); return; }
	{
		int n = mpq_QSget_colcount (p), m = mpq_QSget_rowcount (p), w1, w2, rv, st = -1;
		mpq_t *x = mpq_EGlpNumAllocArray (n + m + 1), *y = mpq_EGlpNumAllocArray (m + 1);
		w1 = mpq_QSwrite_prob (p, "/dev/null", "LP");
		w2 = mpq_QSwrite_prob (p, "/dev/null", "MPS");
		rv = a->nosolve ? 0 : QSexact_solver (p, x, y, NULL, DUAL_SIMPLEX, &st);
		mpq_EGlpNumFreeArray (x); mpq_EGlpNumFreeArray (y);
		mpq_QSfree_prob (p);
		printf ("TRYREAD PROB %d %d %d w%d%d s%d:%d\n", nerr, n, m, w1 ? 1 : 0, w2 ? 1 : 0, rv ? 1 : 0, st);
	}
}
typedef struct { mpq_QSdata *p; const char *path; } basarg;
static void do_trybasis (void *arg)
{
	basarg *a = (basarg *) arg;
	QSbasis *B = mpq_QSread_basis (a->p, a->path);
	int rv;
	fputs ("TRYBASIS ", stdout);
	if (B) { fputs ("OK", stdout); qsx_print_basis (stdout, B); mpq_QSfree_basis (B); }
	else fputs ("FAIL", stdout);
	rv = mpq_QSread_and_load_basis (a->p, a->path);
	printf (" load=%d\n", rv ? 1 : 0);
}

static QSbasis *mk_basis (const char *cs, const char *rs)
{
	QSbasis *B = (QSbasis *) calloc (1, sizeof (QSbasis));
	int n = strcmp (cs, "-") ? (int) strlen (cs) : 0, m = strcmp (rs, "-") ? (int) strlen (rs) : 0;
	B->nstruct = n; B->nrows = m;
	B->cstat = (char *) malloc (n + 1); B->rstat = (char *) malloc (m + 1);
	memcpy (B->cstat, n ? cs : "", n); memcpy (B->rstat, m ? rs : "", m);
	B->cstat[n] = 0; B->rstat[m] = 0;
	return B;
}
static void free_basis (QSbasis * B)
{
	if (!B) return;
	free (B->cstat); free (B->rstat); free (B);
}

int main (int argc, char **argv)
{
	FILE *in = stdin;
	if (argc > 1) SCR = argv[1];
	mkdir (SCR, 0700);
	QSexactStart ();
	QSlog_set_handler (log_capture, NULL);
	printf ("M "); mpq_out_str (stdout, 10, mpq_ILL_MAXDOUBLE); putchar ('\n');
	while (qsx_next (in))
	{
		const char *op = qsx_tok[0];
		if (!strcmp (op, "CASE")) { printf ("CASE %s\n", qsx_ntok > 1 ? qsx_tok[1] : "?"); fflush (stdout); }
		else if (!strcmp (op, "NUM") || !strcmp (op, "NUMF"))
		{
			if (qsx_ntok < 2) qsx_die ("NUM arity");
			dec (qsx_tok[1]);
			if (op[3] == 'F') in_child ("NUM", do_num, qsx_tok[1], 10);
			else do_num (qsx_tok[1]);
		}
		else if (!strcmp (op, "GETVAL"))
		{
			dec (qsx_tok[1]);
			in_child ("GETVAL", do_getval, qsx_tok[1], 10);
		}
		else if (!strcmp (op, "PRINTNUM"))
		{
			mpq_t v;
			char *s;
			mpq_init (v);
			qsx_parse_q (qsx_tok[1], v);
			s = mpq_EGlpNumGetStr (v);
			fputs ("PRINTNUM ", stdout); put_enc (stdout, s, -1); putchar ('\n');
			EGfree (s);
			mpq_clear (v);
		}
		else if (!strcmp (op, "LOAD"))
		{
			int h = hidx (qsx_tok[1]);
			if (H[h]) mpq_QSfree_prob (H[h]);
			H[h] = load_block (in, -1);
			printf ("LOAD %s\n", H[h] ? "OK" : "ERR");
		}
		else if (!strcmp (op, "LOADMIX"))
		{
			/* LOADMIX <h> <kfirst>: as LOAD, but the rows are added after the first kfirst columns */
			int h = hidx (qsx_tok[1]);
			if (H[h]) mpq_QSfree_prob (H[h]);
			H[h] = load_block (in, qsx_ntok > 2 ? atoi (qsx_tok[2]) : 0);
			printf ("LOAD %s\n", H[h] ? "OK" : "ERR");
		}
		else if (!strcmp (op, "PUT"))
		{
			FILE *f = fopen (path_of (qsx_tok[1]), "wb");
			long n = qsx_ntok > 2 ? dec (qsx_tok[2]) : 0;
			if (!f) qsx_die ("PUT: cannot open");
			if (n) fwrite (qsx_tok[2], 1, n, f);
			fclose (f);
			printf ("PUT %ld\n", n);
		}
		else if (!strcmp (op, "CAT"))
		{
			EGioFile_t *f = EGioOpen (path_of (qsx_tok[1]), "r");
			static char buf[1 << 18];
			if (!f) printf ("CAT -1\n");
			else
			{
				printf ("CAT 0\n");
				while (EGioGets (buf, sizeof buf, f)) { fputs ("L ", stdout); put_enc (stdout, buf, -1); putchar ('\n'); }
				EGioClose (f);
			}
		}
		else if (!strcmp (op, "TRYREAD"))
		{
			tryarg a;
			/* TRYREAD file fmt [secs [nosolve]] : nosolve skips the solver (used to tell a slow solve from a reader that hangs) */
			a.path = path_of (qsx_tok[1]); a.type = qsx_tok[2]; a.nosolve = (qsx_ntok > 4 && !strcmp (qsx_tok[4], "nosolve"));
			in_child ("TRYREAD", do_tryread, &a, qsx_ntok > 3 ? atoi (qsx_tok[3]) : 10);
		}
		else if (!strcmp (op, "READ") || !strcmp (op, "READP"))
		{
			int h = hidx (qsx_tok[1]), nerr, nwarn;
			if (H[h]) mpq_QSfree_prob (H[h]);
			if (op[4] == 'P')
			{
				H[h] = mpq_QSread_prob (path_of (qsx_tok[2]), qsx_tok[3]);
				printf ("READP %s\n", H[h] ? "OK" : "FAIL");
			}
			else H[h] = read_collect (path_of (qsx_tok[2]), qsx_tok[3], &nerr, &nwarn, 1);
		}
		else
		{
			int h = qsx_ntok > 1 ? hidx (qsx_tok[1]) : 0;
			mpq_QSdata *P = H[h];
			if (!P) { printf ("NOPROB %s\n", op); continue; }
			if (!strcmp (op, "WRITE"))
			{
				int rv, i;
				msgs_clear (); capture = 1;
				rv = mpq_QSwrite_prob (P, path_of (qsx_tok[2]), qsx_tok[3]);
				capture = 0;
				printf ("WRITE %d %d\n", rv, nmsgs);
				for (i = 0; i < nmsgs; i++) { fputs ("W ", stdout); put_enc (stdout, msgs[i], -1); putchar ('\n'); }
				msgs_clear ();
			}
			else if (!strcmp (op, "EDIT"))
			{
				/* EDIT h <kind> args: one edit through the public API (the problem written afterwards is the edited one)
				   chgsense i S | chgrange i v | chgrhs i v | chgbnd j L|U|B v | chgobj j v | chgcoef i j v |
				   delrow i | delcol j | objsense MIN|MAX */
				const char *k = qsx_tok[2];
				int rv = -1;
				mpq_t v;
				mpq_init (v);
				if (!strcmp (k, "chgsense")) rv = mpq_QSchange_sense (P, atoi (qsx_tok[3]), qsx_tok[4][0]);
				else if (!strcmp (k, "chgrange")) { qsx_parse_q (qsx_tok[4], v); rv = mpq_QSchange_range (P, atoi (qsx_tok[3]), v); }
				else if (!strcmp (k, "chgrhs")) { qsx_parse_q (qsx_tok[4], v); rv = mpq_QSchange_rhscoef (P, atoi (qsx_tok[3]), v); }
				else if (!strcmp (k, "chgbnd")) { qsx_parse_q (qsx_tok[5], v); rv = mpq_QSchange_bound (P, atoi (qsx_tok[3]), qsx_tok[4][0], v); }
				else if (!strcmp (k, "chgobj")) { qsx_parse_q (qsx_tok[4], v); rv = mpq_QSchange_objcoef (P, atoi (qsx_tok[3]), v); }
				else if (!strcmp (k, "chgcoef")) { qsx_parse_q (qsx_tok[5], v); rv = mpq_QSchange_coef (P, atoi (qsx_tok[3]), atoi (qsx_tok[4]), v); }
				else if (!strcmp (k, "delrow")) rv = mpq_QSdelete_row (P, atoi (qsx_tok[3]));
				else if (!strcmp (k, "delcol")) rv = mpq_QSdelete_col (P, atoi (qsx_tok[3]));
				else if (!strcmp (k, "objsense")) rv = mpq_QSchange_objsense (P, !strcmp (qsx_tok[3], "MAX") ? QS_MAX : QS_MIN);
				mpq_clear (v);
				printf ("EDIT %d\n", rv);
			}
			else if (!strcmp (op, "DUMP") || !strcmp (op, "DUMPO"))
			{
				if (dump_names (stdout, P, op[4] != 'O')) printf ("P ERR\n");
			}
			else if (!strcmp (op, "DUMPC"))
			{
				if (dump_columns (stdout, P)) printf ("PC ERR\n");
			}
			else if (!strcmp (op, "TRYBASIS"))
			{
				basarg a;
				a.p = P; a.path = path_of (qsx_tok[2]);
				in_child ("TRYBASIS", do_trybasis, &a, 10);
			}
			else if (!strcmp (op, "SOLVE"))
			{
				int n = mpq_QSget_colcount (P), m = mpq_QSget_rowcount (P), rv, st = -1, r2;
				mpq_t *x = mpq_EGlpNumAllocArray (n + m + 1), *y = mpq_EGlpNumAllocArray (m + 1), v;
				mpq_init (v);
				rv = QSexact_solver (P, x, y, NULL, DUAL_SIMPLEX, &st);
				printf ("SOLVE %d %d ", rv, st);
				r2 = (rv == 0 && st == QS_LP_OPTIMAL) ? mpq_QSget_objval (P, &v) : 1;
				if (!r2) qsx_print_q (stdout, v); else putchar ('-');
				putchar ('\n');
				fputs ("X", stdout); if (!rv && st == QS_LP_OPTIMAL) qsx_print_qarr (stdout, x, n); putchar ('\n');
				fputs ("PI", stdout); if (!rv && (st == QS_LP_OPTIMAL || st == QS_LP_INFEASIBLE)) qsx_print_qarr (stdout, y, m); putchar ('\n');
				mpq_clear (v);
				mpq_EGlpNumFreeArray (x); mpq_EGlpNumFreeArray (y);
			}
			else if (!strcmp (op, "OPT"))
			{
				int rv, st = -1;
				mpq_t v;
				mpq_init (v);
				rv = qsx_tok[2][0] == 'D' ? mpq_QSopt_dual (P, &st) : mpq_QSopt_primal (P, &st);
				printf ("OPT %d %d ", rv, st);
				if (!rv && st == QS_LP_OPTIMAL && !mpq_QSget_objval (P, &v)) qsx_print_q (stdout, v); else putchar ('-');
				putchar ('\n');
				mpq_clear (v);
			}
			else if (!strcmp (op, "GETBASIS"))
			{
				QSbasis *B = mpq_QSget_basis (P);
				fputs ("BASIS", stdout); qsx_print_basis (stdout, B); putchar ('\n');
				if (B) mpq_QSfree_basis (B);
			}
			else if (!strcmp (op, "LOADBASIS"))
			{
				int n = mpq_QSget_colcount (P), m = mpq_QSget_rowcount (P);
				if ((int) strlen (qsx_tok[2]) != n || (int) strlen (qsx_tok[3]) != m) printf ("LOADBASIS SKIP\n");
				else printf ("LOADBASIS %d\n", mpq_QSload_basis_array (P, qsx_tok[2], qsx_tok[3]));
			}
			else if (!strcmp (op, "WRITEBASIS"))
			{
				int rv;
				if (!strcmp (qsx_tok[3], "OWN")) rv = mpq_QSwrite_basis (P, NULL, path_of (qsx_tok[2]));
				else
				{
					QSbasis *B = mk_basis (qsx_tok[3], qsx_tok[4]);
					rv = mpq_QSwrite_basis (P, B, path_of (qsx_tok[2]));
					free_basis (B);
				}
				printf ("WRITEBASIS %d\n", rv);
			}
			else if (!strcmp (op, "READBASIS"))
			{
				QSbasis *B = mpq_QSread_basis (P, path_of (qsx_tok[2]));
				if (B) { fputs ("READBASIS OK", stdout); qsx_print_basis (stdout, B); putchar ('\n'); mpq_QSfree_basis (B); }
				else printf ("READBASIS FAIL\n");
			}
			else if (!strcmp (op, "READLOADBASIS"))
			{
				printf ("READLOADBASIS %d\n", mpq_QSread_and_load_basis (P, path_of (qsx_tok[2])));
			}
			else if (!strcmp (op, "BOPT"))
			{
				QSbasis *B = mk_basis (qsx_tok[2], qsx_tok[3]);
				char res = 0;
				int rv = QSexact_basis_optimalstatus (P, B, &res, 0);
				printf ("BOPT %d %d\n", rv, (int) res);
				free_basis (B);
			}
			else if (!strcmp (op, "PRINTSOL"))
			{
				EGioFile_t *f = EGioOpen (path_of (qsx_tok[2]), "w");
				int rv = f ? QSexact_print_sol (P, f) : -1;
				if (f) EGioClose (f);
				printf ("PRINTSOL %d\n", rv);
			}
			else if (!strcmp (op, "SOLUTION"))
			{
				int n = mpq_QSget_colcount (P), m = mpq_QSget_rowcount (P), rv, st = -1, r2;
				mpq_t v, *x = mpq_EGlpNumAllocArray (n + 1), *pi = mpq_EGlpNumAllocArray (m + 1),
					*rc = mpq_EGlpNumAllocArray (n + 1), *sl = mpq_EGlpNumAllocArray (m + 1);
				mpq_init (v);
				rv = mpq_QSget_status (P, &st);
				r2 = mpq_QSget_objval (P, &v);
				printf ("SOLUTION %d %d ", rv, st);
				if (!r2) qsx_print_q (stdout, v); else putchar ('-');
				putchar ('\n');
				rv = mpq_QSget_x_array (P, x);
				printf ("SX %d", rv); if (!rv) qsx_print_qarr (stdout, x, n); putchar ('\n');
				rv = mpq_QSget_rc_array (P, rc);
				printf ("SRC %d", rv); if (!rv) qsx_print_qarr (stdout, rc, n); putchar ('\n');
				rv = mpq_QSget_pi_array (P, pi);
				printf ("SPI %d", rv); if (!rv) qsx_print_qarr (stdout, pi, m); putchar ('\n');
				rv = mpq_QSget_slack_array (P, sl);
				printf ("SSLACK %d", rv); if (!rv) qsx_print_qarr (stdout, sl, m); putchar ('\n');
				mpq_clear (v);
				mpq_EGlpNumFreeArray (x); mpq_EGlpNumFreeArray (pi); mpq_EGlpNumFreeArray (rc); mpq_EGlpNumFreeArray (sl);
			}
			else if (!strcmp (op, "DUMPILP"))
			{
				qsx_dump_ilp (stdout, P);
			}
			else if (!strcmp (op, "FREE"))
			{
				mpq_QSfree_prob (P);
				H[h] = NULL;
				printf ("FREE\n");
			}
			else printf ("UNKNOWN %s\n", op);
		}
	}
	return 0;
}
