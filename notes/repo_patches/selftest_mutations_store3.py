#!/usr/bin/env python3
"""Seeded mutations (round 3, agent store3): the matrix built by the readers (rawlp.c buildMatrix, presolve.c ILLlp_add_logicals),
the repaired matrix_addrow, and the range-check guards of lib.c / qsopt.c (generated guard lemmas of C07).
Each mutation is applied to a scratch copy of /repo (QSX_REPO), the library is rebuilt and `./check <id> quick` is run; the check must
exit non-zero.  Usage: selftest_mutations_store3.py [name ...]   (results: selftest_store3_results.json next to this file)"""
import os, subprocess, shutil, sys, json
W = os.path.dirname(os.path.dirname(os.path.dirname(os.path.abspath(__file__))))
MUTS = [
 ("C06", "buildMatrix-duplicate-overwrites-instead-of-adding", "qsopt_ex/rawlp.c",
  "						EGLPNUM_TYPENAME_EGlpNumAddTo (A->matval[coefSet[ri]], cp->coef);",
  "						EGLPNUM_TYPENAME_EGlpNumCopy (A->matval[coefSet[ri]], cp->coef);"),
 ("C06", "buildMatrix-empty-column-dummy-not-written", "qsopt_ex/rawlp.c",
  "			A->matind[k] = 1;					/* Used in addcols and addrows */",
  "			A->matind[k] = -1;					/* Used in addcols and addrows */"),
 ("C06", "add_logicals-surplus-sign", "qsopt_ex/presolve.c",
  "			EGLPNUM_TYPENAME_EGlpNumCopy (lp->upper[ncols], EGLPNUM_TYPENAME_ILL_MAXDOUBLE);\n			EGLPNUM_TYPENAME_EGlpNumOne (A->matval[aindex]);\n			EGLPNUM_TYPENAME_EGlpNumSign (A->matval[aindex]);\n			break;\n		case 'L':",
  "			EGLPNUM_TYPENAME_EGlpNumCopy (lp->upper[ncols], EGLPNUM_TYPENAME_ILL_MAXDOUBLE);\n			EGLPNUM_TYPENAME_EGlpNumOne (A->matval[aindex]);\n			break;\n		case 'L':"),
 ("C06", "buildMatrix-nzcount-counts-duplicates", "qsopt_ex/rawlp.c",
  "		A->matcnt[ci] = k;\n		A->matbeg[ci] = lp->nzcount + nempty;	/* mark empty cols */\n		lp->nzcount += k;",
  "		A->matcnt[ci] = k;\n		A->matbeg[ci] = lp->nzcount + nempty;	/* mark empty cols */\n		lp->nzcount += k + coefWarn[ci];"),
 ("C06", "addrow-fallback-passes-all-entries-again", "qsopt_ex/lib.c",
  "				rval = matrix_addrow_end (A, A->matrows, rowcnt - i, rowind + i,\n																	rowval + i);",
  "				rval = matrix_addrow_end (A, A->matrows, rowcnt, rowind,\n																	rowval);"),
 ("C07", "chgbnd-guard-gt-instead-of-ge", "qsopt_ex/lib.c",
  "	if (indx < 0 || indx >= lp->O->nstruct)\n	{\n		QSlog(\"EGLPNUM_TYPENAME_ILLlib_chgbnd called with bad indx: %d\", indx);",
  "	if (indx < 0 || indx > lp->O->nstruct)\n	{\n		QSlog(\"EGLPNUM_TYPENAME_ILLlib_chgbnd called with bad indx: %d\", indx);"),
 ("C07", "chgobj-guard-ncols-instead-of-nstruct", "qsopt_ex/lib.c", None, None),   # filled in below from the source (see GUARD_MUT)
]
only = sys.argv[1:]
res = []
os.makedirs("/tmp/store3/mut", exist_ok=True)
for pid, name, f, old, new in MUTS:
    if only and name not in only:
        continue
    d = "/tmp/store3/mut/repo"
    shutil.rmtree(d, ignore_errors=True)
    subprocess.run(["rsync", "-a", "--exclude", ".git", "--exclude", "*.o", "--exclude", "*.lo", "--exclude", ".libs", "/repo/", d + "/"], check=True)
    if name.startswith("addrow-fallback") and "rowcnt - i, rowind + i" not in open(os.path.join(d, f)).read():
        # this mutation is one of the repaired loop: apply the repair first (it is in /repo since ac51791)
        subprocess.run(["patch", "-p1", "-s", "-d", d, "-i", os.path.join(W, "notes/repo_patches/matrix_addrow_repeated_column.diff")], check=False)
    p = os.path.join(d, f)
    s = open(p).read()
    if old is None:
        import re
        old = "		QSlog(\"EGLPNUM_TYPENAME_ILLlib_chgobj called without an lp\");\n		rval = 1;\n		ILL_CLEANUP;\n	}\n\n	if (indx < 0 || indx >= lp->O->nstruct)"
        new = old.replace("indx >= lp->O->nstruct", "indx >= lp->O->ncols")
    if s.count(old) != 1:
        res.append((pid, name, "MUTATION-DOES-NOT-APPLY (%d matches)" % s.count(old)))
        print(res[-1], flush=True)
        continue
    open(p, "w").write(s.replace(old, new, 1))
    env = dict(os.environ, QSX_REPO=d, QSX_CACHE="/var/tmp/qsx-cache-store3-m", VERIF_SEED="1", QSX_OUT="/tmp/store3/mut/out", QSX_EVIDENCE="/tmp/store3/mut/evidence")
    r = subprocess.run(["timeout", "1800", "./check", pid, "quick"], cwd=W, env=env, stdout=subprocess.PIPE, stderr=subprocess.STDOUT, text=True)
    viol = [l[:300] for l in r.stdout.splitlines() if l.startswith("VIOLATION")]
    res.append((pid, name, "exit=%d" % r.returncode, "violations=%d" % len(viol), viol[:2]))
    print(res[-1], flush=True)
old_res = []
out = os.path.join(os.path.dirname(os.path.abspath(__file__)), "selftest_store3_results.json")
if only and os.path.exists(out):
    old_res = [x for x in json.load(open(out)) if x[1] not in [r[1] for r in res]]
json.dump(old_res + res, open(out, "w"), indent=1)
