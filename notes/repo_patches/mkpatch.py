#!/usr/bin/env python3
"""Generate notes/repo_patches/<name>.diff, each independently against /repo's working tree.
EDITS: name -> list of (file, old, new)."""
import subprocess, os, sys, shutil, tempfile
REPO = os.environ.get("PATCH_BASE", "/repo")
OUT = os.path.dirname(os.path.abspath(__file__))
EDITS = {}
exec(open(os.path.join(OUT, "edits.py")).read())
def apply(names, dest):
    """copy touched files of REPO into dest and apply the edits of all names"""
    done = {}
    for n in names:
        for (f, old, new) in EDITS[n]:
            p = os.path.join(dest, f)
            if f not in done:
                os.makedirs(os.path.dirname(p), exist_ok=True)
                shutil.copy(os.path.join(REPO, f), p)
                done[f] = 1
            s = open(p).read()
            assert s.count(old) == 1, (n, f, s.count(old), old[:60])
            open(p, "w").write(s.replace(old, new))
    return list(done)
if __name__ == "__main__":
    if len(sys.argv) > 1 and sys.argv[1] == "apply":      # apply <dest-repo-copy> name...
        dest = sys.argv[2]
        names = sys.argv[3:] or list(EDITS)
        done = {}
        for n in names:
            for (f, old, new) in EDITS[n]:
                p = os.path.join(dest, f)
                s = open(p).read()
                assert s.count(old) == 1, (n, f, s.count(old), old[:60])
                open(p, "w").write(s.replace(old, new))
        print("applied", names)
    else:
        for n in EDITS:
            d = tempfile.mkdtemp()
            try:
                files = apply([n], d)
            except AssertionError as e:
                print(n, "DOES NOT APPLY to", REPO, "(fixed centrally or context changed):", str(e)[:120])
                shutil.rmtree(d)
                continue
            out = ""
            for f in files:
                r = subprocess.run(["diff", "-u", "--label", "a/" + f, "--label", "b/" + f, os.path.join(REPO, f), os.path.join(d, f)], stdout=subprocess.PIPE, text=True)
                out += r.stdout
            open(os.path.join(OUT, n + ".diff"), "w").write(out)
            shutil.rmtree(d)
            print(n, len(out.splitlines()), "lines")
