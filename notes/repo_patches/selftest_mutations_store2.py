#!/usr/bin/env python3
"""Seeded mutations of the free-space bookkeeping of the column store (round 2, agent store2).
Each mutation is applied to a scratch copy of /repo (QSX_REPO), the library is rebuilt and `./check C06 quick` is run;
the check must exit non-zero with a `rawstore` (or dump) violation.  Usage: selftest_mutations_store2.py [name ...]"""
import os, subprocess, shutil, sys, json
W = os.path.dirname(os.path.dirname(os.path.dirname(os.path.abspath(__file__))))
MUTS = [
 ("C06", "addcoef-relocation-matfree-off-by-one", "qsopt_ex/lib.c",
  "		A->matbeg[col] = memo;\n		(A->matcnt[col])++;\n		(A->matfree) -= (A->matcnt[col] + 1);",
  "		A->matbeg[col] = memo;\n		(A->matcnt[col])++;\n		(A->matfree) -= (A->matcnt[col]);"),
 ("C06", "addcol-empty-column-slot-not-accounted", "qsopt_ex/lib.c",
  "		A->matind[ind] = 1;					/* Dummy value to stop columns from stealing */\n		/* this space in addrows.                    */\n		A->matfree -= 1;",
  "		A->matind[ind] = 1;					/* Dummy value to stop columns from stealing */\n		/* this space in addrows.                    */\n"),
 ("C06", "addrow-inplace-at-end-keeps-matfree", "qsopt_ex/lib.c",
  "				if ((A->matbeg[j] + A->matcnt[j]) == (A->matsize - A->matfree))\n				{\n					A->matfree--;					/* at end of used space */\n				}",
  "				if ((A->matbeg[j] + A->matcnt[j]) == (A->matsize - A->matfree - 1))\n				{\n					A->matfree--;					/* at end of used space */\n				}"),
 ("C06", "addcoef-relocation-no-gap", "qsopt_ex/lib.c",
  "		/* Enough space to move column to end of array */\n		ind = A->matsize - A->matfree + 1;",
  "		/* Enough space to move column to end of array */\n		ind = A->matsize - A->matfree;"),
 ("C06", "addrow_end-dummy-not-written", "qsopt_ex/lib.c",
  "		else\n		{\n			newind[newbeg[j]] = 1;\n		}",
  "		else\n		{\n			newind[newbeg[j]] = -1;\n		}"),
 ("C06", "delrows-freed-tail-not-marked", "qsopt_ex/lib.c",
  "		for (; spot < beg[i] + cnt[i]; spot++)\n		{\n			ind[spot] = -1;\n		}",
  "		for (; spot < beg[i] + cnt[i] - 1; spot++)\n		{\n			ind[spot] = -1;\n		}"),
 ("C05", "addrows-badfactor-keeps-factorok", "qsopt_ex/lib.c",
  "	if (factorok != 0 && badfactor == 1)\n	{\n		*factorok = 0;\n	}",
  "	if (factorok != 0 && badfactor == 2)\n	{\n		*factorok = 0;\n	}"),
 ("C05", "addrows-no-norms-keeps-factorok", "qsopt_ex/lib.c",
  "	if (B == 0 || B->rownorms == 0)\n	{\n		if (factorok)\n			*factorok = 0;\n	}",
  "	if (B == 0)\n	{\n		if (factorok)\n			*factorok = 0;\n	}"),
 ("C05", "chgcoef-keeps-rownorms", "qsopt_ex/qsopt.c",
  "	p->factorok = 0;	/* the basis matrix may have changed */\n	if (p->basis)\n	{		/* edge norms of the stored basis belong to the old basis matrix */\n		EGLPNUM_TYPENAME_EGlpNumFreeArray (p->basis->rownorms);",
  "	p->factorok = 0;	/* the basis matrix may have changed */\n	if (p->basis)\n	{		/* edge norms of the stored basis belong to the old basis matrix */\n"),
]
only = sys.argv[1:]
res = []
os.makedirs("/tmp/store2/mut", exist_ok=True)
for pid, name, f, old, new in MUTS:
    if only and name not in only:
        continue
    d = "/tmp/store2/mut/repo"
    shutil.rmtree(d, ignore_errors=True)
    subprocess.run(["rsync", "-a", "--exclude", ".git", "--exclude", "*.o", "--exclude", "*.lo", "--exclude", ".libs", "/repo/", d + "/"], check=True)
    p = os.path.join(d, f)
    s = open(p).read()
    if s.count(old) != 1:
        res.append((pid, name, "MUTATION-DOES-NOT-APPLY (%d matches)" % s.count(old)))
        print(res[-1], flush=True)
        continue
    open(p, "w").write(s.replace(old, new, 1))
    env = dict(os.environ, QSX_REPO=d, QSX_CACHE="/var/tmp/qsx-cache-store2-m", VERIF_SEED="1", QSX_OUT="/tmp/store2/mut/out", QSX_EVIDENCE="/tmp/store2/mut/evidence")
    r = subprocess.run(["timeout", "1800", "./check", pid, "quick"], cwd=W, env=env, stdout=subprocess.PIPE, stderr=subprocess.STDOUT, text=True)
    viol = [l[:260] for l in r.stdout.splitlines() if l.startswith("VIOLATION")]
    res.append((pid, name, "exit=%d" % r.returncode, "violations=%d" % len(viol), viol[:2]))
    print(res[-1], flush=True)
json.dump(res, open("/tmp/store2/mut/results.json", "w"), indent=1)
