#!/usr/bin/env python3
import os, subprocess, shutil, sys, json
MUTS = [
 ("C06", "chgobj-wrong-column", "qsopt_ex/lib.c", "	col = lp->O->structmap[indx];\n	EGLPNUM_TYPENAME_EGlpNumCopy (lp->O->obj[col], coef);", "	col = indx;\n	EGLPNUM_TYPENAME_EGlpNumCopy (lp->O->obj[col], coef);"),
 ("C06", "delrows-sense-not-packed", "qsopt_ex/lib.c", "				qslp->sense[j] = qslp->sense[i];\n", "\n"),
 ("C06", "delcols-upper-not-packed", "qsopt_ex/lib.c", "				EGLPNUM_TYPENAME_EGlpNumCopy (qslp->upper[j], qslp->upper[i]);\n			}\n			newcolindex[i] = j++;", "			}\n			newcolindex[i] = j++;"),
 ("C07", "chgcoef-col-check-off-by-one", "qsopt_ex/lib.c", "	if (rowindex < 0 || rowindex >= nrows || colindex < 0 || colindex >= nstruct)\n	{\n		QSlog(\"EGLPNUM_TYPENAME_ILLlib_chgcoef called with out-of-range index\");", "	if (rowindex < 0 || rowindex >= nrows || colindex < 0 || colindex > nstruct)\n	{\n		QSlog(\"EGLPNUM_TYPENAME_ILLlib_chgcoef called with out-of-range index\");"),
 ("C07", "scaling-param-any-value", "qsopt_ex/qsopt.c", "		if (newvalue == 0 || newvalue == 1)\n		{\n			p->simplex_scaling = newvalue;", "		if (1)\n		{\n			p->simplex_scaling = newvalue;"),
 ("C07", "chgrhs-negative-index", "qsopt_ex/lib.c", "	if (indx < 0 || indx >= lp->O->nrows)\n	{\n		QSlog(\"EGLPNUM_TYPENAME_ILLlib_chgrhs called with bad indx: %d\", indx);\n		rval = 1;\n		ILL_CLEANUP;\n	}\n\n	if (lp->O->sinfo)\n	{															/* Presolve LP is no longer valid, free the data */\n		EGLPNUM_TYPENAME_ILLlp_sinfo_free (lp->O->sinfo);\n		ILL_IFFREE(lp->O->sinfo);\n	}\n\n	EGLPNUM_TYPENAME_EGlpNumCopy (lp->O->rhs[indx], coef);", "	if (indx >= lp->O->nrows)\n	{\n		rval = 1;\n		ILL_CLEANUP;\n	}\n\n	EGLPNUM_TYPENAME_EGlpNumCopy (lp->O->rhs[indx], coef);"),
 ("C05", "chgrhs-keeps-cache", "qsopt_ex/qsopt.c", "	rval = EGLPNUM_TYPENAME_ILLlib_chgrhs (p->lp, indx, coef);\n	CHECKRVALG (rval, CLEANUP);\n\n	free_cache (p);", "	rval = EGLPNUM_TYPENAME_ILLlib_chgrhs (p->lp, indx, coef);\n	CHECKRVALG (rval, CLEANUP);\n"),
 ("C05", "chgbounds-keeps-cache", "qsopt_ex/qsopt.c", "	rval = EGLPNUM_TYPENAME_ILLlib_chgbnd (p->lp, indx, lu, bound);\n	CHECKRVALG (rval, CLEANUP);\n\n	free_cache (p);", "	rval = EGLPNUM_TYPENAME_ILLlib_chgbnd (p->lp, indx, lu, bound);\n	CHECKRVALG (rval, CLEANUP);\n"),
 ("C05", "delcols-keeps-factor", "qsopt_ex/qsopt.c", "		EGLPNUM_TYPENAME_ILLlp_basis_free (p->basis);\n		ILL_IFFREE(p->basis);\n	}\n\n	p->factorok = 0;\n	free_cache (p);", "		EGLPNUM_TYPENAME_ILLlp_basis_free (p->basis);\n		ILL_IFFREE(p->basis);\n	}\n\n	free_cache (p);"),
 ("C16", "copy-drops-intmarker", "qsopt_ex/qsopt.c", "			p2->qslp->intmarker[j] = p->qslp->intmarker[j];", "			p2->qslp->intmarker[j] = 0;"),
 ("C16", "copy-scaling-not-copied", "qsopt_ex/qsopt.c", "	p2->simplex_scaling = p->simplex_scaling;\n", "\n"),
 ("C16", "dbl-sentinel-not-mapped", "qsopt_ex/exact.h", "		if(mpq_equal(__larray[__lsz],mpq_ILL_MAXDOUBLE))\\\n			__lres[__lsz] = dbl_ILL_MAXDOUBLE;\\\n		else if", "		if(0)\\\n			__lres[__lsz] = dbl_ILL_MAXDOUBLE;\\\n		else if"),
]
only = sys.argv[1:] 
res = []
for pid, name, f, old, new in MUTS:
    if only and pid not in only and name not in only:
        continue
    d = "/tmp/store/mut/repo"
    shutil.rmtree(d, ignore_errors=True)
    subprocess.run(["rsync", "-a", "--exclude", ".git", "--exclude", "*.o", "--exclude", "*.lo", "--exclude", ".libs", "/repo/", d + "/"], check=True)
    p = os.path.join(d, f)
    s = open(p).read()
    if s.count(old) < 1:
        res.append((pid, name, "MUTATION-DOES-NOT-APPLY"))
        print(res[-1], flush=True)
        continue
    open(p, "w").write(s.replace(old, new, 1))
    env = dict(os.environ, QSX_REPO=d, QSX_CACHE="/var/tmp/qsx-cache-store-m", VERIF_SEED="1")
    r = subprocess.run(["timeout", "1500", "./check", pid, "quick"], cwd="/work/store", env=env, stdout=subprocess.PIPE, stderr=subprocess.STDOUT, text=True)
    viol = [l for l in r.stdout.splitlines() if l.startswith("VIOLATION") or l.startswith("# ")]
    res.append((pid, name, "exit=%d" % r.returncode, viol[:2]))
    print(res[-1], flush=True)
json.dump(res, open("/tmp/store/mut/results.json", "w"), indent=1)
