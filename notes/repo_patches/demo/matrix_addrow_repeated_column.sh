#!/bin/bash
# usage: matrix_addrow_repeated_column.sh [repo-dir]   (default /repo)
# Replays demo/matrix_addrow_repeated_column.txt on the library built from <repo-dir>'s working tree and prints the
# harness' exit status: 1 (the library called exit(1) inside matrix_addrow) as found, 0 with the patch applied.
cd "$(dirname "$0")"
export QSX_REPO=${1:-/repo}
B=$("$(cd ../../.. && pwd)/tools/build_repo.sh") || exit 2
grep -v '^#' matrix_addrow_repeated_column.txt | ASAN_OPTIONS=detect_leaks=0:exitcode=99 "$B/h_store_asan" 2>&1 | grep -av '^M \|^IND\|^VAL' | cut -c1-160
echo "harness exit status: ${PIPESTATUS[1]}"
