#!/bin/bash
# usage: run_demo.sh [name]   - replays the demonstration scripts against the library built from /repo's working tree
# (QSX_REPO=<scratch copy> to try a patched tree); a line "FORKEND CRASH ..." is a crash inside a forked child
cd "$(dirname "$0")"
B=$("$(cd ../../.. && pwd)/tools/build_repo.sh") || exit 2
for f in ${1:-*}.txt; do
  echo "=== $f: $(head -1 $f)"
  grep -v '^#' "$f" | ASAN_OPTIONS=detect_leaks=0:exitcode=99 "$B/h_store_asan" 2>/dev/null | grep -av '^M ' | grep -a "^R \|FORKEND\|^U\|^C \|^ILP" | cut -c1-160
done
