#!/usr/bin/env python3
"""Demonstration of the I/O defects behind notes/repo_patches/*.diff.
usage:  python3 notes/repo_patches/demo.py            (builds /repo's working tree through tools/build_repo.sh)
        QSX_REPO=/path/to/patched/tree python3 notes/repo_patches/demo.py
Every case prints what the library does; 'DEFECT' lines show the failure on the unpatched tree, 'ok' the repaired behaviour."""
import os, sys, subprocess, re, tempfile
HERE = os.path.dirname(os.path.abspath(__file__))
VERIF = os.path.dirname(os.path.dirname(HERE))
sys.path.insert(0, os.path.join(VERIF, "checks"))
from io_common import *

B = build_repo()
D = tempfile.mkdtemp(prefix="demo-", dir="/tmp")


def h(script, asan=False):
    rc, out, err = run_harness("h_io", script, asan=asan, args=[D])
    return rc, [l for l in out.splitlines() if not l.startswith("M ")], err


def show(name, patch, defect, detail):
    print("%-7s %-34s %-28s %s" % ("DEFECT" if defect else "ok", name, patch, detail[:150]))


def first(lines, key):
    for l in lines:
        if l.startswith(key):
            return l
    return "-"


def put(name, text):
    open(os.path.join(D, name), "wb").write(text if isinstance(text, bytes) else text.encode("latin-1"))


LOAD1 = "LOAD h0\nLP t MIN 1 2\nCOL %s 1 0 5 0\nROW %s L 4 0 1 0 1\nROW r2 G 1 0 1 0 1\n"

# 1 number scanner
rc, o, e = h("NUMF 1/0\nNUMF /\n")
show("1/0 in the number scanner", "numreader_div_zero", "CRASH" in o[0], o[0])
put("d1.lp", "min\n x\nst\n c1: x + y <= 1/0\nend\n")
rc, o, e = h("TRYREAD d1.lp LP\n")
show("LP file with rhs 1/0", "numreader_div_zero", "CRASH" in o[0], o[0][:60])
rc, o, e = h(LOAD1 % ("/x", "r1") + "WRITE h0 a.lp LP\nTRYREAD a.lp LP\n")
show("column named /x round trip", "numreader_div_zero", "CRASH" in first(o, "TRYREAD"), first(o, "TRYREAD")[:60])
# 2 truncation
big = "9" * 2100
rc, o, e = h("LOAD h0\nLP t MIN 1 1\nCOL x %s/7 0 5 0\nROW r1 L %s/3 0 1 0 %s/11\n" % (big, big, big) + "WRITE h0 b.lp LP\nREAD h1 b.lp LP\nDUMPO h0\nDUMPO h1\n")
rows = [l for l in o if l.startswith("R ")]
show("2100-digit numbers, LP write/read", "egio_write_truncation", len(rows) < 2 or rows[0] != rows[1], first(o, "READ") + " rows equal: %s" % (len(rows) == 2 and rows[0] == rows[1]))
# 3 message buffer
nm = "n" * 300
rc, o, e = h("LOAD h0\nLP t MIN 1 2\nCOL x 1 0 5 0\nROW %s L 4 0 0\nROW r2 G 1 0 1 0 1\nWRITE h0 c.mps MPS\n" % nm, asan=True)
show("MPS write, empty row with 300-char name", "message_buffer_overflow", rc != 0, "harness rc=%s %s" % (rc, (re.findall(r"ERROR: AddressSanitizer: \S+", e) or [""])[0]))
put("d3.lp", "min\n x\nst\n c1: x >= 1\nbounds\n q%s <= 3\nend\n" % nm)
rc, o, e = h("TRYREAD d3.lp LP\n", asan=True)
show("LP file, unknown 300-char name in Bounds", "message_buffer_overflow", "CRASH" in o[0], dec(o[0])[:90])
# 4 writer names
rc, o, e = h(LOAD1 % ("x", "obj") + "WRITE h0 e.lp LP\nREAD h1 e.lp LP\n")
show("row named obj, LP round trip", "lp_writer_names", "FAIL" in first(o, "READ"), first(o, "READ") + " " + dec(first(o, "E ").split()[-1]).strip())
rc, o, e = h(LOAD1 % ("inf", "r1") + "WRITE h0 f.lp LP\nREAD h1 f.lp LP\nDUMPO h1\n")
show("column named inf with bounds", "lp_writer_names", "FAIL" in first(o, "READ") or "C inf 1 0 5" not in " ".join(o) and "C x0 1 0 5" not in " ".join(o), first(o, "READ") + " " + first(o, "C "))
rc, o, e = h("LOAD h0\nLP t MIN 1 1\nCOL x 1 0 5 0\nROW obj L 4 0 1 0 1\nWRITE h0 g.mps MPS\n", asan=True)
show("single row named obj, MPS write", "lp_writer_names (symtab.c)", rc != 0, "harness rc=%s %s" % (rc, (re.findall(r"runtime error: [^\n]{0,60}", e) or [""])[0]))
# 5 reader keywords / NUL
for nm_, txt in (("INT section header", "max\n x + y\nst\n c1: x + y <= 4\nint\n y\nend\n"),
                 ("':' inside a comment", "max\n x + y\nst\n x + y <= 4 \\ note: bound\nend\n"),

                 ("last line without newline", "max\n x + y\nst\n c1: x + y <= 4\nbounds\n x <= 3\nend"),
                 ("column free2 after a lower bound", "max\n x + free2\nst\n c1: x + free2 <= 4\nbounds\n 1 <= x\n free2 <= 2\nend\n")):
    put("d5.lp", txt)
    rc, o, e = h("READ h0 d5.lp LP\n")
    show(nm_, "lp_reader_keywords", "FAIL" in o[0], o[0] + " " + (dec(first(o, "E 4").split()[-1]).strip() if first(o, "E 4") != "-" else ""))
put("d5c.lp", "max\n x + y\\2 z\nst\n c1: x + y <= 4\nend\n")
rc, o, e = h("READ h0 d5c.lp LP\nDUMPO h0\n")
show("comment directly after a name ('y\\2 z')", "lp_reader_keywords", first(o, "C z") != "-" or "FAIL" in o[0], o[0] + " | " + first(o, "C z"))
put("d5b.lp", "max\n ob")
rc, o, e = h("TRYREAD d5b.lp LP\n", asan=True)
show("LP file cut inside a name (ASan)", "lp_reader_keywords", "CRASH" in o[0], dec(o[0])[:100])
# 6-9 MPS
MPS = "NAME t\nROWS\n N obj\n L r1\nCOLUMNS\n x obj 1 r1 2%s\n y obj 1 r1 1\nRHS\n RHS r1 4\nBOUNDS\n UP BND x 5\n%sENDATA\n"
put("d6.mps", MPS % (" $ comment", ""))
rc, o, e = h("READ h0 d6.mps MPS\n")
show("$ comment in field 5 of a COLUMNS line", "mps_dollar_comment", "FAIL" in o[0], o[0])
put("d7.mps", "NAME t\nROWS\n N obj\n L r1\nCOLUMNS\n y r1 1\n y obj 12345678\n x obj")
rc, o, e = h("READ h0 d7.mps MPS\nDUMPO h0\n")
show("last line ' x obj' without newline", "mps_next_field", "OK" in o[0], o[0] + " | " + first(o, "C x"))
put("d8.mps", MPS % ("", " UI BND y 0\n"))
rc, o, e = h("READ h0 d8.mps MPS\nDUMPO h0\n")
show("UI bound with value 0", "mps_ui_zero", first(o, "C y").endswith(" 0"), first(o, "C y"))
rc, o, e = h("LOAD h0\nLP t MIN 1 1\nCOL x 1 0 5 0\nROW r1 R 2 0 1 0 1\nWRITE h0 h.mps MPS\nREAD h1 h.mps MPS\nDUMPO h1\n")
show("R row with range 0, MPS round trip", "mps_zero_range", first(o, "R r1").split()[2] != "R", first(o, "R r1"))
# 10-12 reader memory
put("d10.mps", "NAME t\nROWS\n N obj\n L r1\nCOLUMNS\n x obj 1 r1 2\n")
rc, o, e = h("TRYREAD d10.mps MPS\n", asan=True)
show("MPS file without ENDATA (ASan)", "format_error_underflow", "CRASH" in o[0], dec(o[0])[:110])
put("d11.mps", "NAME t\nROWS\n N obj\n L r1\nCOLUMNS\n S1 SOS1 'MARKER' 'SOSORG'\n x obj 1 r1 2\n y obj 1 r1 1\n SOS2 'MARKER' 'SOSEND'\nRHS\n RHS r1 4\nENDATA\n")
rc, o, e = h("TRYREAD d11.mps MPS\n", asan=True)
show("MPS file with an SOS set (ASan)", "sos_weight_alloc", "CRASH" in o[0], dec(o[0])[:110])
put("d12.mps", "NAME t\nROWS\n N obj\n N other\n L r1\nCOLUMNS\n u other 1\n v other 1\n w other 1\n x obj 1 r1 2\n x r1 3\nRHS\n RHS r1 4\nENDATA\n")
rc, o, e = h("TRYREAD d12.mps MPS\n", asan=True)
show("unused columns + repeated coefficient (ASan)", "buildmatrix_colnames", "CRASH" in o[0], dec(o[0])[:110])
# 13 own basis
rc, o, e = h("LOAD h0\nLP t MAX 2 1\nCOL x 1 0 4 0\nCOL y 1 0 4 0\nROW r1 L 5 0 2 0 1 1 1\nOPT h0 PRIMAL\nGETBASIS h0\nWRITEBASIS h0 own.bas OWN\nGETBASIS h0\n")
bl = [l for l in o if l.startswith("BASIS")]
show("mpq_QSwrite_basis(p, NULL, file)", "write_own_basis", len(bl) == 2 and bl[0] != bl[1], "basis before: %s, after: %s" % (bl[0][6:], bl[1][6:]))
# 14 esolver
put("d14.lp", "max\n x\nst\n c1: x <= 1\n c2: x >= 2\nend\n")
r = subprocess.run([os.path.join(B, "esolver"), "-O", "d14.sol", "-b", "d14.bas", "d14.lp"], cwd=D, stdout=subprocess.PIPE, stderr=subprocess.PIPE)
sol = open(os.path.join(D, "d14.sol")).read().split("\n")[0] if os.path.exists(os.path.join(D, "d14.sol")) else None
show("esolver -b on an infeasible LP", "esolver_basis_exit", r.returncode != 0, "exit %d, solution file: %s" % (r.returncode, sol))
import shutil
shutil.rmtree(D, ignore_errors=True)
