EDITS["nzcount_after_delete"] = [
 ("qsopt_ex/lib.c", '''				ind[beg[i] + k] = -1;
			}
			newcolindex[i] = -1;''', '''				ind[beg[i] + k] = -1;
			}
			qslp->nzcount -= cnt[i];
			newcolindex[i] = -1;'''),
 ("qsopt_ex/lib.c", '''		cnt[i] -= dk;
		if (cnt[i] == 0)''', '''		cnt[i] -= dk;
		qslp->nzcount -= dk;
		if (cnt[i] == 0)'''),
]
EDITS["symtab_uname_numlen"] = [
 ("qsopt_ex/symtab.c", '''		numlen = (log10 ((double) (symtab->tablesize - 1) * 10)) + 1;''',
  '''		/* tablesize == 1: log10(0) is -inf and its conversion to int undefined */
		numlen = symtab->tablesize > 1 ?
			(int) (log10 ((double) (symtab->tablesize - 1) * 10)) + 1 : 1;'''),
]
EDITS["names_query_empty"] = [
 ("qsopt_ex/lib.c", '''	if (qslp->rownames == 0)
	{
		QSlog("LP does not have rownames assigned");''', '''	if (qslp->rownames == 0 && nrows > 0)
	{
		QSlog("LP does not have rownames assigned");'''),
 ("qsopt_ex/lib.c", '''	if (qslp->colnames == 0)
	{
		QSlog("LP does not have colnames assigned");''', '''	if (qslp->colnames == 0 && nstruct > 0)
	{
		QSlog("LP does not have colnames assigned");'''),
]
