EDITS["nzcount_after_delete"] = [
 ("qsopt_ex/lib.c", '''				ind[beg[i] + k] = -1;
			}
			newcolindex[i] = -1;''', '''				ind[beg[i] + k] = -1;
			}
			qslp->nzcount -= cnt[i];
			newcolindex[i] = -1;'''),
 ("qsopt_ex/lib.c", '''		cnt[i] -= dk;
		if (cnt[i] == 0)''', '''		cnt[i] -= dk;
		qslp->nzcount -= dk;
		if (cnt[i] == 0)'''),
]
# "symtab_uname_numlen" (guard log10(0) in ILLsymboltab_uname) was fixed centrally (62d38ed) with the same change
EDITS["names_query_empty"] = [
 ("qsopt_ex/lib.c", '''	if (qslp->rownames == 0)
	{
		QSlog("LP does not have rownames assigned");''', '''	if (qslp->rownames == 0 && nrows > 0)
	{
		QSlog("LP does not have rownames assigned");'''),
 ("qsopt_ex/lib.c", '''	if (qslp->colnames == 0)
	{
		QSlog("LP does not have colnames assigned");''', '''	if (qslp->colnames == 0 && nstruct > 0)
	{
		QSlog("LP does not have colnames assigned");'''),
]

# ---- C07 ------------------------------------------------------------------------------------
EDITS["bound_index_check"] = [
 ("qsopt_ex/lib.c", '''	if (indx < 0 || indx > lp->O->nstruct)
	{
		QSlog("EGLPNUM_TYPENAME_ILLlib_chgbnd called with bad indx: %d", indx);''',
  '''	if (indx < 0 || indx >= lp->O->nstruct)
	{
		QSlog("EGLPNUM_TYPENAME_ILLlib_chgbnd called with bad indx: %d", indx);'''),
 ("qsopt_ex/lib.c", '''	if (indx < 0 || indx > lp->O->nstruct)
	{
		QSlog("EGLPNUM_TYPENAME_ILLlib_getbnd called with bad indx: %d", indx);''',
  '''	if (indx < 0 || indx >= lp->O->nstruct)
	{
		QSlog("EGLPNUM_TYPENAME_ILLlib_getbnd called with bad indx: %d", indx);'''),
]
EDITS["getbnds_list_range"] = [
 ("qsopt_ex/lib.c", '''				QSlog("EGLPNUM_TYPENAME_ILLlib_getbnds_list collist[%d] = %d out "
										"of range", j, collist[j]);
			}''', '''				QSlog("EGLPNUM_TYPENAME_ILLlib_getbnds_list collist[%d] = %d out "
										"of range", j, collist[j]);
				rval = 1;
				ILL_CLEANUP;
			}'''),
]
EDITS["chgbnds_atomic"] = [
 ("qsopt_ex/lib.c", '''	int rval = 0;
	int i;

	for (i = 0; i < cnt; i++)
	{
		rval = EGLPNUM_TYPENAME_ILLlib_chgbnd (lp, indx[i], lu[i], bnd[i]);''',
  '''	int rval = 0;
	int i;

	/* validate every item first: a failing call changes nothing */
	for (i = 0; lp && i < cnt; i++)
	{
		if (indx[i] < 0 || indx[i] >= lp->O->nstruct ||
				(lu[i] != 'L' && lu[i] != 'U' && lu[i] != 'B'))
		{
			QSlog("EGLPNUM_TYPENAME_ILLlib_chgbnds called with bad item %d", i);
			rval = 1;
			ILL_CLEANUP;
		}
	}

	for (i = 0; i < cnt; i++)
	{
		rval = EGLPNUM_TYPENAME_ILLlib_chgbnd (lp, indx[i], lu[i], bnd[i]);'''),
]
EDITS["chgsense_validation"] = [
 ("qsopt_ex/lib.c", '''	EGLPNUM_TYPENAME_ILLlpdata *qslp = lp->O;
	EGLPNUM_TYPENAME_ILLmatrix *A = &(lp->O->A);

	for (i = 0; i < num; i++)
	{
		j = qslp->rowmap[rowlist[i]];''',
  '''	EGLPNUM_TYPENAME_ILLlpdata *qslp = lp->O;
	EGLPNUM_TYPENAME_ILLmatrix *A = &(lp->O->A);

	/* validate every item first: a failing call changes nothing */
	for (i = 0; i < num; i++)
	{
		if (rowlist[i] < 0 || rowlist[i] >= qslp->nrows ||
				(sense[i] != 'L' && sense[i] != 'G' && sense[i] != 'E' && sense[i] != 'R'))
		{
			QSlog("EGLPNUM_TYPENAME_ILLlib_chgsense called with bad item %d", i);
			rval = 1;
			ILL_CLEANUP;
		}
	}

	for (i = 0; i < num; i++)
	{
		j = qslp->rowmap[rowlist[i]];'''),
]
EDITS["addrow_validation"] = [
 ("qsopt_ex/lib.c", '''	qslp = lp->O;
	A = &qslp->A;

	if (qslp->rA)
	{															/* After an addrow call, needs to be updated */''',
  '''	qslp = lp->O;
	A = &qslp->A;

	/* check all arguments before the first write: a failing call changes nothing
	 * (no phantom name stays registered, no out-of-range structmap access) */
	if (sense != 'L' && sense != 'G' && sense != 'E' && sense != 'R')
	{
		QSlog("illegal sense %d in EGLPNUM_TYPENAME_ILLlib_addrow", sense);
		rval = 1;
		ILL_CLEANUP;
	}
	for (i = 0; i < cnt; i++)
	{
		if (ind[i] < 0 || ind[i] >= qslp->nstruct)
		{
			QSlog("illegal column index %d in EGLPNUM_TYPENAME_ILLlib_addrow", ind[i]);
			rval = 1;
			ILL_CLEANUP;
		}
	}
	if (name && ILLsymboltab_contains (&qslp->rowtab, name))
	{
		QSlog("row name %s already in use", name);
		rval = 1;
		ILL_CLEANUP;
	}

	if (qslp->rA)
	{															/* After an addrow call, needs to be updated */'''),
]
EDITS["addcol_validation"] = [
 ("qsopt_ex/lib.c", '''	qslp = lp->O;
	A = &qslp->A;
	ncols = qslp->ncols;

	if (qslp->rA)
	{															/* After an addcol call, needs to be updated */''',
  '''	qslp = lp->O;
	A = &qslp->A;
	ncols = qslp->ncols;

	/* check all arguments before the first write: a failing call changes nothing */
	for (pind = 0; pind < cnt; pind++)
	{
		if (ind[pind] < 0 || ind[pind] >= qslp->nrows)
		{
			QSlog("illegal row index %d in EGLPNUM_TYPENAME_ILLlib_addcol", ind[pind]);
			rval = 1;
			ILL_CLEANUP;
		}
	}
	if (name && ILLsymboltab_contains (&qslp->coltab, name))
	{
		QSlog("column name %s already in use", name);
		rval = 1;
		ILL_CLEANUP;
	}

	if (qslp->rA)
	{															/* After an addcol call, needs to be updated */'''),
]
EDITS["delete_validation"] = [
 # delrows: reject repeated indices before anything is changed
 ("qsopt_ex/lib.c", '''	for (i = 0; i < num; i++)
	{
		if (dellist[i] < 0 || dellist[i] >= A->matrows) {
			rval = 1;
			ILL_CLEANUP;
		}
	}
''', '''	for (i = 0; i < num; i++)
	{
		if (dellist[i] < 0 || dellist[i] >= A->matrows) {
			rval = 1;
			ILL_CLEANUP;
		}
	}
	/* a row may be listed only once: all the counts below are reduced by num */
	ILL_SAFE_MALLOC (rowmark, A->matrows, char);
	for (i = 0; i < A->matrows; i++)
	{
		rowmark[i] = 0;
	}
	for (i = 0; i < num; i++)
	{
		if (rowmark[dellist[i]])
		{
			QSlog("row %d listed twice in EGLPNUM_TYPENAME_ILLlib_delrows", dellist[i]);
			rval = 1;
			ILL_CLEANUP;
		}
		rowmark[dellist[i]] = 1;
	}
'''),
 ("qsopt_ex/lib.c", '''	ILL_SAFE_MALLOC (rowmark, nrows, char);

	for (i = 0; i < nrows; i++)
	{
		rowmark[i] = 0;
	}
	for (i = 0; i < num; i++)
	{
		rowmark[dellist[i]] = 1;
	}

''', '''
'''),
 # delcols: the index is a structural index (not a matrix column), repeated indices rejected
 ("qsopt_ex/lib.c", '''	for (i = 0; i < num; i++)
	{
		if (dellist[i] < 0 || dellist[i] >= ncols) {
			rval = 1;
			ILL_CLEANUP;
		}
	}
''', '''	for (i = 0; i < num; i++)
	{
		if (dellist[i] < 0 || dellist[i] >= qslp->nstruct) {
			rval = 1;
			ILL_CLEANUP;
		}
	}
	ILL_SAFE_MALLOC (colmark, ncols, char);
	for (i = 0; i < ncols; i++)
	{
		colmark[i] = 0;
	}
	for (i = 0; i < num; i++)
	{
		if (colmark[qslp->structmap[dellist[i]]])
		{
			QSlog("column %d listed twice in EGLPNUM_TYPENAME_ILLlib_delcols", dellist[i]);
			rval = 1;
			ILL_CLEANUP;
		}
		colmark[qslp->structmap[dellist[i]]] = 1;
	}
'''),
 ("qsopt_ex/lib.c", '''	ILL_SAFE_MALLOC (colmark, ncols, char);

	for (i = 0; i < ncols; i++)
	{
		colmark[i] = 0;
	}
	for (i = 0; i < num; i++)
	{
		colmark[qslp->structmap[dellist[i]]] = 1;
	}

	if (B)
	{
		B->nstruct -= num;''', '''	if (B)
	{
		B->nstruct -= num;'''),
]
EDITS["load_basis_validation"] = [
 # QSload_basis: convert and validate into a temporary, install only a valid basis
 ("qsopt_ex/qsopt.c", '''	if (p->basis == 0)
	{
		ILL_SAFE_MALLOC (p->basis, 1, EGLPNUM_TYPENAME_ILLlp_basis);
		EGLPNUM_TYPENAME_ILLlp_basis_init (p->basis);
	}
	else
	{
		EGLPNUM_TYPENAME_ILLlp_basis_free (p->basis);
	}

	rval = qsbasis_to_illbasis (B, p->basis);
	CHECKRVALG (rval, CLEANUP);

	p->factorok = 0;
''', '''	/* convert and validate first: an invalid basis must not replace the stored one */
	EGLPNUM_TYPENAME_ILLlp_basis_init (&tmp);
	rval = qsbasis_to_illbasis (B, &tmp);
	if (rval)
	{
		EGLPNUM_TYPENAME_ILLlp_basis_free (&tmp);
		goto CLEANUP;
	}

	if (p->basis == 0)
	{
		ILL_SAFE_MALLOC (p->basis, 1, EGLPNUM_TYPENAME_ILLlp_basis);
		EGLPNUM_TYPENAME_ILLlp_basis_init (p->basis);
	}
	else
	{
		EGLPNUM_TYPENAME_ILLlp_basis_free (p->basis);
	}
	*(p->basis) = tmp;

	p->factorok = 0;
'''),
 ("qsopt_ex/qsopt.c", '''	QSbasis * B)
{
	int rval = 0;

	rval = check_qsdata_pointer (p);
	CHECKRVALG (rval, CLEANUP);

	if (B->nstruct != p->qslp->nstruct || B->nrows != p->qslp->nrows)''', '''	QSbasis * B)
{
	int rval = 0;
	EGLPNUM_TYPENAME_ILLlp_basis tmp;

	rval = check_qsdata_pointer (p);
	CHECKRVALG (rval, CLEANUP);

	if (B->nstruct != p->qslp->nstruct || B->nrows != p->qslp->nrows)'''),
 # status characters must be legal, exactly nrows basic entries
 ("qsopt_ex/qsopt.c", '''	for (i = 0; i < qB->nstruct; i++)
	{
		if(qB->cstat[i] == QS_COL_BSTAT_BASIC) nbas++;
		B->cstat[i] = qB->cstat[i];
	}

	for (i = 0; i < qB->nrows; i++)
	{
		if(qB->rstat[i] == QS_ROW_BSTAT_BASIC) nbas++;
		B->rstat[i] = qB->rstat[i];
	}

	if(nbas != qB->nrows)''', '''	for (i = 0; i < qB->nstruct; i++)
	{
		if(qB->cstat[i] == QS_COL_BSTAT_BASIC) nbas++;
		else if(qB->cstat[i] != QS_COL_BSTAT_LOWER && qB->cstat[i] != QS_COL_BSTAT_UPPER &&
						qB->cstat[i] != QS_COL_BSTAT_FREE) nbas = -(qB->nrows + qB->nstruct + 1);
		B->cstat[i] = qB->cstat[i];
	}

	for (i = 0; i < qB->nrows; i++)
	{
		if(qB->rstat[i] == QS_ROW_BSTAT_BASIC) nbas++;
		else if(qB->rstat[i] != QS_ROW_BSTAT_LOWER && qB->rstat[i] != QS_ROW_BSTAT_UPPER)
			nbas = -(qB->nrows + qB->nstruct + 1);
		B->rstat[i] = qB->rstat[i];
	}

	if(nbas != qB->nrows)'''),
 # QSload_basis_array: same validation before the stored basis is touched
 ("qsopt_ex/qsopt.c", '''		QSlog("EGLPNUM_TYPENAME_QSload_basis_array called without rstat");
		rval = 1;
		goto CLEANUP;
	}
''', '''		QSlog("EGLPNUM_TYPENAME_QSload_basis_array called without rstat");
		rval = 1;
		goto CLEANUP;
	}

	{
		int nbas = 0;
		for (i = 0; i < qslp->nstruct; i++)
		{
			if (cstat[i] == QS_COL_BSTAT_BASIC) nbas++;
			else if (cstat[i] != QS_COL_BSTAT_LOWER && cstat[i] != QS_COL_BSTAT_UPPER &&
							 cstat[i] != QS_COL_BSTAT_FREE) nbas = -(qslp->nrows + qslp->nstruct + 1);
		}
		for (i = 0; i < qslp->nrows; i++)
		{
			if (rstat[i] == QS_ROW_BSTAT_BASIC) nbas++;
			else if (rstat[i] != QS_ROW_BSTAT_LOWER && rstat[i] != QS_ROW_BSTAT_UPPER)
				nbas = -(qslp->nrows + qslp->nstruct + 1);
		}
		if (nbas != qslp->nrows)
		{
			QSlog("EGLPNUM_TYPENAME_QSload_basis_array: basis is not valid");
			rval = 1;
			goto CLEANUP;
		}
	}
'''),
]
EDITS["pivotin_index_check"] = [
 ("qsopt_ex/qsopt.c", '''		ILL_ERROR (rval, "pricing info not available in EGLPNUM_TYPENAME_QSopt_pivotin_row\\n");
	}
''', '''		ILL_ERROR (rval, "pricing info not available in EGLPNUM_TYPENAME_QSopt_pivotin_row\\n");
	}
	{
		int k;
		if (rcnt > 0 && (p->lp->vstat == 0 || p->factorok == 0))
		{
			ILL_ERROR (rval, "no factored basis available in EGLPNUM_TYPENAME_QSopt_pivotin_row\\n");
		}
		for (k = 0; k < rcnt; k++)
		{
			if (rlist[k] < 0 || rlist[k] >= p->qslp->nrows)
			{
				ILL_ERROR (rval, "row index out of range in EGLPNUM_TYPENAME_QSopt_pivotin_row\\n");
			}
		}
	}
'''),
 ("qsopt_ex/qsopt.c", '''		ILL_ERROR (rval, "pricing info not available in QSopt_pivotin\\n");
	}
''', '''		ILL_ERROR (rval, "pricing info not available in QSopt_pivotin\\n");
	}
	{
		int k;
		if (ccnt > 0 && (p->lp->vstat == 0 || p->factorok == 0))
		{
			ILL_ERROR (rval, "no factored basis available in QSopt_pivotin\\n");
		}
		for (k = 0; k < ccnt; k++)
		{
			if (clist[k] < 0 || clist[k] >= p->qslp->ncols)
			{
				ILL_ERROR (rval, "column index out of range in QSopt_pivotin\\n");
			}
		}
	}
'''),
]
EDITS["addrows_addcols_atomic"] = [
 ("qsopt_ex/lib.c", '''	EGLPNUM_TYPENAME_EGlpNumInitVar (rng);

	if (B == 0 || B->rownorms == 0)''', '''	EGLPNUM_TYPENAME_EGlpNumInitVar (rng);

	/* validate every row first: a failing call adds nothing
	 * (not covered: a generated name c<k> colliding with a later given name) */
	for (i = 0; i < num; i++)
	{
		if (sense[i] != 'L' && sense[i] != 'G' && sense[i] != 'E' && sense[i] != 'R')
		{
			QSlog("illegal sense in row %d of EGLPNUM_TYPENAME_ILLlib_addrows", i);
			rval = 1;
			ILL_CLEANUP;
		}
		for (j = 0; j < rmatcnt[i]; j++)
		{
			if (rmatind[rmatbeg[i] + j] < 0 || rmatind[rmatbeg[i] + j] >= lp->O->nstruct)
			{
				QSlog("illegal column index in row %d of EGLPNUM_TYPENAME_ILLlib_addrows", i);
				rval = 1;
				ILL_CLEANUP;
			}
		}
		if (names && names[i])
		{
			if (ILLsymboltab_contains (&lp->O->rowtab, names[i]))
			{
				QSlog("row name %s already in use", names[i]);
				rval = 1;
				ILL_CLEANUP;
			}
			for (j = 0; j < i; j++)
			{
				if (names[j] && !strcmp (names[i], names[j]))
				{
					QSlog("row name %s given twice", names[i]);
					rval = 1;
					ILL_CLEANUP;
				}
			}
		}
	}

	if (B == 0 || B->rownorms == 0)'''),
 ("qsopt_ex/lib.c", '''	int rval = 0;
	int i;

	for (i = 0; i < num; i++)
	{
		if (names)
		{
			rval = EGLPNUM_TYPENAME_ILLlib_addcol (lp, B, cmatcnt[i], cmatind + cmatbeg[i],''', '''	int rval = 0;
	int i, j;

	/* validate every column first: a failing call adds nothing
	 * (not covered: a generated name x<k> colliding with a later given name) */
	for (i = 0; i < num; i++)
	{
		for (j = 0; j < cmatcnt[i]; j++)
		{
			if (cmatind[cmatbeg[i] + j] < 0 || cmatind[cmatbeg[i] + j] >= lp->O->nrows)
			{
				QSlog("illegal row index in column %d of EGLPNUM_TYPENAME_ILLlib_addcols", i);
				rval = 1;
				ILL_CLEANUP;
			}
		}
		if (names && names[i])
		{
			if (ILLsymboltab_contains (&lp->O->coltab, names[i]))
			{
				QSlog("column name %s already in use", names[i]);
				rval = 1;
				ILL_CLEANUP;
			}
			for (j = 0; j < i; j++)
			{
				if (names[j] && !strcmp (names[i], names[j]))
				{
					QSlog("column name %s given twice", names[i]);
					rval = 1;
					ILL_CLEANUP;
				}
			}
		}
	}

	for (i = 0; i < num; i++)
	{
		if (names)
		{
			rval = EGLPNUM_TYPENAME_ILLlib_addcol (lp, B, cmatcnt[i], cmatind + cmatbeg[i],'''),
]

# ---- C05 ------------------------------------------------------------------------------------
EDITS["range_edits_update_logical"] = [
 # DESIGN 10 #4: a row made 'R' gets the logical ILLlib_addrow gives a ranged row (-1, [0, range])
 ("qsopt_ex/lib.c", '''			qslp->sense[rowlist[i]] = 'R';
			EGLPNUM_TYPENAME_EGlpNumZero(qslp->lower[j]);
			EGLPNUM_TYPENAME_EGlpNumZero(qslp->upper[j]);
			EGLPNUM_TYPENAME_EGlpNumOne(A->matval[k]);
			break;''', '''			qslp->sense[rowlist[i]] = 'R';
			EGLPNUM_TYPENAME_EGlpNumZero(qslp->lower[j]);
			if (qslp->rangeval)
				EGLPNUM_TYPENAME_EGlpNumCopy(qslp->upper[j], qslp->rangeval[rowlist[i]]);
			else
				EGLPNUM_TYPENAME_EGlpNumZero(qslp->upper[j]);
			EGLPNUM_TYPENAME_EGlpNumOne(A->matval[k]);
			EGLPNUM_TYPENAME_EGlpNumSign(A->matval[k]);
			break;'''),
 # DESIGN 10 #3: the range is the upper bound of the row's logical
 ("qsopt_ex/lib.c", '''	EGLPNUM_TYPENAME_EGlpNumCopy(qslp->rangeval[indx], coef);
''', '''	EGLPNUM_TYPENAME_EGlpNumCopy(qslp->rangeval[indx], coef);
	EGLPNUM_TYPENAME_EGlpNumCopy(qslp->upper[qslp->rowmap[indx]], coef);
'''),
]
EDITS["edit_drops_norms"] = [
 ("qsopt_ex/qsopt.c", '''	p->factorok = 0;	/* the coefficient of a logical may have changed sign */
	free_cache (p);''', '''	p->factorok = 0;	/* the coefficient of a logical may have changed sign */
	if (p->basis)
	{		/* edge norms of the stored basis belong to the old basis matrix */
		EGLPNUM_TYPENAME_EGlpNumFreeArray (p->basis->rownorms);
		EGLPNUM_TYPENAME_EGlpNumFreeArray (p->basis->colnorms);
	}
	free_cache (p);'''),
 ("qsopt_ex/qsopt.c", '''	p->factorok = 0;	/* the basis matrix may have changed */
	free_cache (p);''', '''	p->factorok = 0;	/* the basis matrix may have changed */
	if (p->basis)
	{		/* edge norms of the stored basis belong to the old basis matrix */
		EGLPNUM_TYPENAME_EGlpNumFreeArray (p->basis->rownorms);
		EGLPNUM_TYPENAME_EGlpNumFreeArray (p->basis->colnorms);
	}
	free_cache (p);'''),
]
# "simplex_reload_frees_other_norms" (free the other algorithm's norms when a basis is reloaded) was superseded by the central fix 8e48cd4
EDITS["addrows_rownorms_realloc"] = [
 # ILLlp_basis.rownorms_size is never assigned: the guard reads an uninitialised int and skips the reallocation
 ("qsopt_ex/lib.c", '''		if (B->rownorms_size < lp->O->nrows + num)
			EGLPNUM_TYPENAME_EGlpNumReallocArray (&(B->rownorms), lp->O->nrows + num);''',
  '''		EGLPNUM_TYPENAME_EGlpNumReallocArray (&(B->rownorms), lp->O->nrows + num);'''),
 ("qsopt_ex/lib.c", '''		if (B->rownorms_size < lp->O->nrows)
			EGLPNUM_TYPENAME_EGlpNumReallocArray (&(B->rownorms), lp->O->nrows);''',
  '''		EGLPNUM_TYPENAME_EGlpNumReallocArray (&(B->rownorms), lp->O->nrows);'''),
]

# ---- C16 ------------------------------------------------------------------------------------
EDITS["copy_prob_pricing_and_params"] = [
 # the struct assignment shared every norm / scale array of a solved problem with its copy (double free, use after free);
 # iteration / time limits and objective limits were not copied (DESIGN 10 #19)
 ("qsopt_ex/qsopt.c", '''	EGLPNUM_TYPENAME_EGlpNumClearVar (p2->pricing->htrigger);
	*(p2->pricing) = *(p->pricing);
	/* I added this line because copying the EGLPNUM_TYPENAME_heap (as a pointer) doesn't make any
	 * sense ! */
	EGLPNUM_TYPENAME_ILLheap_init (&(p2->pricing->h));
	EGLPNUM_TYPENAME_EGlpNumInitVar (p2->pricing->htrigger);
	EGLPNUM_TYPENAME_EGlpNumCopy (p2->pricing->htrigger, p->pricing->htrigger);
''', '''	/* only the pricing *choices* are copied: the norm, scale and partial-pricing arrays of p
	 * belong to p's current basis (p2->pricing was initialised by QScreate_prob) */
	p2->pricing->pI_price = p->pricing->pI_price;
	p2->pricing->pII_price = p->pricing->pII_price;
	p2->pricing->dI_price = p->pricing->dI_price;
	p2->pricing->dII_price = p->pricing->dII_price;
	p2->lp->maxiter = p->lp->maxiter;
	p2->lp->maxtime = p->lp->maxtime;
	EGLPNUM_TYPENAME_EGlpNumCopy (p2->uobjlim, p->uobjlim);
	EGLPNUM_TYPENAME_EGlpNumCopy (p2->lobjlim, p->lobjlim);
	if (p->qslp->objsense == QS_MAX)
		EGLPNUM_TYPENAME_ILLsimplex_set_bound (p2->lp, (const EGLPNUM_TYPE *) (&(p2->lobjlim)), QS_MAX);
	else
		EGLPNUM_TYPENAME_ILLsimplex_set_bound (p2->lp, (const EGLPNUM_TYPE *) (&(p2->uobjlim)), QS_MIN);
'''),
]
EDITS["copy_prob_objname"] = [
 # a copy of a problem without objective name got the invented name "obj" registered in its row table:
 # QSnew_row (copy, .., "obj") fails where it succeeds on the original
 ("qsopt_ex/qsopt.c", '''	else
	{
		strcpy (buf, "obj");
		rval = ILLsymboltab_uname (&p2->qslp->rowtab, buf, "", NULL);
		CHECKRVALG (rval, CLEANUP);
		ILL_UTIL_STR (p2->qslp->objname, buf);
	}
	if (p2->qslp->rowtab.tablesize == 0) {
		ILLsymboltab_create(&p2->qslp->rowtab, 100);
	}
	rval = ILLsymboltab_register (&p2->qslp->rowtab, p2->qslp->objname,
																-1, &pindex, &hit);
	rval = rval || hit;
	CHECKRVALG (rval, CLEANUP);
''', '''	if (p2->qslp->objname != 0)
	{
		if (p2->qslp->rowtab.tablesize == 0) {
			ILLsymboltab_create(&p2->qslp->rowtab, 100);
		}
		rval = ILLsymboltab_register (&p2->qslp->rowtab, p2->qslp->objname,
																	-1, &pindex, &hit);
		rval = rval || hit;
		CHECKRVALG (rval, CLEANUP);
	}
'''),
]

EDITS["delrows_cache_guard"] = [
 # DESIGN 10 #18: the cached solution stays optimal for the reduced LP only if the deleted rows have zero duals
 # (reproduced: solve, QSload_basis_array(slack basis), QSdelete_row of a tight row with pi < 0 -> stale OPTIMAL served)
 ("qsopt_ex/lib.c", '''			if (C && EGLPNUM_TYPENAME_EGlpNumIsLess (EGLPNUM_TYPENAME_DFEAS_TOLER, C->pi[j]))''',
  '''			if (C && EGLPNUM_TYPENAME_EGlpNumIsNeqZero (C->pi[j], EGLPNUM_TYPENAME_DFEAS_TOLER))'''),
]
