#!/bin/bash
# usage: notes/repo_patches/demo.sh [repo-dir]   (default /repo) - runs the demonstration scripts of the fac patches
cd "$(dirname "$0")/../.."
export QSX_REPO=${1:-/repo}
B=$(tools/build_repo.sh) || exit 2
for f in notes/repo_patches/demo-dualstatus-uninit-pstatus.txt notes/repo_patches/demo-basis-verdict-singular.txt; do
  echo "== $f"; grep -v '^#' "$f" | "$B/h_fac" | grep -v '^M '
done
