#!/usr/bin/env python3
"""Demonstration for mps_setname_clash.diff: a column called BOUND next to a column called 2 (the witness of
C09_mps_setname_clash_refuted, coq/IO/MpsWf.v).  Prints DEFECT on a tree without the patch (the upper bound 4 of column
"2" comes back as upper bound 2 of column "BOUND"), ok on a tree with it.
Usage:  QSX_REPO=<tree> QSX_CACHE=<build cache> python3 notes/repo_patches/mps_setname_clash_demo.py"""
import os, sys
sys.path.insert(0, os.path.join(os.path.dirname(os.path.abspath(__file__)), "..", "..", "checks"))
from io_common import *

W = dict(name="clash", max=True, cols=[("BOUND", F(1), F(0), INF, False), ("2", F(1), F(0), F(4), False)],
         rows=[("r", "L", F(10), F(0), [("BOUND", F(1)), ("2", F(1))])])
build_repo()
rc, out, err = run_io("CASE d\n" + load_block(0, W) + "\nWRITE h0 d.mps MPS\nCAT d.mps\nREAD h1 d.mps MPS\nDUMPO h1\n")
ops = split_ops(split_cases(out)[1]["d"])
text = cat_bytes(next(o for o in ops if o[0][0] == "CAT")).decode()
P = dump_of(next((o for o in ops if o[0][0] == "P"), None))
print(text)
ub = {c[0]: c[3] for c in P["cols"]} if P else None
print("read back upper bounds:", ub)
good = ub == {"BOUND": INF, "2": F(4)}
print("ok" if good else "DEFECT: the bound of column 2 landed on column BOUND (or the file was rejected)")
cleanup_scratch()
sys.exit(0 if good else 1)
