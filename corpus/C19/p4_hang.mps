NAME    e12
OBJSENSE
  MIN
OBJNAME
  obj
ROWS
 N  obj
 G  z43a
 G  z47
 G  a93a
 E  a65.1
COLUMNS
  v44.1    obj    5
  v44.1    z43a    6
  v44.1    z47    1
  v44.1    a93a    -2
  v60_    obj    45/2
  v60_    z47    8
  v60_    a93a    -89317
  w80a    obj    -1
  w80a    z47    -422263/500000000
  w80a    a93a    3
  y97_    obj    -3
  y97_    z47    6
  y97_    a93a    1
  y97_    a65.1    9/4
  a49_    obj    7
  a49_    z47    2
RHS
 RHS    z43a    -10
 RHS    z47    82999577737/2000000000
 RHS    a93a    -1429053/4
 RHS    a65.1    27/4
RANGES
 RANGE    z47    4
 RANGE    a93a    3
BOUNDS
 LO BOUND    v44.1    -3
 UP BOUND    v44.1    0
 MI BOUND    v60_
 UP BOUND    v60_    4
 LO BOUND    w80a    -2
 LO BOUND    y97_    -2
 UP BOUND    y97_    3
 LO BOUND    a49_    -3
 UP BOUND    a49_    -2
ENDATA
