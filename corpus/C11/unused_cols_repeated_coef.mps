NAME t
ROWS
 N obj
 N other
 L r1
COLUMNS
 u other 1
 v other 1
 w other 1
 x obj 1 r1 2
 x r1 3
RHS
 RHS r1 4
ENDATA
