NAME t
ROWS
 N obj
 L r1
COLUMNS
 y r1 1
 y obj 12345678
 x obj