NAME t
ROWS
 N obj
 L r1
COLUMNS
 x obj 1 r1 2
