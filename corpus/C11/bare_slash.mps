NAME t
ROWS
 N obj
 L r1
COLUMNS
 x obj / r1 2
ENDATA
